import json,sys
d=json.load(sys.stdin)
print('evals',d['evaluations'],'hashes',len(d['hashes']),'wall',round(d.get('wall_s',0),1))
print('counters',d['counters'])
print('targeted',d['targeted'])
print('inconclusive',d['inconclusive'][:3])
for v in d['violations']:
    print('VIOL',v['signature'],'::',v['detail'][:300])
    if len(sys.argv)>1 and int(sys.argv[1])>0:
        r=v['replay']
        print(json.dumps(r.get('scenario'),indent=0)[:1500])
        for l in (r.get('trace_before_violation') or r.get('trace_tail') or [])[-int(sys.argv[1]):]: print('   ',l)
