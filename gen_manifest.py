#!/usr/bin/env python3
"""Regenerates MANIFEST.json from checks_config.py + manifest_text.py (keeps the two in step)."""
import json, os, sys
ROOT = os.path.dirname(os.path.abspath(__file__))
sys.path.insert(0, ROOT)
from checks_config import PROPS
from manifest_text import TEXT, NOT_APPLICABLE, HOOK_COMMITS, ENGINES, NOTES

ALL = [f"C{i:02d}" for i in range(1, 21)]
checks = []
for pid in ALL:
    if pid not in PROPS or pid not in TEXT:
        continue
    t = TEXT[pid]
    c = {
        "property_id": pid,
        "quick_cmd": f"./check {pid} quick",
        "evidence_file": f"/verif/evidence/{pid}.json",
        "replay_cmd_template": "./check replay {path}",
        "engine": t["engine"],
        "level_claimed": {"category": PROPS[pid]["level"], "text": t["level_text"], "design_ref": t["design_ref"]},
        "level_note": t["level_note"],
        "technique": t["technique"],
    }
    if PROPS[pid]["jobs"].get("thorough"):
        c["thorough_cmd"] = f"./check {pid} thorough"
    checks.append(c)
na = [{"property_id": p, "reason": NOT_APPLICABLE.get(p, "check not built yet")} for p in ALL if p not in PROPS or p not in TEXT]
m = {
    "version": 1,
    "setup_cmd": "./check build",
    "hooks": {
        "guard": "penguin_rs_verif",
        "enable": "RUSTFLAGS='--cfg penguin_rs_verif --check-cfg cfg(penguin_rs_verif)' (set by ./check for every cargo invocation; the harness crates depend on /repo's crates by path)",
        "baseline_off_cmd": "cd /repo && cargo nextest run --workspace --no-fail-fast --test-threads 8 --offline",
        "source_commits": HOOK_COMMITS,
        "add_only": True,
    },
    "engines": ENGINES,
    "checks": checks,
    "notes": NOTES,
    "not_applicable": na,
}
json.dump(m, open(os.path.join(ROOT, "MANIFEST.json"), "w"), indent=1)
print(f"{len(checks)} checks, {len(na)} not claimed")
