#!/bin/bash
# usage: tools/confirm_mutant.sh <worktree> "<demo cargo command>"
# (the suite runs in a private network namespace: its end-to-end tests bind fixed ports and clash with other worktrees otherwise)
# Confirms in the scratch worktree: with the patch the existing suite passes and the demo fails; without it the demo passes.
set -u
wt="$1"; demo="$2"
cd "$wt" || exit 2
export CARGO_NET_OFFLINE=true
echo "--- with the change: existing suite"
unshare -n sh -c "ip link set lo up && cargo nextest run --workspace --no-fail-fast --test-threads 8 --offline" 2>&1 | grep -E "Summary|FAIL \[" | sed 's/^ *//' | sort -u | head -12
echo "--- with the change: demo"
( eval "$demo" ) 2>&1 | grep -E "test result|panicked|FAILED|error\[" | head -6
echo "--- without the change: demo"
git apply -R MUTANT/patch.diff || { echo "cannot revert patch"; exit 2; }
( eval "$demo" ) 2>&1 | grep -E "test result|panicked|FAILED|error\[" | head -6
git apply MUTANT/patch.diff
