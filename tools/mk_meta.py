#!/usr/bin/env python3
"""usage: tools/mk_meta.py <id> <change> <needs_to_manifest> <detected_by> <status>"""
import json, os, sys
mid, change, needs, det, status = sys.argv[1:6]
d = f"/verif/seeded/{mid}"
demo = sorted(f for f in os.listdir(d) if f not in ("patch.diff", "NOTES.md", "meta.json"))
json.dump({
    "id": mid, "property": mid.split("-")[0], "change": change, "needs_to_manifest": needs,
    "demonstration": demo,
    "confirmed": "in the agent's scratch worktree (tools/ingest_mutant.sh, suite run in a private network namespace): with the patch the 149 baseline tests pass and the demonstration (demo.sh) fails; without it the demonstration passes",
    "checks_run": "tools/try_mutant.sh <patch> <checks> (git -C /repo apply; ./check <id> quick; git -C /repo checkout -- .)",
    "detected_by": det, "status": status}, open(f"{d}/meta.json", "w"), indent=1)
print(open(f"{d}/meta.json").read()[:300])
