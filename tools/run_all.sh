#!/bin/bash
# usage: tools/run_all.sh <tier> <seed> [ids...]  -- runs the checks one after another, one summary line each
tier="$1"; seed="$2"; shift 2
ids="$@"; [ -z "$ids" ] && ids="C01 C02 C03 C04 C05 C06 C07 C08 C09 C10 C11 C12 C13 C14 C15 C16 C17 C18 C19 C20"
cd /verif
for c in $ids; do
  s=$(date +%s)
  out=$(VERIF_SEED=$seed ./check $c $tier 2>&1); rc=$?
  e=$(( $(date +%s) - s ))
  echo "$c $tier seed=$seed rc=$rc ${e}s $(echo "$out" | grep -E 'verdict=' | head -1 | sed 's/.*verdict=/verdict=/')"
  echo "$out" | grep -E "^VIOLATION|signature:|INCONCLUSIVE|HARNESS|BUILD" | head -8
done
