#!/bin/bash
# usage: tools/try_mutant.sh <patch.diff> <Cxx> [Cyy ...]   -- applies the patch to /repo, runs the quick checks, reverts.
set -u
patch="$1"; shift
cd /repo || exit 2
if ! git diff --quiet; then echo "/repo has uncommitted changes"; exit 2; fi
git apply "$patch" || { echo "patch does not apply"; exit 2; }
cd /verif
for c in "$@"; do
  out=$(VERIF_SEED=${VERIF_SEED:-1} ./check "$c" quick 2>&1)
  rc=$?
  echo "== $c rc=$rc $(echo "$out" | grep -E 'verdict=' | head -1)"
  echo "$out" | grep -E "signature:|INCONCLUSIVE|HARNESS|BUILD-FAILED" | head -6
done
git -C /repo checkout -- .
git -C /verif checkout -- evidence 2>/dev/null
git -C /repo status --short | head -3
