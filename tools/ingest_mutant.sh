#!/bin/bash
# usage: tools/ingest_mutant.sh <worktree> <id>   (round 9+ layout: <worktree>/MUTANT/{patch.diff,demo.sh,NOTES.md,[demo_registration.diff],demo files})
# Confirms in the scratch worktree (suite with the change in a private network namespace; demo with / without), then copies to seeded/<id>/.
set -u
wt="$1"; id="$2"
cd "$wt" || exit 2
export CARGO_NET_OFFLINE=true
[ -f MUTANT/patch.diff ] || { echo "no MUTANT/patch.diff"; exit 2; }
# the worktree is expected to have the change + demo applied; make sure the source change is exactly patch.diff
echo "--- patch touches:"; grep '^+++ b/' MUTANT/patch.diff
echo "--- with the change: existing suite"
unshare -n sh -c "ip link set lo up && cargo nextest run --workspace --no-fail-fast --test-threads 8 --offline" 2>&1 | grep -E "Summary|FAIL \[" | sed 's/^ *//' | sort -u | head -12
echo "--- with the change: demo"
bash MUTANT/demo.sh > /tmp/ingest_demo_with.log 2>&1; echo "demo exit (with) = $?"; grep -E "test result|panicked|FAILED" /tmp/ingest_demo_with.log | head -5
echo "--- without the change: demo"
git apply -R MUTANT/patch.diff || { echo "cannot revert patch"; exit 2; }
bash MUTANT/demo.sh > /tmp/ingest_demo_without.log 2>&1; echo "demo exit (without) = $?"; grep -E "test result|panicked|FAILED" /tmp/ingest_demo_without.log | head -5
git apply MUTANT/patch.diff
mkdir -p /verif/seeded/$id
cp -r MUTANT/. /verif/seeded/$id/
rm -f /verif/seeded/$id/*.log
# keep the demonstration sources that live outside MUTANT/ (untracked files of the worktree)
git status --porcelain | grep '^??' | awk '{print $2}' | grep -v '^MUTANT' | grep -v '^target' | while read f; do
  if [ -f "$f" ]; then mkdir -p /verif/seeded/$id/demo_files/$(dirname $f); cp "$f" /verif/seeded/$id/demo_files/$f; fi
  if [ -d "$f" ]; then mkdir -p /verif/seeded/$id/demo_files/$f; cp -r "$f/." /verif/seeded/$id/demo_files/$f/; fi
done
ls /verif/seeded/$id
