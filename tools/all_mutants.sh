#!/bin/bash
# usage: tools/all_mutants.sh [ids...] -- every seeded change against the quick check of its own property; one line each
cd /verif
ids="$@"; [ -z "$ids" ] && ids=$(ls seeded)
for m in $ids; do
  p=${m%%-*}
  out=$(tools/try_mutant.sh /verif/seeded/$m/patch.diff $p 2>&1)
  v=$(echo "$out" | grep -E "^== " | sed 's/.*verdict=\([a-z]*\).*/\1/')
  sigs=$(echo "$out" | grep "signature:" | sed 's/ *signature: //' | head -3 | tr '\n' ';')
  echo "$m $v $sigs"
done
