"""Free-text parts of MANIFEST.json."""
HOOK_COMMITS = ["c7c6a9f"]
FIX_COMMITS = ["e44ed8e", "9e8cd65", "2f294a3", "7529dc9", "48b06b7", "21a1bed", "47b50c4", "35f944d", "ba91c90", "3824d43", "b4402f4", "30280c6"]
NOTES = ("Runtime monitoring only: every check executes the real code of /repo under seeded workloads and decides with an oracle "
         "over what was observed. VERIF_SEED changes every random choice; VERIF_TIER overrides the tier. Exit 2 = build/harness failure "
         "(never a VIOLATION line). Known findings: /verif/known_findings.json. See DESIGN.md.")
ENGINES = [
    {"name": "ve2e", "path": "harness/e2e", "serves_properties": ["C01", "C10", "C14", "C16", "C17", "C18", "C19"],
     "kind_free_text": "Rust harness over the rusty-penguin library: real client_main_inner / run_listener / tls_connect on loopback sockets, raw HTTP client, scripted gate, scripted targets; quiescence witness from /proc"},
    {"name": "vmux", "path": "harness/mux", "serves_properties": ["C01", "C02", "C03", "C04", "C05", "C06", "C07", "C08", "C09", "C10", "C11", "C12", "C13", "C15", "C16", "C18", "C19", "C20"],
     "kind_free_text": "Rust harness over penguin-mux/cow-bytes/penguin-socks: PURE differential monitors, SIM (tokio current-thread, paused clock, in-memory WebSocket with wire tap and fault plan), THR, MICRO, Miri"},
]
NOT_APPLICABLE = {}
TEXT = {
    "C09": {
        "engine": "vmux (PURE, Miri in thorough)",
        "technique": "differential runtime monitor: real codec vs reference codec on generated and bounded-exhaustive inputs; Miri UB interpreter on a subset",
        "design_ref": "DESIGN.md §4 C09",
        "level_text": "Every case executes the real Frame constructors/encoders/decoders and compares with an independent reference codec written from PROTOCOL.md: "
                      "encode equality, decode accept/reject equality, field equality via re-encoding, no panic in a production-profile build. "
                      "Bounded-exhaustive over short strings from a boundary alphabet, seeded mutation and random beyond. Exploration, not proof.",
        "level_note": "Trusted: the reference codec's reading of PROTOCOL.md; inputs outside the generated set are not covered.",
    },
    "C18": {
        "engine": "vmux (PURE) + ve2e (E2E)",
        "technique": "differential runtime monitor: real SOCKS readers/writers vs reference RFC 1928/SOCKS4/4a grammar, every truncation point, chunked delivery; scripted SOCKS clients against the real client's SOCKS listener",
        "design_ref": "DESIGN.md §4 C18",
        "level_text": "Each generated request is fed to the real readers through a reader that delivers a few bytes per poll; result, bytes consumed (sentinel check) and every truncation "
                      "(EOF => error, idle => still waiting, decided exactly by a waker-flag executor) are compared with a reference grammar; reply writers and the UDP relay header are compared byte-exactly / by reference parse. A second job talks to the SOCKS listener of a real client (real server and echo targets behind it) with seeded METHODS lists (NO AUTHENTICATION at any position, absent, 0 or 255 methods), commands, address types and write chunkings, and checks method selection, reply code and format, closing after a failure reply, and that the addressed target answers. Exploration.",
        "level_note": "Trusted: the reference grammar. Domain lengths 0..255 and all command/reply codes are covered systematically, the rest by seeded generation.",
    },
    "C20": {
        "engine": "vmux (PURE, Miri in thorough)",
        "technique": "reference-model runtime monitor: LongChain/CowBytes twins vs Vec<u8> after every operation; bounded-exhaustive operation sequences + random; Miri UB interpreter on a subset",
        "design_ref": "DESIGN.md §4 C20",
        "level_text": "Every operation of every sequence is executed on three real chains (borrowed, owned, mixed) and a Vec<u8> model; len/remaining/is_empty/chunks/drain are compared after each step in a "
                      "production-profile build; all sequences up to length 3 (quick) or 4 (thorough) over a 41-operation boundary alphabet are enumerated. Exploration with an exhaustive sub-space.",
        "level_note": "Trusted: the Vec<u8> model. Sequences longer than the enumerated bound are only sampled.",
    },
    "C02": {
        "engine": "vmux (SIM + THR)",
        "technique": "offline history checker over recorded executions: position-addressed payloads, per (stream, direction) prefix/equality oracle, seeded schedule jitter and back-pressure",
        "design_ref": "DESIGN.md §4 C02, appendix A",
        "level_text": "Thousands of seeded executions of the real Multiplexor pair over an in-memory WebSocket; every read is checked to be the exact continuation of its own stream (prefix at every moment, equality after clean shutdown + EOF, no cross-talk); in a dedicated case the opener's flow-id generator repeats the id of a stream that is alive on both ends, and both streams must still carry their own data to the end; the connection task must not end on its own. Exploration of schedules/configurations, not exhaustive.",
        "level_note": "Trusted: the in-memory WebSocket preserves order per direction (as WebSocket does); the PRF makes corruption/reordering/cross-talk visible with overwhelming probability.",
    },
    "C03": {
        "engine": "vmux (SIM + THR)",
        "technique": "online credit-accounting monitor on the wire tap plus CreditTaken/FrameConsumed/WindowOverrun hooks over seeded window-edge workloads",
        "design_ref": "DESIGN.md §4 C03, appendix A",
        "level_text": "Rules R1-R5 (DESIGN appendix A.1) are evaluated on every Push/Acknowledge/Reset of every execution: outstanding frames never exceed the advertised window, one write = one frame = one unit, acknowledged <= consumed, no WindowOverrun/Reset of a live flow. The THR job repeats the workloads on real threads and adds a hammer scenario (6000 one-frame writes each way, one Acknowledge per frame) in which the writer's credit take races with incoming acknowledgements at full speed. Exploration.",
        "level_note": "Trusted: the reference codec used by the tap; hook placement (add-only) in poll_obtain_write_permission / increment_psh_recvd_since / the Full arm of dispatch.",
    },
    "C04": {
        "engine": "vmux (SIM)",
        "technique": "bounded-progress monitor: quiescence watchdog in virtual time over the full option grid and isolation scenarios",
        "design_ref": "DESIGN.md §4 C04, appendix A",
        "level_text": "Liveness restated as bounded progress: a run is a stall iff the paused-clock runtime goes idle with an awaited operation pending (exact for the executed schedule, load-independent). Thorough enumerates all 1764 (rwnd,threshold) pairs x buffer sizes; isolation scenarios keep one stream's reader absent while healthy streams, late opens and datagrams must complete.",
        "level_note": "Unbounded 'eventually' is out of reach of runtime monitoring; fairness = tokio's FIFO scheduler plus seeded postponements.",
    },
    "C05": {
        "engine": "vmux (SIM)",
        "technique": "offline history checker against a pipe-with-half-close reference model; seeded close orders, empty and vectored-empty writes",
        "design_ref": "DESIGN.md §4 C05, appendix A",
        "level_text": "Every read-EOF, write result and shutdown of every execution is checked against the reference model (EOF only after peer finish/abort/connection end and after all bytes of a clean shutdown; BrokenPipe after local shutdown or delivered peer Reset; opposite direction keeps working). An extra scenario drops the Multiplexor while streams are still held and read, with the peer writing, sending datagrams and opening streams until it learns of the end: every byte that Push frames carried to the endpoint must be read before end-of-stream. Exploration.",
        "level_note": "The 'write after delivered Reset must fail' rule relies on SIM's single thread (log order == execution order).",
    },
    "C06": {
        "engine": "vmux (SIM)",
        "technique": "offline history checker + invariant probe at quiescent points (flow-table accessor hook) over abort scenarios and long open/close cycles with scripted id re-use",
        "design_ref": "DESIGN.md §4 C06, appendix A",
        "level_text": "Abort semantics (delivered-then-EOF, BrokenPipe afterwards), bystander integrity and the leak clause are checked on every execution; cycle runs open/close up to 400 streams in every close order with bystanders and re-issue freed ids through a scripted RNG; in held-handle cycle pairs one application keeps the handle of a gracefully ended stream: its id must stay in the flow table (unless a Reset of that flow was seen), the other end's attempt to re-use the id must be refused and retried, and the later drop of the old handle must not touch the new stream. Exploration.",
        "level_note": "Leak probe needs the add-only accessor hook; immediate re-use with frames of the old incarnation in flight is deliberately not demanded.",
    },
    "C07": {
        "engine": "vmux (SIM + THR)",
        "technique": "runtime monitor over executions with scripted RNGs (forced id 0 / live ids / simultaneous identical choices) and a scripted raw peer (Reset of the first k Connects, Connect with id 0 / in-use id / the id of an unanswered bind request)",
        "design_ref": "DESIGN.md §4 C07, appendix A",
        "level_text": "Per request: Connect frames on the tap are counted and matched to the outcome (success iff acknowledged, FlowIdRejected after exactly R resets, never more than R attempts, never id 0 or a live id); streams acknowledged before the tunnel ended are still handed to an application that accepts afterwards, with their data; a Connect carrying id 0, a live id or the id of a pending bind request is answered by exactly one Reset, nothing is delivered to the application and the existing flow / the bind request keeps working; target bytes and initial credit are compared on both sides, the latter also black-box. Exploration.",
        "level_note": "Trusted: reference codec on the tap; collisions are forced through the scripted RNG rather than awaited from chance.",
    },
    "C08": {
        "engine": "vmux (SIM)",
        "technique": "fault enumeration over recorded executions: one re-execution per (message index, fault kind); pending-operation outcome oracle; flush-on-drop order oracle",
        "design_ref": "DESIGN.md §4 C08, appendix A",
        "level_text": "For every message index of every base execution and each of 8 fault kinds the real endpoint is re-run with the fault injected at that point; the run must reach quiescence with nothing pending and with outcomes from DESIGN appendix A.3; operations issued after the task returned must resolve at once with Closed. Drop-flush runs compare queued vs delivered frames, also with datagrams and a stream request from the peer arriving at the moment of the drop. Enumeration of crash points over explored executions, not of all executions.",
        "level_note": "Base executions are sampled (seeded); the cut is at message granularity of the endpoint's WebSocket, not inside a frame.",
    },
    "C11": {
        "engine": "vmux (SIM + THR)",
        "technique": "offline history checker for datagrams (identity, at-most-once, order, loss licence from buffer occupancy) with concurrent stream monitors",
        "design_ref": "DESIGN.md §4 C11, appendix A",
        "level_text": "Every received datagram is matched to the send it came from; losses are bounded by arrivals at a full buffer computed from the event order, exactly: the harness drains both datagram queues at the final quiescent point, so reached = received + licensed losses; receivers await, pause, start late, are absent, or abandon get_datagram() calls (cancellation); over-long hosts must be refused without a trace on the wire; the connection task must stay alive and concurrent streams uncorrupted and unblocked. Exploration.",
        "level_note": "The occupancy model is an upper bound of the real buffer occupancy, so the loss bound is sound (never stricter than the statement).",
    },
    "C15": {
        "engine": "vmux (SIM)",
        "technique": "offline history checker matching each bind result to the peer application's decision for that very request; scripted-RNG id re-use",
        "design_ref": "DESIGN.md §4 C15, appendix A",
        "level_text": "Each request's result is compared with the logged decision (accept/reject/drop/never/binds disabled), the fields and flow id shown to the peer with the request, and ids are re-issued immediately after resolution and at quiescent points; bind hosts of 0-39 bytes; requests issued while or after the connection ends must resolve (Closed or false); a raw peer sends Bind requests with ids of its own choice (0 included) that the application accepts, rejects or drops: exactly one Finish / Reset each; the connection task must not end on its own. Exploration.",
        "level_note": "Requests are matched by unique port; the responder logs its decision before replying.",
    },
    "C16": {
        "engine": "vmux (SIM)",
        "technique": "runtime monitor on virtual timestamps of the wire tap: ping schedule, timeout bounds, pending-operation outcomes; (I,T) grid enumerated",
        "design_ref": "DESIGN.md §4 C16, appendix A",
        "level_text": "All (I,T) pairs of the whole-second grid x 12 pong-script kinds, and 12 pairs that are not whole seconds (I = 500 ms with T = 1 s, 1.5 s / 2 s, 999 ms / 1001 ms ...) x 4 kinds, (constant, random and per-ping delays <= T, busy executor, silent after k rounds, never, late, disabled; never / k rounds / always again with a peer that sends Pings of its own) are executed in virtual time against a scripted raw peer; Ping times must be exactly k*I, a timeout needs >= T' of silence and must come within T'+I of the last pong for a silent peer, answered-in-time and disabled runs reach a 2000-interval horizon, and after the timeout every pending operation resolves.",
        "level_note": "Virtual time makes the bounds exact; delays inside the grid cells are seeded samples. One open known finding (variable answer delays within T), see known_findings.json and DESIGN.md 7.5.",
    },
    "C10": {
        "engine": "vmux (SIM) + ve2e (real tokio-tungstenite adapter, paused clock)",
        "technique": "fault enumeration of peer frame sequences (bounded-exhaustive over opcode x target, random beyond) against the real endpoint; reply-rule oracle, bystander integrity, liveness probe; hostile WebSocket-level messages through the real adapter of ws.rs",
        "design_ref": "DESIGN.md §4 C10, appendix A",
        "level_text": "A blocked-executor watchdog turns a dead-locked connection task into a violation with a /proc witness. Every sequence up to length 2 (quick) / 3 (thorough) over 9 opcodes x 7 targets is sent by a scripted raw peer to a real endpoint holding flows in every state; replies are compared with the rules PROTOCOL.md fixes, the bystander stream must stay intact and complete, a liveness probe must pass, the task must neither return nor panic; invalid messages must end the connection with InvalidFrame and resolve everything pending. A second job drives the tokio-tungstenite adapter of ws.rs itself: a raw tungstenite peer sends Text of any length and content (multi-byte characters at every offset), Binary, Ping/Pong with payload, fragmented messages and Close frames to a real endpoint with operations pending; the task must not panic or hang, everything pending resolves, messages the reference decoder rejects end the connection with an error and harmless ones leave the established stream intact.",
        "level_note": "Only replies the statement/PROTOCOL.md fix are asserted; the endpoint's slot model assumes the harness application's behaviour (hold / drop at EOF).",
    },
    "C12": {
        "engine": "vmux (MICRO, Miri in thorough)",
        "technique": "runtime monitor over hook-level interleavings: turn-taking scheduler enumerates every total order of hook events on real threads; free-running two-thread stress judged by exact credit conservation; Miri (UB / data-race / weak-memory interpreter) on a sample",
        "design_ref": "DESIGN.md §4 C12, appendix A",
        "level_text": "All total orders of the hook events of 1-2 writer polls against acknowledge and/or close on other threads are executed for real (42 configurations, also with a third application thread calling the public do_shutdown(); depth-first by replay) and judged by the final-state oracle W1-W4 (conservation, no lost wake-up, fail after close, frame only with credit). One or two free-running writer threads against a granting thread (20 000 grants per round) is judged by exact conservation. Exhaustive at hook granularity in the thorough tier; exploration below that granularity.",
        "level_note": "Interleavings between hook points and non-x86 memory-model behaviours are only sampled (Miri, repeated native runs).",
    },
    "C13": {
        "engine": "vmux (SIM)",
        "technique": "runtime monitor of the real bridge future over a scripted local stream and a real endpoint pair; position-addressed data, credit monitor, outcome and promptness oracle in virtual time",
        "design_ref": "DESIGN.md §4 C13, appendix A",
        "level_text": "Each execution drives into_copy_bidirectional_with_buf with a seeded script of chunk sizes, Pending points (woken / never woken), partial writes, a local shutdown that needs 1-4 polls, a local flush that needs several polls or never completes, EOF and error positions on read/write/flush/shutdown, against a far application that finishes, aborts or starves; bytes, counts, half-close propagation (Finish on the wire within 3 ms of virtual time after the local EOF, with or without credit), credit use in both directions (every Push has a unit, every unit became a Push) and prompt error completion are checked.",
        "level_note": "Promptness is decided by quiescence in virtual time, not by wall clock.",
    },
    "C14": {
        "engine": "ve2e (E2E)",
        "technique": "differential runtime monitor over real sockets: every request cell is sent to a real run_listener and compared with an independent decision predicate and with the unknown-path twin response",
        "design_ref": "DESIGN.md §4 C14",
        "level_text": "All request cells with at most two deviations from the valid upgrade (1 082 per configuration) x 12 server configurations are sent as raw HTTP/1.1 (and HTTP/1.0) requests over loopback; 101 iff the predicate, accept hash from our own SHA-1, a Ping must be answered behind every 101, also when it is sent in the same write as the request; every refused /ws (and /health, /version under obfs) response must equal the unknown-path response byte for byte (minus date) and the stub backend must have seen the same request.",
        "level_note": "Cells with more than two deviations are sampled; HTTP/2 and TLS front-ends are not exercised here.",
    },
    "C17": {
        "engine": "ve2e (E2E)",
        "technique": "runtime monitor over real TLS handshakes: full configuration matrix executed through run_listener + tls_connect, recording client-certificate resolver, identity reload with a live connection",
        "design_ref": "DESIGN.md §4 C17",
        "level_text": "All 72 cells of the statement's matrix are executed as real handshakes followed by an HTTP exchange and compared with the reference truth table; a recording resolver observes whether the server asks for a certificate; reload probes with a client that re-uses its TLS session state; a 12-cell matrix of the server name a real client asks for (client_main_inner with --tls-server-name / --hostname / neither); probes with CA bundles that contain no certificate; reload cycles (through reload_tls_identity, and through the operator's path server_main + replaced files + SIGUSR1, three or more in a row, one of them preceded by a request that fails because the key file is missing, with and without a client CA; and a replacement of the client-CA bundle requested while an earlier, slow reload is still reading the old one: the last request must win) check that new handshakes see the new identity, that the client-certificate policy is unchanged after every reload, and that an established connection keeps working. Exhaustive over the matrix.",
        "level_note": "Key types: ECDSA P-256 (quick), plus P-384 and Ed25519 (thorough); native-tls build is not exercised.",
    },
    "C19": {
        "engine": "ve2e (E2E) + vmux (PURE)",
        "technique": "fault enumeration per connection attempt through a scripted gate in front of a real server, timing oracle with load / quiescence witnesses; exhaustive differential check of the back-off generator",
        "design_ref": "DESIGN.md §4 C19",
        "level_text": "Each script of per-attempt server behaviours is executed against the real client several times; attempt counts, lower/upper delay bounds against the reference back-off, exit conditions, listener availability, survival of a local conversation across an outage / stream-request timeout and self-reconnect after an orderly Close are checked. The back-off generator itself is compared exhaustively with a reference over small tuples and reset patterns, and over 400-advance outages (a panic is a violation); E2E scripts include an outage of 100 consecutive failures, 200 local datagrams and 110 pending SOCKS requests arriving while the tunnel is down, a request outstanding when the tunnel is lost, connections that die while a parked request is retried, a stall inside the TLS set-up, a peer that closes in the middle of the TLS handshake or right after reading the upgrade request, and a TLS tunnel cut without close_notify.",
        "level_note": "Real time: upper bounds are tolerant, need 5 late repeats with a punctual-timer load witness, and otherwise fall back to inconclusive; scripts are a fixed set plus seeded ones in thorough.",
    },
    "C01": {
        "engine": "ve2e (E2E) + vmux (SIM)",
        "technique": "runtime monitor over real client/server executions on loopback: scripted local clients and targets, position-addressed payloads, per-conversation byte-stream and end-of-direction oracle, UDP tag/source/duplicate/header oracle",
        "design_ref": "DESIGN.md §4 C01",
        "level_text": "Conversations of ten kinds enter through ten TCP entry kinds (fixed port, Unix socket, SOCKS4/4a, SOCKS5 v4/v6/domain, HTTP CONNECT, and the SOCKS and HTTP front-ends on a Unix-domain socket; a third of the SOCKS5 clients do not wait for the proxy's replies) with seeded sizes (0 to several windows), chunking and concurrency; UDP exchanges run through the UDP remote and SOCKS5 UDP ASSOCIATE with several local sockets at once, each association addressing two different targets. UDP clients that fall silent for 11 s (longer than the relay's idle time-out) and then resume must not stay black-holed; clients that send one-way for 21 s must still get a late reply that the target sends to the address it first heard from. Conversations in which the local client goes away first (close while the target streams 48 MiB, with or without a prior half-close, with or without a pause) check that the target is not left blocked; conversations in which the client half-closes and the target answers but keeps its connection open check that the answer arrives anyway; their deterministic core (a peer that still has send credit is told within one round trip that the stream was let go) runs in the simulator (c01b). Every received byte is checked against the sender's position-addressed stream, half-close and close propagation are checked per direction, UDP replies per socket. Exploration under the OS scheduler.",
        "level_note": "No schedule control on real sockets; a hang needs a witness (process quiescence, or no byte of progress for 10 s on the connection), otherwise the run is inconclusive. One open known finding (target left hanging after half-close + pause + close), see known_findings.json and DESIGN.md 7.5.",
    },
}

# additions of round 9 (see DESIGN.md 7.6 / 7.8)
FIX_COMMITS.append("cce3730")
_R9 = {
    "C01": "Round 9: every other run addresses its targets by a name with an IPv6 and an IPv4 address while the server has no usable IPv6 source address (the shard runs in a private mount namespace with its own /etc/hosts; skipped and recorded where that is not permitted); SOCKS5 associations also send datagrams with FRAG != 0 and must go on relaying afterwards; targets also answer with zero-length datagrams; the refusing port is reserved for the whole run.",
    "C03": "Round 9: a third job runs the bridge executions of C13 (local bursts of several hundred KiB ready at once) with only the credit rules giving verdicts.",
    "C04": "Round 9: a third of the isolation scenarios flood an endpoint whose application does not fetch (or only slowly fetches) its datagrams with more datagrams than its buffer holds.",
    "C06": "Round 9: a real-thread job (thr-abort): 1600 aborts per run on a 6-worker runtime, judged by final state only (one Reset per abort on the wire, flow table empty); a first shutdown() after the peer's Reset must put no Finish on the wire; a Reset sent after the peer's Reset of the same stream was delivered, while the application still holds the stream, is reported (a Reset answered with a Reset).",
    "C08": "Round 9: fault kinds FlushErr (a buffering sink that fails only when flushed) at every send index; a ninth fault kind (dead peer behind a sink that never becomes ready again), the executions in which the application keeps reading its streams after dropping the Multiplexor, and the rule that the payload delivered to an endpoint for a stream its application holds is read before end-of-stream.",
    "C11": "Round 9: every datagram accepted by send_datagram must appear on the wire while the connection is up.",
    "C12": "Round 9: 400 000 (quick) single-poll-versus-grant races on two free-running threads released together, judged by the exact final-state oracle (reaches the window between the writer's load and its compare-exchange, where no hook lies); the writer's waker is a scheduling point of the thread that invokes it (a wake-up is the moment another worker may poll the task), so orders in which the woken writer runs before the waking thread's next statement are enumerated; the free-running stress reports a poll that burns seconds of its thread's CPU time without returning.",
    "C13": "Round 9: local sides with several hundred KiB ready in one poll; the far application also performs zero-length writes.",
    "C14": "Round 9: a server whose pre-shared key is the empty string; wrong keys made of arbitrary octets (multi-byte characters at every offset, lone high bytes) - a refusal must stay indistinguishable and must be answered at all. Header values with non-ASCII octets (the valid value followed by U+00A0, look-alike letters) are part of the deviation grid.",
    "C15": "Round 9: a request abandoned by its caller before the answer, followed by a request to which the generator offers the abandoned id; requests crossing with the same id from both sides; a request under an id the responder still uses for a stream of its own.",
    "C16": "Round 9: a live peer behind a slow link while the application keeps the outbound queue busy (it must see about one Ping per interval and is never timed out); a peer that dies behind a sink that is blocked from then on (nothing can be sent, flushed or closed): the time-out bounds and the release of pending operations still apply; job client: the real client with I and T in its arguments, its Ping cadence, its reconnect after a peer went silent and the disabled cases observed at a gate that timestamps relayed Pings and Pongs.",
    "C17": "Round 9: bytes that are no TLS handshake followed by a plaintext request on the same socket must not be served; certificate files holding leaf + intermediate CA are verified against the root only (server's and client's certificate); the configuration matrix is executed again for P-384, Ed25519, P-521 and RSA-2048 keys (whatever the provider can generate).",
    "C18": "Round 9: the front job also puts a server of the harness's own (real Multiplexor) behind the client and compares host octets and port of every stream request with what the SOCKS request named (names that are no UTF-8 included).",
    "C07": "Round 9: a stream request dropped while its Connect is unanswered and then acknowledged by the peer (the peer must learn that nobody holds the stream); Connects with id 0 / an id in use while the accept queue is exactly full (also run by C10 and C15).",
    "C10": "Round 9: runs C07's raw-peer case of offending Connects, also with the application's accept queue exactly full.",
    "C05": "Round 9: a first shutdown() called after the peer's Reset was delivered puts no Finish on the wire; delivered payload is read before end-of-stream.",
    "C19": "Round 9: the server also answers the upgrade request with complete 200 / 301 / 503 responses (final, like 404). A scenario with the handshake time-out disabled decides which of the client's two time-outs guards a re-issued request.",
    "C20": "Round 9: the Buf view of CowBytes (copy_to_bytes, get_u8, copy_to_slice, take) on both variants; chains are also read through one multi-segment advance, copy_to_bytes and chunks_vectored.",
    "C02": "Round 9: now and then one write of 1 MiB .. 5 MB (plain or vectored).",
}
for _k, _v in _R9.items():
    TEXT[_k]["level_text"] += " " + _v
