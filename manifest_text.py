"""Free-text parts of MANIFEST.json."""
HOOK_COMMITS = ["c7c6a9f"]
NOTES = ("Runtime monitoring only: every check executes the real code of /repo under seeded workloads and decides with an oracle "
         "over what was observed. VERIF_SEED changes every random choice; VERIF_TIER overrides the tier. Exit 2 = build/harness failure "
         "(never a VIOLATION line). Known findings: /verif/known_findings.json. See DESIGN.md.")
ENGINES = [
    {"name": "vmux", "path": "harness/mux", "serves_properties": ["C09"],
     "kind_free_text": "Rust harness over penguin-mux/cow-bytes/penguin-socks: PURE differential monitors, SIM (tokio current-thread, paused clock, in-memory WebSocket with wire tap and fault plan), THR, MICRO, Miri"},
]
NOT_APPLICABLE = {}
TEXT = {
    "C09": {
        "engine": "vmux (PURE, Miri in thorough)",
        "technique": "differential runtime monitor: real codec vs reference codec on generated and bounded-exhaustive inputs; Miri UB interpreter on a subset",
        "design_ref": "DESIGN.md §4 C09",
        "level_text": "Every case executes the real Frame constructors/encoders/decoders and compares with an independent reference codec written from PROTOCOL.md: "
                      "encode equality, decode accept/reject equality, field equality via re-encoding, no panic in a production-profile build. "
                      "Bounded-exhaustive over short strings from a boundary alphabet, seeded mutation and random beyond. Exploration, not proof.",
        "level_note": "Trusted: the reference codec's reading of PROTOCOL.md; inputs outside the generated set are not covered.",
    },
}
