"""Free-text parts of MANIFEST.json."""
HOOK_COMMITS = ["c7c6a9f"]
NOTES = ("Runtime monitoring only: every check executes the real code of /repo under seeded workloads and decides with an oracle "
         "over what was observed. VERIF_SEED changes every random choice; VERIF_TIER overrides the tier. Exit 2 = build/harness failure "
         "(never a VIOLATION line). Known findings: /verif/known_findings.json. See DESIGN.md.")
ENGINES = [
    {"name": "vmux", "path": "harness/mux", "serves_properties": ["C02", "C03", "C04", "C05", "C09", "C18", "C20"],
     "kind_free_text": "Rust harness over penguin-mux/cow-bytes/penguin-socks: PURE differential monitors, SIM (tokio current-thread, paused clock, in-memory WebSocket with wire tap and fault plan), THR, MICRO, Miri"},
]
NOT_APPLICABLE = {}
TEXT = {
    "C09": {
        "engine": "vmux (PURE, Miri in thorough)",
        "technique": "differential runtime monitor: real codec vs reference codec on generated and bounded-exhaustive inputs; Miri UB interpreter on a subset",
        "design_ref": "DESIGN.md §4 C09",
        "level_text": "Every case executes the real Frame constructors/encoders/decoders and compares with an independent reference codec written from PROTOCOL.md: "
                      "encode equality, decode accept/reject equality, field equality via re-encoding, no panic in a production-profile build. "
                      "Bounded-exhaustive over short strings from a boundary alphabet, seeded mutation and random beyond. Exploration, not proof.",
        "level_note": "Trusted: the reference codec's reading of PROTOCOL.md; inputs outside the generated set are not covered.",
    },
    "C18": {
        "engine": "vmux (PURE)",
        "technique": "differential runtime monitor: real SOCKS readers/writers vs reference RFC 1928/SOCKS4/4a grammar, every truncation point, chunked delivery",
        "design_ref": "DESIGN.md §4 C18",
        "level_text": "Each generated request is fed to the real readers through a reader that delivers a few bytes per poll; result, bytes consumed (sentinel check) and every truncation "
                      "(EOF => error, idle => still waiting, decided exactly by a waker-flag executor) are compared with a reference grammar; reply writers and the UDP relay header are compared byte-exactly / by reference parse. Exploration.",
        "level_note": "Trusted: the reference grammar. Domain lengths 0..255 and all command/reply codes are covered systematically, the rest by seeded generation.",
    },
    "C20": {
        "engine": "vmux (PURE, Miri in thorough)",
        "technique": "reference-model runtime monitor: LongChain/CowBytes twins vs Vec<u8> after every operation; bounded-exhaustive operation sequences + random; Miri UB interpreter on a subset",
        "design_ref": "DESIGN.md §4 C20",
        "level_text": "Every operation of every sequence is executed on three real chains (borrowed, owned, mixed) and a Vec<u8> model; len/remaining/is_empty/chunks/drain are compared after each step in a "
                      "production-profile build; all sequences up to length 3 (quick) or 4 (thorough) over a 41-operation boundary alphabet are enumerated. Exploration with an exhaustive sub-space.",
        "level_note": "Trusted: the Vec<u8> model. Sequences longer than the enumerated bound are only sampled.",
    },
    "C02": {
        "engine": "vmux (SIM)",
        "technique": "offline history checker over recorded executions: position-addressed payloads, per (stream, direction) prefix/equality oracle, seeded schedule jitter and back-pressure",
        "design_ref": "DESIGN.md §4 C02, appendix A",
        "level_text": "Thousands of seeded executions of the real Multiplexor pair over an in-memory WebSocket; every read is checked to be the exact continuation of its own stream (prefix at every moment, equality after clean shutdown + EOF, no cross-talk). Exploration of schedules/configurations, not exhaustive.",
        "level_note": "Trusted: the in-memory WebSocket preserves order per direction (as WebSocket does); the PRF makes corruption/reordering/cross-talk visible with overwhelming probability.",
    },
    "C03": {
        "engine": "vmux (SIM)",
        "technique": "online credit-accounting monitor on the wire tap plus CreditTaken/FrameConsumed/WindowOverrun hooks over seeded window-edge workloads",
        "design_ref": "DESIGN.md §4 C03, appendix A",
        "level_text": "Rules R1-R5 (DESIGN appendix A.1) are evaluated on every Push/Acknowledge/Reset of every execution: outstanding frames never exceed the advertised window, one write = one frame = one unit, acknowledged <= consumed, no WindowOverrun/Reset of a live flow. Exploration.",
        "level_note": "Trusted: the reference codec used by the tap; hook placement (add-only) in poll_obtain_write_permission / increment_psh_recvd_since / the Full arm of dispatch.",
    },
    "C04": {
        "engine": "vmux (SIM)",
        "technique": "bounded-progress monitor: quiescence watchdog in virtual time over the full option grid and isolation scenarios",
        "design_ref": "DESIGN.md §4 C04, appendix A",
        "level_text": "Liveness restated as bounded progress: a run is a stall iff the paused-clock runtime goes idle with an awaited operation pending (exact for the executed schedule, load-independent). Thorough enumerates all 1764 (rwnd,threshold) pairs x buffer sizes; isolation scenarios keep one stream's reader absent while healthy streams, late opens and datagrams must complete.",
        "level_note": "Unbounded 'eventually' is out of reach of runtime monitoring; fairness = tokio's FIFO scheduler plus seeded postponements.",
    },
    "C05": {
        "engine": "vmux (SIM)",
        "technique": "offline history checker against a pipe-with-half-close reference model; seeded close orders, empty and vectored-empty writes",
        "design_ref": "DESIGN.md §4 C05, appendix A",
        "level_text": "Every read-EOF, write result and shutdown of every execution is checked against the reference model (EOF only after peer finish/abort/connection end and after all bytes of a clean shutdown; BrokenPipe after local shutdown or delivered peer Reset; opposite direction keeps working). Exploration.",
        "level_note": "The 'write after delivered Reset must fail' rule relies on SIM's single thread (log order == execution order).",
    },
}
