//! C12 — no lost wake-ups / credit races between a writer and the connection
//! task. MICRO engine: real OS threads around one `standalone_stream`, driven
//! by a turn-taking scheduler at the hook points, so that every total order of
//! hook events is executed (depth-first enumeration by replay). The same
//! program runs under Miri (`--miri 1`) on a sample of the orders.

use crate::util::{Params, Rng64, Stats, Violation, mix};
use penguin_mux::verif::{self, Kind};
use serde_json::json;
use std::sync::atomic::{AtomicU64, Ordering};
use std::sync::{Arc, Condvar, Mutex};
use std::task::{Context, Poll, Wake, Waker};

const RULE: &str = "one case = one real multi-threaded execution of a writer thread (1 or 2 polls of poll_obtain_write_permission, counting waker) against an acknowledge(n) and/or disallow_write() performed by other threads on a standalone MuxStream (also with a do_shutdown() by a third, application thread before or after the close), \
with initial credit 0/1/2; the observer hook blocks every thread at every hook event - and the writer's (counting) waker blocks the thread that invokes it, a wake-up being the moment another worker may poll the task - until a turn-taking scheduler releases it, so an execution is a chosen total order of hook and wake events; all orders are enumerated depth-first by replay (plus random orders). \
Oracle W1-W4: credit conserved (final = initial + acknowledged - taken), a writer left Pending has either been woken since its last poll began or credit is 0 and the stream is open, polls that begin after the close returned fail, a frame only with a unit of credit. \
Plus a free-running stress (no scheduler): a writer thread taking credit in a tight loop against a thread granting it in a tight loop, judged by exact conservation at the end (reaches interleavings between individual atomic operations). Non-trivial = another thread's step landed inside a writer poll, or a stress round in which credit was taken while grants were in progress; distinct = distinct hook-event orders";

const SHUTDOWN: u32 = u32::MAX;

struct CountWaker(AtomicU64);
impl CountWaker {
    /// The wake-up itself is a scheduling point of the thread that performs it: in a real runtime `wake()` hands the task
    /// to another worker, which may poll it at once, while the waking thread has not yet executed its next statement.
    fn fired(&self) {
        self.0.fetch_add(1, Ordering::SeqCst);
        if let Some(t) = TID.with(|c| c.get()) {
            let s = SCHED.lock().unwrap().clone();
            if let Some(s) = s {
                s.at(t, Step::WakerFired);
            }
        }
    }
}
impl Wake for CountWaker {
    fn wake(self: Arc<Self>) {
        self.fired();
    }
    fn wake_by_ref(self: &Arc<Self>) {
        self.fired();
    }
}

#[derive(Clone, Copy, Debug, PartialEq, Eq, Hash)]
enum Step {
    Start,
    Hook(Kind),
    /// the application-side `do_shutdown()` of a third thread has returned
    ShutdownDone,
    /// the writer's waker is being invoked by this thread (it continues with the statement after its `wake()` when released)
    WakerFired,
}

struct State {
    waiting: Vec<Option<Step>>,
    finished: Vec<bool>,
    granted: Option<usize>,
    trace: Vec<(usize, Step)>,
}

struct Sched {
    m: Mutex<State>,
    cv: Condvar,
}

thread_local! {
    static TID: std::cell::Cell<Option<usize>> = const { std::cell::Cell::new(None) };
}

static SCHED: Mutex<Option<Arc<Sched>>> = Mutex::new(None);

impl Sched {
    fn at(&self, t: usize, step: Step) {
        let mut g = self.m.lock().unwrap();
        g.waiting[t] = Some(step);
        self.cv.notify_all();
        while g.granted != Some(t) {
            g = self.cv.wait(g).unwrap();
        }
        g.granted = None;
        g.waiting[t] = None;
        g.trace.push((t, step));
        self.cv.notify_all();
    }
    fn finish(&self, t: usize) {
        let mut g = self.m.lock().unwrap();
        g.finished[t] = true;
        self.cv.notify_all();
    }
}

fn install() {
    verif::set_observer(Some(Arc::new(|e: &verif::Event| {
        let Some(t) = TID.with(|c| c.get()) else { return };
        let s = SCHED.lock().unwrap().clone();
        if let Some(s) = s {
            s.at(t, Step::Hook(e.kind));
        }
    })));
}

#[derive(Clone, Debug)]
struct Config {
    c0: u32,
    polls: usize,
    /// other threads: Some(n) = acknowledge(n), None = disallow_write() by the connection task,
    /// Some(SHUTDOWN) = `MuxStream::do_shutdown()` by another application thread (public, takes `&self`, wakes nobody)
    others: Vec<Option<u32>>,
}

#[derive(Debug)]
struct Result1 {
    trace: Vec<(usize, Step)>,
    choices: Vec<(usize, Vec<usize>)>,
    polls: Vec<(String, u64)>, // (result, wake counter when the poll began)
    wakes_total: u64,
    final_credit: u32,
    closed: bool,
}

/// Execute one schedule: follow `prefix`, then always pick the lowest enabled thread
/// (or a seeded random one when `rng` is given). Returns what happened.
fn execute(cfg: &Config, prefix: &[usize], mut rng: Option<&mut Rng64>) -> Result1 {
    let nthreads = 1 + cfg.others.len();
    let sched = Arc::new(Sched { m: Mutex::new(State { waiting: vec![None; nthreads], finished: vec![false; nthreads], granted: None, trace: vec![] }), cv: Condvar::new() });
    *SCHED.lock().unwrap() = Some(sched.clone());
    let sa = verif::standalone_stream(7, cfg.c0, 8, 4);
    let stream = Arc::new(sa.stream);
    let ctl = Arc::new(sa.ctl);
    let _keep = (sa.tx_msg_rx, sa.dropped_flows_rx);
    let wakes = Arc::new(CountWaker(AtomicU64::new(0)));
    let polls_out: Arc<Mutex<Vec<(String, u64)>>> = Arc::new(Mutex::new(Vec::new()));
    let mut handles = Vec::new();
    {
        let (s, sc, wk, po, npolls) = (stream.clone(), sched.clone(), wakes.clone(), polls_out.clone(), cfg.polls);
        handles.push(std::thread::spawn(move || {
            TID.with(|c| c.set(Some(0)));
            sc.at(0, Step::Start);
            for _ in 0..npolls {
                let before = wk.0.load(Ordering::SeqCst);
                let waker = Waker::from(wk.clone());
                let cx = Context::from_waker(&waker);
                let r = match s.poll_obtain_write_permission(&cx) {
                    Poll::Pending => "Pending",
                    Poll::Ready(Some(())) => "Ready(Some)",
                    Poll::Ready(None) => "Ready(None)",
                };
                po.lock().unwrap().push((r.to_string(), before));
            }
            TID.with(|c| c.set(None));
            sc.finish(0);
        }));
    }
    for (i, o) in cfg.others.iter().enumerate() {
        let (c, sc, o, t, s2) = (ctl.clone(), sched.clone(), *o, i + 1, stream.clone());
        handles.push(std::thread::spawn(move || {
            TID.with(|c| c.set(Some(t)));
            sc.at(t, Step::Start);
            match o {
                Some(SHUTDOWN) => {
                    s2.do_shutdown();
                    sc.at(t, Step::ShutdownDone);
                }
                Some(n) => c.acknowledge(n),
                None => {
                    c.disallow_write();
                }
            }
            TID.with(|c| c.set(None));
            sc.finish(t);
        }));
    }
    // the scheduler
    let mut choices: Vec<(usize, Vec<usize>)> = Vec::new();
    loop {
        let mut g = sched.m.lock().unwrap();
        loop {
            let settled = g.granted.is_none() && (0..nthreads).all(|t| g.finished[t] || g.waiting[t].is_some());
            if settled {
                break;
            }
            g = sched.cv.wait(g).unwrap();
        }
        let enabled: Vec<usize> = (0..nthreads).filter(|t| g.waiting[*t].is_some()).collect();
        if enabled.is_empty() {
            break;
        }
        let d = choices.len();
        let pick = if d < prefix.len() && enabled.contains(&prefix[d]) {
            prefix[d]
        } else if let Some(r) = rng.as_deref_mut() {
            *r.pick(&enabled)
        } else {
            enabled[0]
        };
        choices.push((pick, enabled));
        g.granted = Some(pick);
        sched.cv.notify_all();
    }
    for h in handles {
        h.join().ok();
    }
    *SCHED.lock().unwrap() = None;
    let trace = sched.m.lock().unwrap().trace.clone();
    let polls = polls_out.lock().unwrap().clone();
    Result1 { trace, choices, polls, wakes_total: wakes.0.load(Ordering::SeqCst), final_credit: stream.verif_send_credit(), closed: stream.verif_write_closed() }
}

fn judge(st: &mut Stats, cfg: &Config, r: &Result1, engine: &str) {
    let acked: u32 = cfg.others.iter().flatten().filter(|n| **n != SHUTDOWN).sum();
    let closed_by_task = cfg.others.iter().any(Option::is_none);
    let app_shutdown = cfg.others.iter().any(|o| *o == Some(SHUTDOWN));
    let ready = r.polls.iter().filter(|(p, _)| p == "Ready(Some)").count() as u32;
    let order: Vec<String> = r.trace.iter().map(|(t, s)| format!("T{t}:{}", match s { Step::Start => "Start".to_string(), Step::ShutdownDone => "ShutdownDone".to_string(), Step::WakerFired => "WakerFired".to_string(), Step::Hook(k) => format!("{k:?}") })).collect();
    let replay = || json!({"kind": "c12", "config": format!("{cfg:?}"), "engine": engine, "hook_order": order, "polls": format!("{:?}", r.polls), "final_credit": r.final_credit, "closed": r.closed, "wakes": r.wakes_total});
    // W1 conservation
    if r.final_credit != cfg.c0 + acked - ready {
        st.violation(Violation { signature: "credit-not-conserved".into(), detail: format!("final credit {} != initial {} + acknowledged {acked} - frames {ready}; order {order:?}", r.final_credit, cfg.c0), replay: replay() });
    }
    // W4 frame only with credit
    let taken = r.trace.iter().filter(|(t, s)| *t == 0 && matches!(s, Step::Hook(Kind::CreditTaken { .. }))).count() as u32;
    if taken != ready {
        st.violation(Violation { signature: "frame-without-credit".into(), detail: format!("{ready} polls returned Ready(Some) but {taken} units of credit were taken; order {order:?}"), replay: replay() });
    }
    // W2 lost wake-up
    if let Some((last, wakes_before)) = r.polls.last() {
        if last == "Pending" {
            let woken = r.wakes_total - wakes_before;
            // (a local do_shutdown() alone wakes nobody by design: without a close by the connection task nothing is demanded then)
            let may_sleep = (r.final_credit == 0 && !r.closed) || (app_shutdown && !closed_by_task);
            if woken == 0 && !may_sleep {
                let why = if r.closed { "the stream was closed for writing" } else { "credit is available" };
                st.violation(Violation {
                    signature: format!("lost-wakeup|{}", if r.closed { "close" } else { "credit" }),
                    detail: format!("the writer's last poll returned Pending and it was never woken afterwards although {why} (final credit {}, closed {}); hook order {order:?}", r.final_credit, r.closed),
                    replay: replay(),
                });
            }
        }
    }
    // W3 polls that began after disallow_write returned must fail
    if let Some(close_done) = r.trace.iter().position(|(_, s)| matches!(s, Step::Hook(Kind::DisallowWoke) | Step::ShutdownDone)) {
        let mut poll_idx = 0;
        for (i, (t, s)) in r.trace.iter().enumerate() {
            if *t == 0 && matches!(s, Step::Hook(Kind::WritePollBegin)) {
                if i > close_done {
                    if let Some((res, _)) = r.polls.get(poll_idx) {
                        if res != "Ready(None)" {
                            st.violation(Violation { signature: "poll-after-close-succeeded".into(), detail: format!("a poll that began after disallow_write / do_shutdown had returned yielded {res}; order {order:?}"), replay: replay() });
                        }
                    }
                }
                poll_idx += 1;
            }
        }
    }
    // coverage: did another thread's step land inside a writer poll (between its begin and the recording of its result)?
    let mut inside = false;
    let mut in_poll = false;
    let mut window = false; // between "stream seen open" and "waker registered"
    for (t, s) in &r.trace {
        if *t == 0 {
            match s {
                Step::Hook(Kind::WritePollBegin) => {
                    in_poll = true;
                    window = false;
                }
                Step::Hook(Kind::WriteAllowedSeen) => window = true,
                Step::Hook(Kind::WakerRegistered) => window = false,
                Step::Hook(Kind::CreditTaken { .. } | Kind::WriteRefusedClosed) => {
                    in_poll = false;
                    window = false;
                }
                _ => {}
            }
        } else if in_poll {
            inside = true;
            if window {
                match s {
                    Step::Start | Step::Hook(Kind::AckApplied { .. }) if cfg.others[*t - 1].is_some_and(|n| n != SHUTDOWN) => st.target("ack_inside_check_then_register_window", 1),
                    Step::Start | Step::Hook(Kind::WriteDisallowed) if cfg.others[*t - 1].is_none() => st.target("close_inside_check_then_register_window", 1),
                    _ => {}
                }
            }
        }
    }
    if inside {
        let mut h = mix(u64::from(cfg.c0), cfg.polls as u64);
        for o in &cfg.others {
            h = mix(h, u64::from(o.map_or(99, |n| n)));
        }
        for (t, s) in &r.trace {
            let mut hs = std::collections::hash_map::DefaultHasher::new();
            std::hash::Hash::hash(s, &mut hs);
            h = mix(h, mix(*t as u64, std::hash::Hasher::finish(&hs)));
        }
        st.nontrivial(h);
    }
}

/// Depth-first enumeration of all schedules of one configuration.
fn enumerate(st: &mut Stats, cfg: &Config, engine: &str, limit: u64, repeats: u32) -> u64 {
    let mut prefix: Vec<usize> = Vec::new();
    let mut n = 0u64;
    loop {
        let mut last = None;
        for _ in 0..repeats {
            let r = execute(cfg, &prefix, None);
            st.evaluations += 1;
            judge(st, cfg, &r, engine);
            last = Some(r);
        }
        n += 1;
        let r = last.expect("one execution");
        // next prefix: deepest decision with an untried higher alternative
        let mut next = None;
        for d in (0..r.choices.len()).rev() {
            let (pick, enabled) = &r.choices[d];
            if let Some(alt) = enabled.iter().find(|t| **t > *pick) {
                let mut p: Vec<usize> = r.choices[..d].iter().map(|(c, _)| *c).collect();
                p.push(*alt);
                next = Some(p);
                break;
            }
        }
        match next {
            Some(p) if n < limit && !st.too_many_violations() => prefix = p,
            Some(_) => return n,
            None => {
                st.count("configurations_enumerated_completely", 1);
                return n;
            }
        }
    }
}

/// Free-running stress (no scheduler: the observer returns at once for threads without a TID):
/// one writer thread (or two: `poll_obtain_write_permission` takes `&self`) takes credit as fast as it can while another thread grants it in a tight loop.
/// Reaches interleavings between individual atomic operations, which the hook-level scheduler cannot.
/// Oracle: W1 conservation at the end (final = initial + granted - frames), exact.
fn stress(st: &mut Stats, rng: &mut Rng64, rounds: u64, grants: u32, engine: &str) {
    use std::sync::atomic::AtomicBool;
    for round in 0..rounds {
        let c0 = rng.below(3) as u32;
        let unit = 1 + rng.below(2) as u32;
        let sa = verif::standalone_stream(7, c0, 8, 4);
        let stream = Arc::new(sa.stream);
        let ctl = Arc::new(sa.ctl);
        let _keep = (sa.tx_msg_rx, sa.dropped_flows_rx);
        let done = Arc::new(AtomicBool::new(false));
        // one writer thread (the API's normal use) or two (poll_obtain_write_permission takes &self: two threads may compete for the last unit)
        let n_writers = 1 + (round % 2) as usize;
        let barrier = Arc::new(std::sync::Barrier::new(1 + n_writers));
        let cap = c0 + grants * unit + 16;
        let mut writers = Vec::new();
        // (thread id, polls that have returned) per writer: lets the main thread see a single poll that never returns
        let mut beacons: Vec<Arc<(std::sync::atomic::AtomicI64, AtomicU64)>> = Vec::new();
        for _ in 0..n_writers {
            let wakes = Arc::new(CountWaker(AtomicU64::new(0)));
            let beacon = Arc::new((std::sync::atomic::AtomicI64::new(-1), AtomicU64::new(0)));
            beacons.push(beacon.clone());
            let (s, d, b, wk) = (stream.clone(), done.clone(), barrier.clone(), wakes.clone());
            writers.push(std::thread::spawn(move || {
                let waker = Waker::from(wk);
                let cx = Context::from_waker(&waker);
                beacon.0.store(crate::util::own_tid(), Ordering::SeqCst);
                b.wait();
                let (mut ready, mut during) = (0u32, 0u32);
                loop {
                    let finished = d.load(Ordering::SeqCst);
                    let polled = s.poll_obtain_write_permission(&cx);
                    beacon.1.fetch_add(1, Ordering::Relaxed);
                    match polled {
                        Poll::Ready(Some(())) => {
                            ready += 1;
                            if !finished {
                                during += 1;
                            }
                            if ready > cap {
                                // more frames than credit ever existed: stop, the conservation check below reports it
                                break;
                            }
                        }
                        Poll::Ready(None) => break,
                        Poll::Pending => {
                            if finished {
                                break;
                            }
                            std::hint::spin_loop();
                        }
                    }
                }
                (ready, during)
            }));
        }
        let (c, d, b) = (ctl.clone(), done.clone(), barrier.clone());
        let acker = std::thread::spawn(move || {
            b.wait();
            for _ in 0..grants {
                c.acknowledge(unit);
            }
            d.store(true, Ordering::SeqCst);
        });
        // wait for the round, watching for a writer poll that keeps the CPU busy without ever returning (a poll is a handful
        // of atomic operations; one that has burnt seconds of CPU time inside a single call is spinning, whatever the machine load:
        // a thread that is merely not scheduled consumes no CPU time)
        if !cfg!(miri) {
            let mut last: Vec<(u64, u64, u64)> = beacons.iter().map(|_| (u64::MAX, 0, 0)).collect(); // (calls, cpu at last sample, cpu burnt with calls unchanged)
            let mut spinning = None;
            while !(acker.is_finished() && writers.iter().all(|w| w.is_finished())) {
                std::thread::sleep(std::time::Duration::from_millis(50));
                for (i, b) in beacons.iter().enumerate() {
                    let tid = b.0.load(Ordering::SeqCst);
                    let calls = b.1.load(Ordering::Relaxed);
                    let Some(cpu) = crate::util::thread_cpu_ticks(tid) else { continue };
                    if calls == last[i].0 {
                        last[i].2 += cpu.saturating_sub(last[i].1);
                    } else {
                        last[i].2 = 0;
                    }
                    last[i].0 = calls;
                    last[i].1 = cpu;
                    if last[i].2 >= 400 {
                        spinning = Some((i, last[i].2, calls));
                    }
                }
                if spinning.is_some() {
                    break;
                }
            }
            if let Some((i, ticks, calls)) = spinning {
                st.evaluations += 1;
                st.violation(Violation {
                    signature: "poll-never-returns|stress".into(),
                    detail: format!("writer thread {i} has been inside one call of poll_obtain_write_permission for {ticks} clock ticks of its own CPU time (after {calls} polls that returned), with {n_writers} writer thread(s) and a thread granting credit {grants} x {unit}: the poll spins instead of returning"),
                    replay: json!({"kind": "c12-stress", "engine": engine, "round": round, "c0": c0, "unit": unit, "grants": grants, "writers": n_writers, "witness": "per-thread utime+stime from /proc/self/task/<tid>/stat advancing while the thread's count of returned polls stands still"}),
                });
                // the spinning thread cannot be joined; the process ends when the results have been written
                st.count("stress_rounds", round + 1);
                return;
            }
        }
        acker.join().ok();
        let (mut ready, mut during) = (0u32, 0u32);
        for w in writers {
            let (r, d2) = w.join().unwrap_or((0, 0));
            ready = ready.saturating_add(r);
            during = during.saturating_add(d2);
        }
        st.evaluations += 1;
        let granted = grants * unit;
        let fin = stream.verif_send_credit();
        if u64::from(fin) + u64::from(ready) != u64::from(c0) + u64::from(granted) {
            st.violation(Violation {
                signature: "credit-not-conserved|stress".into(),
                detail: format!("{n_writers} free-running writer thread(s) against {grants} x acknowledge({unit}): final credit {fin} + frames {ready} != initial {c0} + granted {granted}"),
                replay: json!({"kind": "c12-stress", "engine": engine, "round": round, "c0": c0, "unit": unit, "grants": grants, "writers": n_writers, "final_credit": fin, "frames": ready, "note": "real-thread race; re-run the job, the round is not deterministic"}),
            });
        }
        if n_writers == 2 {
            st.target("stress_rounds_with_two_writer_threads", 1);
        }
        if during > 0 {
            st.target("stress_takes_while_granting", u64::from(during));
            st.nontrivial(mix(mix(0x57e5, round), mix(u64::from(during), u64::from(ready))));
        }
        if st.too_many_violations() {
            break;
        }
    }
    st.count("stress_rounds", rounds);
}

/// Many short races of ONE writer poll against ONE acknowledge on two free-running threads, released together: the stream holds
/// one unit of credit before the round, so the poll can proceed whatever the grant does. A poll that returns Pending although credit
/// was there all along, without the writer having been woken since the poll began, is a lost wake-up (exact final-state oracle W2;
/// conservation W1 checked every round). Reaches the window between the writer's load of the counter and its compare-exchange,
/// where no hook lies.
fn race_rounds(st: &mut Stats, rounds: u64, engine: &str) {
    let sa = verif::standalone_stream(7, 0, 8, 4);
    let stream = Arc::new(sa.stream);
    let ctl = Arc::new(sa.ctl);
    let _keep = (sa.tx_msg_rx, sa.dropped_flows_rx);
    let wakes = Arc::new(CountWaker(AtomicU64::new(0)));
    let barrier = Arc::new(std::sync::Barrier::new(2));
    let stop = Arc::new(std::sync::atomic::AtomicBool::new(false));
    let granter = {
        let (c, b, stop) = (ctl.clone(), barrier.clone(), stop.clone());
        std::thread::spawn(move || loop {
            b.wait();
            if stop.load(Ordering::SeqCst) {
                break;
            }
            c.acknowledge(1);
            b.wait();
        })
    };
    let waker = Waker::from(wakes.clone());
    let cx = Context::from_waker(&waker);
    let mut raced = 0u64;
    for round in 0..rounds {
        // drain to zero credit (the last poll leaves a waker registered), then put exactly one unit back
        let mut guard = 0;
        while let Poll::Ready(Some(())) = stream.poll_obtain_write_permission(&cx) {
            guard += 1;
            if guard > 64 {
                break;
            }
        }
        ctl.acknowledge(1);
        let before = wakes.0.load(Ordering::SeqCst);
        barrier.wait();
        for _ in 0..(round % 48) {
            std::hint::spin_loop();
        }
        let r = stream.poll_obtain_write_permission(&cx);
        barrier.wait();
        st.evaluations += 1;
        let woken = wakes.0.load(Ordering::SeqCst) - before;
        let credit = stream.verif_send_credit();
        let took = matches!(r, Poll::Ready(Some(())));
        if credit != 2 - u32::from(took) {
            st.violation(Violation { signature: "credit-not-conserved|race-round".into(), detail: format!("one unit before the round, one granted during it, the writer's poll returned {r:?}: final credit {credit}"), replay: json!({"kind": "c12-race-round", "engine": engine, "round": round}) });
        }
        if matches!(r, Poll::Pending) {
            raced += 1;
            if woken == 0 {
                st.violation(Violation {
                    signature: "lost-wakeup|race-round".into(),
                    detail: format!("the stream held a unit of credit before the writer's poll began and another was granted while it ran; the poll returned Pending and the writer has not been woken since (credit now {credit}): it sleeps although it could proceed"),
                    replay: json!({"kind": "c12-race-round", "engine": engine, "round": round, "note": "real-thread race; re-run the job, the round is not deterministic"}),
                });
            }
        }
        if st.too_many_violations() {
            break;
        }
    }
    stop.store(true, Ordering::SeqCst);
    barrier.wait();
    granter.join().ok();
    st.target("single_poll_vs_grant_race_rounds", rounds);
    st.count("race_rounds_in_which_the_poll_returned_pending", raced);
}

pub fn run(p: &Params) -> (Stats, &'static str) {
    install();
    let mut st = Stats::new();
    let miri = p.get("miri").is_some();
    let engine = if miri { "MIRI" } else { "MICRO" };
    st.engine(engine, 1);
    let mut rng = Rng64::new(p.shard_seed("C12"));
    let mut configs: Vec<Config> = Vec::new();
    for c0 in 0..=2u32 {
        for polls in 1..=2usize {
            for others in [vec![Some(1)], vec![Some(2)], vec![None], vec![Some(1), None], vec![Some(1), Some(1)], vec![Some(SHUTDOWN), None], vec![Some(SHUTDOWN)]] {
                configs.push(Config { c0, polls, others });
            }
        }
    }
    let (limit, repeats, random_runs) = if miri { (120u64, 1u32, 20u64) } else if p.tier_thorough { (u64::MAX, 3, 4000) } else { (2500, 1, 300) };
    let mut orders = 0u64;
    // `--only close`: the configurations in which the connection task closes the stream (used by C06: a peer Reset
    // racing with a writer parked at zero credit must end in BrokenPipe, not in a sleep)
    let only_close = p.get("only") == Some("close");
    if only_close {
        configs.retain(|c| c.others.iter().any(Option::is_none));
    }
    for (i, cfg) in configs.iter().enumerate() {
        if i as u64 % p.nshards != p.shard {
            continue;
        }
        // two writer polls against two other threads is the largest space
        let n = enumerate(&mut st, cfg, engine, limit, repeats);
        orders += n;
        st.cell("configuration", format!("c0={} polls={} others={:?}", cfg.c0, cfg.polls, cfg.others));
        for _ in 0..random_runs {
            let r = execute(cfg, &[], Some(&mut rng));
            st.evaluations += 1;
            judge(&mut st, cfg, &r, engine);
        }
        if st.too_many_violations() {
            break;
        }
    }
    st.count("hook_orders_enumerated", orders);
    if !only_close {
        let (rounds, grants) = if miri { (6, 12) } else if p.tier_thorough { (400, 20_000) } else { (60, 20_000) };
        stress(&mut st, &mut rng, rounds, grants, engine);
        if !miri && !st.violations.iter().any(|v| v.signature.starts_with("poll-never-returns")) {
            race_rounds(&mut st, p.share(if p.tier_thorough { 8_000_000 } else { 400_000 }), engine);
        }
    }
    if !miri && p.tier_thorough {
        st.exhaustive.push("all total orders of hook events for initial credit 0..2 x 1-2 writer polls x {ack(1), ack(2), close, ack+close, ack+ack, app-shutdown+close, app-shutdown}".into());
    }
    st.sample(json!({"config": "c0=0 polls=1 others=[ack(1)]", "one_order": ["T0:Start", "T0:WritePollBegin", "T0:WriteAllowedSeen", "T0:CreditSeenZero", "T1:Start", "T1:AckApplied{n:1}", "T1:AckWoke", "T0:WakerRegistered"],
        "oracle": "writer Pending + credit 1 + not woken => lost wake-up"}));
    st.notes.push("interleavings finer than the hook points and C11 behaviours Miri does not emulate are not covered".into());
    verif::set_observer(None);
    (st, RULE)
}
