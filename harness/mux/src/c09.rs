//! C09 — wire format: differential monitor of `penguin_mux::frame::Frame`
//! against the reference codec (`refcodec`), over constructor-built frames and
//! arbitrary byte strings. PURE engine; also runs under Miri (`--miri`).

use crate::refcodec::RefFrame;
use crate::util::{Params, Rng64, Stats, Violation, fnv, hex};
use bytes::Bytes;
use cow_bytes::CowBytes;
use penguin_mux::frame::{BindType, Frame, append_push_data};
use serde_json::json;
use std::panic::{AssertUnwindSafe, catch_unwind};

const RULE: &str = "cases = (a) frames built through every public constructor over boundary-biased field domains, \
(b) byte strings: bounded-exhaustive set (first byte from a boundary alphabet, rest from a 4-symbol alphabet) plus \
seeded mutations of valid frames (truncate at every position, opcode/version/host_len/bind-type perturbation) and random strings; \
a case is non-trivial if it is at least a full header (>=5 bytes) or a constructor-built frame; distinct = distinct input bytes / field tuples (bottom-k hash union across shards)";

fn build(r: &RefFrame) -> Frame<'_> {
    match r {
        RefFrame::Connect { id, rwnd, port, host } => Frame::new_connect(host, *port, *id, *rwnd),
        RefFrame::Ack { id, n } => Frame::new_acknowledge(*id, *n),
        RefFrame::Reset { id } => Frame::new_reset(*id),
        RefFrame::Finish { id } => Frame::new_finish(*id),
        RefFrame::Push { id, data } => Frame::new_push(*id, data),
        RefFrame::Bind { id, btype, port, host } => Frame::new_bind(
            *id,
            if *btype == 1 { BindType::Stream } else { BindType::Datagram },
            host,
            *port,
        ),
        RefFrame::Datagram { id, port, host, data } => Frame::new_datagram(*id, host, *port, data),
    }
}

fn viol(st: &mut Stats, sig: String, detail: String, input: &[u8]) {
    st.violation(Violation {
        signature: sig,
        detail,
        replay: json!({"kind": "c09-bytes", "input_hex": hex_full(input)}),
    });
}

fn hex_full(d: &[u8]) -> String {
    d.iter().take(400).map(|b| format!("{b:02x}")).collect()
}

fn class_len(n: usize) -> &'static str {
    match n {
        0 => "0",
        1..=3 => "1-3",
        _ => ">=4",
    }
}

/// Check one constructor-built frame (given as reference value).
fn check_constructed(st: &mut Stats, r: &RefFrame) {
    st.evaluations += 1;
    st.count("constructed", 1);
    st.count(&format!("constructed_{}", r.name()), 1);
    let want = r.encode();
    st.nontrivial(fnv(&want) ^ 0x1111);
    let f = build(r);
    let enc_v: Vec<u8> = Vec::from(&f);
    let enc_b: Bytes = Bytes::from(&f);
    let name = r.name();
    if enc_v != want || enc_b.as_ref() != want.as_slice() {
        viol(st, format!("encode-mismatch|op={name}"),
            format!("constructor-built {r:?} encodes to {} but PROTOCOL.md layout is {}", hex(&enc_v), hex(&want)), &want);
        return;
    }
    if f.id != r.id() || (f.opcode() as u8) != (0x70 | r.op()) {
        viol(st, format!("accessor-mismatch|op={name}"), format!("id/opcode accessor wrong for {r:?}"), &want);
    }
    // decode borrowed / owned / vec
    let dec_b = catch_unwind(AssertUnwindSafe(|| Frame::try_from(want.as_slice()).map(|x| (x == f, Vec::from(&x)))));
    let dec_o = catch_unwind(AssertUnwindSafe(|| Frame::try_from(Bytes::from(want.clone())).map(|x| (x == f, Vec::from(&x)))));
    let dec_v = catch_unwind(AssertUnwindSafe(|| Frame::try_from(want.clone()).map(|x| (x == f, Vec::from(&x)))));
    for (how, d) in [("borrowed", dec_b), ("bytes", dec_o), ("vec", dec_v)] {
        let extra = match r {
            RefFrame::Datagram { data, .. } => format!("|payload_len={}", class_len(data.len())),
            _ => String::new(),
        };
        match d {
            Err(_) => viol(st, format!("decode-panic|op={name}{extra}"), format!("decoding ({how}) the encoding of {r:?} panicked"), &want),
            Ok(Err(e)) => viol(st, format!("roundtrip-rejected|op={name}{extra}"),
                format!("decoding ({how}) the encoding of constructor-built {r:?} fails with {e:?}; bytes {}", hex(&want)), &want),
            Ok(Ok((eq, re))) => {
                if !eq {
                    viol(st, format!("roundtrip-unequal|op={name}"), format!("decode({how}) of encode of {r:?} is not equal to the original frame"), &want);
                }
                if re != want {
                    viol(st, format!("roundtrip-reencode|op={name}"), format!("decode({how}) then encode of {r:?} gives {}", hex(&re)), &want);
                }
            }
        }
    }
}

/// Check one arbitrary byte string.
fn check_bytes(st: &mut Stats, s: &[u8]) {
    st.evaluations += 1;
    st.count("byte_strings", 1);
    if s.len() >= 5 {
        st.nontrivial(fnv(s));
    }
    let want = RefFrame::decode(s);
    match &want {
        Ok(r) => st.count(&format!("valid_{}", r.name()), 1),
        Err(e) => st.count(&format!("invalid_{e:?}").split('(').next().unwrap().to_string(), 1),
    }
    let runs: [(&str, std::thread::Result<Result<(u32, u8, Vec<u8>, bool), String>>); 3] = [
        ("borrowed", catch_unwind(AssertUnwindSafe(|| decode_view(Frame::try_from(s), &want)))),
        ("bytes", catch_unwind(AssertUnwindSafe(|| decode_view(Frame::try_from(Bytes::copy_from_slice(s)), &want)))),
        ("vec", catch_unwind(AssertUnwindSafe(|| decode_view(Frame::try_from(s.to_vec()), &want)))),
    ];
    for (how, got) in runs {
        let opname = if s.is_empty() { "none".to_string() } else { format!("{}", s[0] & 0x0f) };
        match (got, &want) {
            (Err(_), _) => viol(st, format!("decode-panic|opnibble={opname}|ref={}", want.is_ok()),
                format!("Frame::try_from({how}) panicked on {}", hex(s)), s),
            (Ok(Err(e)), Ok(r)) => {
                let extra = match r {
                    RefFrame::Datagram { data, .. } => format!("|payload_len={}", class_len(data.len())),
                    _ => String::new(),
                };
                viol(st, format!("rejects-valid|op={}{extra}", r.name()),
                    format!("Frame::try_from({how}) rejects ({e}) the valid frame {} = {r:?}", hex(s)), s);
            }
            (Ok(Ok(_)), Err(e)) => viol(st, format!("accepts-invalid|opnibble={opname}|ref={e:?}"),
                format!("Frame::try_from({how}) accepts {} which PROTOCOL.md makes invalid ({e:?})", hex(s)), s),
            (Ok(Err(_)), Err(_)) => {}
            (Ok(Ok((id, op, re, eq))), Ok(r)) => {
                let canon = r.encode();
                if id != r.id() || op != (0x70 | r.op()) || re != canon || !eq {
                    viol(st, format!("decode-fields|op={}", r.name()),
                        format!("Frame::try_from({how}) of {} yields id={id:08x} op={op:02x} reenc={} eq_ctor={eq}; layout prescribes {r:?}", hex(s), hex(&re)), s);
                }
            }
        }
    }
}

fn decode_view(res: Result<Frame<'_>, penguin_mux::frame::Error>, want: &Result<RefFrame, crate::refcodec::RefErr>) -> Result<(u32, u8, Vec<u8>, bool), String> {
    match res {
        Ok(f) => {
            let eq = match want {
                Ok(r) => f == build(r),
                Err(_) => true,
            };
            Ok((f.id, f.opcode() as u8, Vec::from(&f), eq))
        }
        Err(e) => Err(format!("{e:?}")),
    }
}

fn check_push_variants(st: &mut Stats, rng: &mut Rng64, id: u32, data: &[u8]) {
    st.evaluations += 1;
    st.count("push_variants", 1);
    let want = RefFrame::Push { id, data: data.to_vec() }.encode();
    // vectored with random split incl. empty slices
    let mut cuts: Vec<usize> = (0..rng.below(5)).map(|_| rng.below(data.len() as u64 + 1) as usize).collect();
    cuts.push(0);
    cuts.push(data.len());
    cuts.sort_unstable();
    let owned: Vec<Bytes> = cuts.windows(2).map(|w| Bytes::copy_from_slice(&data[w[0]..w[1]])).collect();
    let mut slices: Vec<CowBytes<'_>> = Vec::new();
    for (i, w) in cuts.windows(2).enumerate() {
        if rng.chance(1, 2) {
            slices.push(CowBytes::Temporary(&data[w[0]..w[1]]));
        } else {
            slices.push(CowBytes::Static(owned[i].clone()));
        }
        if rng.chance(1, 4) {
            slices.push(CowBytes::Temporary(&[]));
        }
    }
    let nslices = slices.len();
    let fv = Frame::new_push_vectored(id, slices);
    let enc = Vec::from(&fv);
    if enc != want {
        viol(st, "encode-mismatch|op=Push-vectored".into(), format!("vectored push ({nslices} slices) of {} encodes to {}", hex(data), hex(&enc)), &want);
    }
    let fs = Frame::new_push(id, data);
    let fo = Frame::new_push_owned(id, Bytes::copy_from_slice(data));
    if !(fv == fs && fs == fv && fo == fs && fo == fv) {
        viol(st, "eq-mismatch|op=Push-vectored".into(), "vectored/single/owned Push frames with equal bytes compare unequal".into(), &want);
    }
    if Vec::from(&fo) != want || Bytes::from(&fo).as_ref() != want.as_slice() {
        viol(st, "encode-mismatch|op=Push-owned".into(), "owned push encodes differently".into(), &want);
    }
    // message conversion
    let m: penguin_mux::ws::Message = Frame::new_push(id, data).into();
    if m != penguin_mux::ws::Message::Binary(Bytes::from(want.clone())) {
        viol(st, "encode-mismatch|op=Push-message".into(), "Message::from(frame) differs".into(), &want);
    }
    // append_push_data
    let k = rng.below(data.len() as u64 + 1) as usize;
    let mut v = Vec::from(&Frame::new_push(id, &data[..k]));
    let r = catch_unwind(AssertUnwindSafe(|| {
        append_push_data(&mut v, &data[k..]);
        v
    }));
    match r {
        Ok(v) if v == want => {}
        Ok(v) => viol(st, "append-mismatch".into(), format!("append_push_data gives {}", hex(&v)), &want),
        Err(_) => viol(st, "append-panic".into(), "append_push_data panicked on a valid Push frame".into(), &want),
    }
}

const IDS: [u32; 6] = [0, 1, 0x7fff_ffff, 0x8000_0000, 0xffff_fffe, 0xffff_ffff];
const PORTS: [u16; 6] = [0, 1, 255, 256, 0x8000, 65535];
const PAYLOAD_LENS: [usize; 14] = [0, 1, 2, 3, 4, 5, 6, 7, 8, 9, 255, 256, 257, 65536];

fn rand_u32(rng: &mut Rng64) -> u32 {
    if rng.chance(1, 2) { *rng.pick(&IDS) } else { rng.next() as u32 }
}
fn rand_port(rng: &mut Rng64) -> u16 {
    if rng.chance(1, 2) { *rng.pick(&PORTS) } else { rng.next() as u16 }
}
fn rand_payload(rng: &mut Rng64, max: usize) -> Vec<u8> {
    let n = if rng.chance(2, 3) { *rng.pick(&PAYLOAD_LENS) } else { rng.below(600) as usize };
    let n = n.min(max);
    // bias towards bytes that look like headers
    let mode = rng.below(3);
    (0..n).map(|_| match mode {
        0 => rng.next() as u8,
        1 => *rng.pick(&[0u8, 1, 3, 6, 0x70, 0x76, 0xff]),
        _ => 0,
    }).collect()
}

fn gen_frame(rng: &mut Rng64, op: u8, host_len: Option<usize>, miri: bool) -> RefFrame {
    let id = rand_u32(rng);
    let maxp = if miri { 300 } else { 70_000 };
    let hl = host_len.unwrap_or_else(|| if rng.chance(1, 2) { rng.below(256) as usize } else { rng.below(8) as usize });
    match op {
        0 => { let n = if rng.chance(1, 8) { hl + 300 } else { hl }; RefFrame::Connect { id, rwnd: rand_u32(rng), port: rand_port(rng), host: rng.bytes(n) } }
        1 => RefFrame::Ack { id, n: rand_u32(rng) },
        2 => RefFrame::Reset { id },
        3 => RefFrame::Finish { id },
        4 => RefFrame::Push { id, data: rand_payload(rng, maxp) },
        5 => RefFrame::Bind { id, btype: if rng.chance(1, 2) { 1 } else { 3 }, port: rand_port(rng), host: rng.bytes(hl) },
        _ => RefFrame::Datagram { id, port: rand_port(rng), host: rng.bytes(hl.min(255)), data: rand_payload(rng, maxp) },
    }
}

fn mutate_and_check(st: &mut Stats, rng: &mut Rng64, enc: &[u8], all_truncations: bool) {
    // every truncation point (or a sample of them for long frames)
    if all_truncations {
        let limit = enc.len().min(300);
        for k in 0..limit {
            check_bytes(st, &enc[..k]);
        }
        st.count("truncation_sets", 1);
    } else {
        for _ in 0..3 {
            let k = rng.below(enc.len() as u64 + 1) as usize;
            check_bytes(st, &enc[..k]);
        }
    }
    if enc.is_empty() {
        return;
    }
    // first byte perturbations
    let mut m = enc.to_vec();
    m[0] = rng.next() as u8;
    check_bytes(st, &m);
    m[0] = (enc[0] & 0x0f) | (*rng.pick(&[0u8, 1, 6, 7, 8, 15]) << 4);
    check_bytes(st, &m);
    m[0] = (enc[0] & 0xf0) | (rng.below(16) as u8);
    check_bytes(st, &m);
    // lenient version nibble 0
    m[0] = enc[0] & 0x0f;
    check_bytes(st, &m);
    // perturb byte 5 (host_len for datagrams, bind type for binds)
    if enc.len() > 5 {
        let mut m = enc.to_vec();
        m[5] = *rng.pick(&[0u8, 1, 2, 3, 4, 5, 254, 255]);
        check_bytes(st, &m);
        let want_extra = (enc.len() - 5) as i64;
        for d in [-3i64, -2, -1, 0, 1] {
            let v = want_extra - 3 + d; // exactly fitting host_len is len-8
            if (0..=255).contains(&v) {
                m[5] = v as u8;
                check_bytes(st, &m);
            }
        }
    }
    // random byte flip / extension
    let mut m = enc.to_vec();
    let i = rng.below(m.len() as u64) as usize;
    m[i] ^= 1 << rng.below(8);
    check_bytes(st, &m);
    let mut m = enc.to_vec();
    let extra = rng.below(4) as usize + 1;
    m.extend(rng.bytes(extra));
    check_bytes(st, &m);
}

fn exhaustive_short(st: &mut Stats, p: &Params, maxlen: usize) {
    const FIRST: [u8; 23] = [0x00, 0x01, 0x02, 0x03, 0x04, 0x05, 0x06, 0x07, 0x0f, 0x10, 0x60, 0x66, 0x70, 0x71, 0x72, 0x73, 0x74, 0x75, 0x76, 0x77, 0x7f, 0x80, 0xff];
    const REST: [u8; 4] = [0x00, 0x01, 0x03, 0xff];
    let mut idx: u64 = 0;
    let mut n: u64 = 0;
    // length 0
    if p.shard == 0 {
        check_bytes(st, &[]);
    }
    for len in 1..=maxlen {
        let combos = 4u64.pow((len - 1) as u32);
        for f in FIRST {
            for c in 0..combos {
                idx += 1;
                if idx % p.nshards != p.shard {
                    continue;
                }
                let mut s = Vec::with_capacity(len);
                s.push(f);
                let mut c = c;
                for _ in 1..len {
                    s.push(REST[(c & 3) as usize]);
                    c >>= 2;
                }
                check_bytes(st, &s);
                n += 1;
            }
        }
    }
    st.count("exhaustive_short_strings", n);
    st.exhaustive.push(format!("byte strings of length 0..={maxlen}: first byte from a 23-symbol boundary alphabet, other bytes from {{00,01,03,ff}} (this shard: {n})"));
}

pub fn run(p: &Params) -> (Stats, &'static str) {
    let mut st = Stats::new();
    let mut rng = Rng64::new(p.shard_seed("C09"));
    let miri = p.get("miri").is_some();
    st.engine(if miri { "MIRI" } else { "PURE" }, 1);
    let (maxlen, n_struct, n_random) = if miri {
        (3usize, 120u64, 120u64)
    } else if p.tier_thorough {
        (11, 3_000_000, 6_000_000)
    } else {
        (9, 60_000, 120_000)
    };
    // (a) constructed frames: every opcode x every host length 0..=255 (systematic), then random
    if !miri {
        for op in 0..7u8 {
            for hl in 0..=255usize {
                if (u64::from(op) * 256 + hl as u64) % p.nshards != p.shard {
                    continue;
                }
                let r = gen_frame(&mut rng, op, Some(hl), miri);
                check_constructed(&mut st, &r);
                st.cell("host_len", hl);
            }
        }
        // datagram/push payload length x host length boundary grid
        for pl in PAYLOAD_LENS {
            for hl in [0usize, 1, 2, 3, 4, 254, 255] {
                let r = RefFrame::Datagram { id: rand_u32(&mut rng), port: rand_port(&mut rng), host: rng.bytes(hl), data: rng.bytes(pl) };
                check_constructed(&mut st, &r);
                let enc = r.encode();
                mutate_and_check(&mut st, &mut rng, &enc, pl <= 9);
                st.cell("datagram_payload_len", pl);
            }
            let r = RefFrame::Push { id: rand_u32(&mut rng), data: rng.bytes(pl) };
            check_constructed(&mut st, &r);
        }
    }
    for i in 0..p.share(n_struct) {
        let op = (i % 7) as u8;
        let r = gen_frame(&mut rng, op, None, miri);
        check_constructed(&mut st, &r);
        st.cell("opcode", r.name());
        if let RefFrame::Push { id, data } = &r {
            check_push_variants(&mut st, &mut rng, *id, data);
        }
        if i % 4 == 0 {
            let enc = r.encode();
            mutate_and_check(&mut st, &mut rng, &enc, enc.len() < 40);
        }
    }
    // (b) byte strings
    exhaustive_short(&mut st, p, maxlen);
    for _ in 0..p.share(n_random) {
        let n = if rng.chance(3, 4) { rng.below(16) as usize } else { rng.below(300) as usize };
        let mut s = rng.bytes(n);
        if !s.is_empty() && rng.chance(3, 4) {
            s[0] = (if rng.chance(3, 4) { 0x70 } else { 0x00 }) | (rng.below(8) as u8);
        }
        if s.len() > 5 && rng.chance(1, 2) {
            s[5] = rng.below(12) as u8;
        }
        check_bytes(&mut st, &s);
    }
    st.sample(json!({"constructed": format!("{:?}", gen_frame(&mut rng, 6, Some(3), true)), "note": "each constructed frame: encode==reference, decode(borrowed|Bytes|Vec)==frame, re-encode==bytes"}));
    st.sample(json!({"bytes": "76 00000001 00 0035 41", "expect": "valid Datagram id=1 host='' port=53 data='A' (1-byte payload)"}));
    (st, RULE)
}

/// Re-run one recorded byte string.
pub fn replay(input_hex: &str) -> Stats {
    let mut st = Stats::new();
    let bytes: Vec<u8> = (0..input_hex.len() / 2).map(|i| u8::from_str_radix(&input_hex[2 * i..2 * i + 2], 16).unwrap_or(0)).collect();
    check_bytes(&mut st, &bytes);
    if let Ok(r) = RefFrame::decode(&bytes) {
        check_constructed(&mut st, &r);
    }
    st
}
