//! C07 — stream opening and flow-id discipline. SIM engine with scripted RNGs
//! (forced id 0, live ids, simultaneous identical choices) and a scripted raw peer.

use crate::memws;
use crate::monitors::{self, Fam, Meta};
use crate::raw::{Got, Raw};
use crate::refcodec::RefFrame;
use crate::sim::{self, Api, Ev, Rec, Sh, Wm};
use crate::streams::{self, FamilySpec, Profile};
use crate::util::{Params, Rng64, Stats, Violation, mix};
use crate::wl::{self, EpCfg, RStyle, SidePlan, StreamActor, StreamPlan, WOp};
use serde_json::json;
use std::sync::Arc;
use std::time::Duration;
use tokio::io::AsyncWriteExt;

pub const SPEC: FamilySpec = FamilySpec {
    property: "C07",
    cmd: "c07",
    profile: Profile::Bytes,
    fams: &[Fam::Open, Fam::Alive, Fam::Panic],
    stall_is_violation: false,
    runs_quick: 48_000,
    runs_thorough: 3_200_000,
    rule: "one case = one execution of (a) the general workload with 1-8 concurrent opens from both sides, target hosts of 0..300 arbitrary bytes and edge ports; (b) scripted-RNG runs that hand the endpoint id 0 and ids of live flows; \
(c) collision runs: both endpoints draw the same ids at the same moment, max_flow_id_retries 1..5; (d) a raw peer that resets the first k in 0..=R+1 Connects, or sends Connect with id 0 / an id in use. \
Oracle: one stream per successful request on each side, target bytes identical, initial credit == advertised window (hook accessor and black-box count), no Connect with id 0 / live id, at most R Connects per request, \
success iff an attempt was acknowledged, FlowIdRejected after exactly R Resets. Non-trivial = a stream was established or a Connect was rejected",
};

fn small_plan(rng: &mut Rng64) -> [SidePlan; 2] {
    let mut sides = [SidePlan::quiet(), SidePlan::quiet()];
    for s in sides.iter_mut() {
        s.writes = (0..rng.range(1, 4)).map(|_| WOp::Write(*rng.pick(&[1usize, 7, 64]))).collect();
        s.style = RStyle::Read(64);
    }
    sides
}

fn viol(st: &mut Stats, sig: String, detail: String, kind: &str, seed: u64, log: &[Rec]) {
    st.violation(Violation {
        signature: sig,
        detail,
        replay: json!({"kind": "c07", "scenario": kind, "run_seed": seed, "trace_tail": sim::render(log, 400)}),
    });
}

/// (a) general workload with arbitrary hosts / ports
fn general_case(st: &mut Stats, seed: u64) {
    let mut rng = Rng64::new(mix(seed, 7));
    let mut sc = streams::gen_scenario(seed, Profile::Bytes);
    let n = if rng.chance(1, 2) { rng.range(2, 8) } else { rng.range(1, 2) } as u32;
    sc.streams = (0..n).map(|i| {
        let mut p = streams::gen_stream(&mut rng, i + 1, &sc.cfg, Profile::Eos, false);
        let hl = if rng.chance(1, 3) { *rng.pick(&[0usize, 1, 255, 256, 300]) } else { rng.below(40) as usize };
        p.host_extra = rng.bytes(hl);
        p.port = if rng.chance(1, 2) { *rng.pick(&[0u16, 1, 255, 256, 65535]) } else { rng.next() as u16 };
        p.open_delay = 0;
        for s in p.sides.iter_mut() {
            s.read_limit = None;
            s.shutdown = true;
        }
        p
    }).collect();
    sc.dgrams.clear();
    let meta = Meta { abnormal_end: false, dgram_cap: [16, 16], stream_is_bridge: false, sim: true, ..Meta::default() };
    let c = streams::execute(st, &SPEC, &sc, &meta, "general");
    st.target("streams_established", c.get("streams_opened"));
    st.cell("concurrent_opens", n);
    if c.get("streams_opened") > 0 {
        st.nontrivial(mix(seed, c.get("connect_sent")));
    }
    if st.samples.is_empty() {
        st.sample(streams::describe(&sc));
    }
}

struct OpenOutcome {
    sid: u32,
    ep: u8,
    res: Result<(), String>,
}

/// Per-request accounting on the wire: Connects sent by `ep` whose host tag is `sid`, and their fates.
fn connect_fates(log: &[Rec], ep: u8, sid: u32) -> (usize, usize, usize) {
    let mut ids: Vec<u32> = Vec::new();
    let (mut acked, mut reset) = (0, 0);
    let mut open: Vec<u32> = Vec::new();
    for r in log {
        match &r.ev {
            Ev::Sent { ep: e, m: Wm::Connect { id, host, .. } } if *e == ep && wl::parse_sid(host) == Some(sid) => {
                ids.push(*id);
                open.push(*id);
            }
            Ev::Dlv { ep: e, m: Wm::Ack { id, .. } } if *e == ep && open.contains(id) => {
                open.retain(|x| x != id);
                acked += 1;
            }
            Ev::Dlv { ep: e, m: Wm::Reset { id } } if *e == ep && open.contains(id) => {
                open.retain(|x| x != id);
                reset += 1;
            }
            _ => {}
        }
    }
    (ids.len(), acked, reset)
}

fn judge_open(st: &mut Stats, log: &[Rec], o: &OpenOutcome, retries: usize, kind: &str, seed: u64) {
    let (sent, acked, reset) = connect_fates(log, o.ep, o.sid);
    st.count("requests_judged", 1);
    if sent > retries {
        viol(st, format!("too-many-connects|{kind}"), format!("request s{} on ep{}: {sent} Connect frames for one request with max_flow_id_retries = {retries}", o.sid, o.ep), kind, seed, log);
    }
    match &o.res {
        Ok(()) => {
            if acked != 1 {
                viol(st, format!("success-without-ack|{kind}"), format!("request s{} on ep{} succeeded but {acked} of its Connects were acknowledged", o.sid, o.ep), kind, seed, log);
            }
        }
        Err(e) if e == "FlowIdRejected" => {
            st.count("flow_id_rejected", 1);
            if acked != 0 || reset != retries || sent != retries {
                viol(st, format!("rejected-miscount|{kind}"), format!("request s{} on ep{} failed with FlowIdRejected after {sent} Connects ({reset} reset, {acked} acknowledged); expected exactly {retries} rejected attempts", o.sid, o.ep), kind, seed, log);
            }
        }
        Err(e) => viol(st, format!("open-error|{e}|{kind}"), format!("request s{} on ep{} failed with {e} ({sent} Connects, {reset} reset, {acked} acknowledged)", o.sid, o.ep), kind, seed, log),
    }
    if acked == 1 && o.res.is_err() {
        viol(st, format!("ack-but-failed|{kind}"), format!("request s{} on ep{}: an attempt was acknowledged but the request failed with {:?}", o.sid, o.ep, o.res), kind, seed, log);
    }
}

/// (b)+(c): two real endpoints, scripted RNGs.
/// A tracing subscriber that only exists to widen one window: it sleeps at the existing
/// `trace!("flow_id = ...")` event inside `Multiplexor::insert_new_flow` (between choosing an id
/// and registering it), on real threads. No repository change is involved.
mod trace_delay {
    use std::sync::atomic::{AtomicBool, AtomicU64, Ordering};
    use tracing::field::{Field, Visit};
    use tracing::span::{Attributes, Id, Record};
    use tracing::{Event, Level, Metadata, Subscriber};

    pub static ON: AtomicBool = AtomicBool::new(false);
    pub static HITS: AtomicU64 = AtomicU64::new(0);

    struct Msg(String);
    impl Visit for Msg {
        fn record_debug(&mut self, field: &Field, value: &dyn std::fmt::Debug) {
            if field.name() == "message" {
                self.0 = format!("{value:?}");
            }
        }
    }

    pub struct DelaySub;
    impl Subscriber for DelaySub {
        fn enabled(&self, md: &Metadata<'_>) -> bool {
            md.is_event() && *md.level() == Level::TRACE && md.target().starts_with("penguin_mux") && md.file().is_some_and(|f| f.ends_with("lib.rs"))
        }
        fn new_span(&self, _: &Attributes<'_>) -> Id {
            Id::from_u64(1)
        }
        fn record(&self, _: &Id, _: &Record<'_>) {}
        fn record_follows_from(&self, _: &Id, _: &Id) {}
        fn event(&self, ev: &Event<'_>) {
            if !ON.load(Ordering::Relaxed) {
                return;
            }
            let mut m = Msg(String::new());
            ev.record(&mut m);
            if m.0.starts_with("flow_id =") {
                HITS.fetch_add(1, Ordering::Relaxed);
                std::thread::sleep(std::time::Duration::from_micros(400));
            }
        }
        fn enter(&self, _: &Id) {}
        fn exit(&self, _: &Id) {}
    }

    pub fn install() {
        let _ = tracing::subscriber::set_global_default(DelaySub);
    }
}

fn scripted_case(st: &mut Stats, seed: u64, collide: bool) {
    scripted_case_on(st, seed, collide, false);
}

fn scripted_case_on(st: &mut Stats, seed: u64, collide: bool, thr: bool) {
    st.evaluations += 1;
    st.engine(if thr { "THR" } else { "SIM" }, 1);
    let mut rng = Rng64::new(mix(seed, 0xC7));
    let kind = if thr { "collision-threads" } else if collide { "collision" } else { "scripted-rng" };
    let retries = [rng.range(1, 5) as usize, rng.range(1, 5) as usize];
    let cfg = [
        EpCfg { retries: retries[0], rwnd: *rng.pick(&[1u32, 2, 4, 16]), ..EpCfg::default() },
        EpCfg { retries: retries[1], rwnd: *rng.pick(&[1u32, 2, 4, 16]), ..EpCfg::default() },
    ];
    let jitter = rng.below(4) as u8;
    let sh = sim::Shared::new(mix(seed, 1), jitter);
    let rounds = rng.range(1, 5) as usize;
    let plans: Vec<StreamPlan> = (1..=8u32).map(|sid| {
        let mut sides = small_plan(&mut rng);
        if sid == 1 && !collide {
            // the live stream: both sides keep it for a while after their transfers
            sides[0].hold_ms = 50;
            sides[1].hold_ms = 50;
        }
        if thr || collide {
            // (also in the simulator: with identical id scripts on both ends, a retry of one end draws the very id the other end's
            // retry has just used; if that stream is already over and dropped while its last Acknowledge frames are still on their
            // way, they would meet the new Requested slot - thorough tier, seed 2)
            // on real threads the two opens are not exactly simultaneous: keep every stream alive well beyond the
            // opening phase, so that an id is never drawn again while frames of a finished incarnation are still in
            // flight (immediate re-use with frames in flight is not demanded, see DESIGN.md C06/C07)
            sides[0].hold_ms = 8;
            sides[1].hold_ms = 8;
        }
        StreamPlan { sid, opener: (sid % 2) as u8, open_delay: 0, sides, awaited: [true, true], host_extra: vec![], port: sid as u16 }
    }).collect();
    let plans = Arc::new(plans);
    let shared_ids: Vec<u32> = (0..rounds).map(|_| rng.next() as u32 | 1).collect();
    let fresh = [rng.next() as u32 | 1, rng.next() as u32 | 1];
    let cfg2 = cfg.clone();
    let plans2 = plans.clone();
    let scenario = move |sh: Sh| async move {
        let ([e0, e1], _net) = wl::connect(&sh, [&cfg2[0], &cfg2[1]], [0, 0], [None, None], seed, true);
        let muxes = [e0.mux.clone(), e1.mux.clone()];
        let mut outcomes: Vec<OpenOutcome> = Vec::new();
        let acc: Vec<_> = (0..2u8).map(|ep| {
            sim::spawn(&sh, 2000 + u64::from(ep), wl::acceptor(sh.clone(), muxes[ep as usize].clone(), ep, seed, plans2.clone(), 64, 3000 + 1000 * u64::from(ep)))
        }).collect();
        if collide {
            // both endpoints draw the same ids for their next request(s)
            e0.rng.push(&shared_ids);
            e1.rng.push(&shared_ids);
            e0.rng.push(&[fresh[0]]);
            e1.rng.push(&[fresh[1]]);
            let mut hs = Vec::new();
            for (ep, sid) in [(1u8, 1u32), (0u8, 2u32)] {
                let (sh2, mux, plan) = (sh.clone(), muxes[ep as usize].clone(), plans2[(sid - 1) as usize].clone());
                hs.push((ep, sid, sim::spawn(&sh, 5000 + u64::from(sid), open_one(sh2, mux, ep, seed, plan))));
            }
            for (ep, sid, h) in hs {
                let res = h.await.ok().flatten().unwrap_or(Err("task-failed".into()));
                outcomes.push(OpenOutcome { sid, ep, res });
            }
        } else {
            // a live stream first, then the RNG hands out 0 and the live id
            // sid 1 is opened by ep1 and kept alive by a hold on both sides
            let first = sim::spawn(&sh, 5001, open_one(sh.clone(), muxes[1].clone(), 1, seed, plans2[0].clone()));
            sim::quiesce().await;
            let live: Vec<u32> = muxes[1].verif_flow_ids();
            if live.is_empty() {
                sh.api(1, 1, Api::Note("HARNESS: live stream not established".into()));
            }
            let mut script = vec![0u32];
            script.extend(live.iter().copied());
            script.push(0);
            script.extend(live.iter().copied());
            e1.rng.push(&script);
            e0.rng.push(&script);
            for (ep, sid) in [(1u8, 3u32), (0u8, 4u32)] {
                let res = open_one(sh.clone(), muxes[ep as usize].clone(), ep, seed, plans2[(sid - 1) as usize].clone()).await;
                outcomes.push(OpenOutcome { sid, ep, res });
            }
            let res = first.await.ok().flatten().unwrap_or(Err("task-failed".into()));
            outcomes.push(OpenOutcome { sid: 1, ep: 1, res });
        }
        sim::quiesce().await;
        for a in &acc {
            a.abort();
        }
        for a in acc {
            a.await.ok();
        }
        drop(muxes);
        let (m0, t0, m1, t1) = (e0.mux, e0.task, e1.mux, e1.task);
        drop(m0);
        t0.await.ok();
        drop(m1);
        t1.await.ok();
        outcomes
    };
    let end = if thr {
        trace_delay::ON.store(true, std::sync::atomic::Ordering::Relaxed);
        let r = sim::run_threads(&sh, 6, Duration::from_secs(10), scenario);
        trace_delay::ON.store(false, std::sync::atomic::Ordering::Relaxed);
        r
    } else {
        sim::run(&sh, scenario)
    };
    let log = sh.take_log();
    match end {
        sim::RunEnd::Stalled if thr => {
            st.count("thr_timeouts", 1);
            if st.inconclusive.len() < 3 {
                st.inconclusive.push("c07 THR run hit the 10 s wall-clock limit".into());
            }
            return;
        }
        sim::RunEnd::Finished(outcomes) => {
            for o in &outcomes {
                judge_open(st, &log, o, retries[o.ep as usize], kind, seed);
            }
            let ok = outcomes.iter().filter(|o| o.res.is_ok()).count();
            st.target(if collide { "collision_runs" } else { "scripted_rng_runs" }, 1);
            let resets = log.iter().filter(|r| matches!(&r.ev, Ev::Dlv { m: Wm::Reset { .. }, .. })).count();
            if collide && resets > 0 {
                st.target("connects_rejected_by_collision", resets as u64);
            }
            st.nontrivial(mix(sh.hash(), ok as u64));
        }
        sim::RunEnd::Stalled => viol(st, format!("stall|{kind}"), "an open request never resolved (system idle)".into(), kind, seed, &log),
        sim::RunEnd::Panicked(m) => st.inconclusive.push(format!("harness panic in c07 {kind}: {m}")),
    }
    let meta = Meta { abnormal_end: false, dgram_cap: [16, 16], stream_is_bridge: false, sim: !thr, ..Meta::default() };
    // "without disturbing the existing flow": the streams that do get established must carry their data intact
    let an = monitors::analyse(&log, &[Fam::Open, Fam::Bytes, Fam::Panic], &meta);
    for f in an.findings {
        viol(st, format!("{}|{kind}", f.sig), f.detail, kind, seed, &log[..f.at.min(log.len())]);
    }
    for (k, v) in &an.counters.c {
        st.count(k, *v);
    }
}

/// Open one stream and run its actor to completion; returns the result of the open.
async fn open_one(sh: Sh, mux: Arc<wl::Mux>, ep: u8, seed: u64, plan: StreamPlan) -> Result<(), String> {
    let host = wl::stream_host(plan.sid, &plan.host_extra);
    sh.api(ep, plan.sid, Api::OpenCall);
    match mux.new_stream_channel(&host, plan.port).await {
        Ok(s) => {
            wl::log_stream(&sh, ep, plan.sid, &s, true, true);
            StreamActor::new(s, &sh, ep, plan.sid, seed, plan.sides[ep as usize].clone()).await;
            Ok(())
        }
        Err(e) => {
            let name = wl::err_name(&e);
            sh.api(ep, plan.sid, Api::OpenRet { ok: false, err: name.clone(), key: 0, flow: 0, credit: 0 });
            Err(name)
        }
    }
}

/// (d) raw peer: resets the first k Connects, then acknowledges with window W.
fn raw_reset_case(st: &mut Stats, seed: u64) {
    st.evaluations += 1;
    st.engine("SIM", 1);
    let mut rng = Rng64::new(mix(seed, 0xD7));
    let retries = rng.range(1, 5) as usize;
    let k = rng.range(0, retries as u64 + 1) as usize;
    let w = *rng.pick(&[1u32, 2, 3, 5, 16]);
    let cfg = EpCfg { retries, rwnd: *rng.pick(&[1u32, 4, 16]), ..EpCfg::default() };
    let sh = sim::Shared::new(mix(seed, 2), rng.below(4) as u8);
    let kind = "raw-reset";
    let end = sim::run(&sh, move |sh| async move {
        let (w0, w1, _net) = memws::pair(&sh, [0, 0], [None, None], true);
        let e0 = wl::endpoint(&sh, 0, &cfg, w0, seed);
        let mut raw = Raw::new(w1);
        let mux = e0.mux.clone();
        let sh2 = sh.clone();
        let opener = sim::spawn(&sh, 5000, async move {
            sh2.api(0, 1, Api::OpenCall);
            match mux.new_stream_channel(b"s1.", 9).await {
                Ok(mut s) => {
                    wl::log_stream(&sh2, 0, 1, &s, true, true);
                    let credit = s.verif_send_credit();
                    // black-box cross-check of the initial credit: exactly `window` writes complete, the next one blocks
                    let mut done = 0u32;
                    loop {
                        match tokio::time::timeout(Duration::from_millis(1), s.write(b"x")).await {
                            Ok(Ok(_)) => done += 1,
                            _ => break,
                        }
                        if done > 64 {
                            break;
                        }
                    }
                    (Ok(()), credit, done)
                }
                Err(e) => {
                    sh2.api(0, 1, Api::OpenRet { ok: false, err: wl::err_name(&e), key: 0, flow: 0, credit: 0 });
                    (Err(wl::err_name(&e)), 0, 0)
                }
            }
        });
        // the raw peer: reset k Connects, acknowledge the next one
        let mut connects = 0usize;
        let mut ids = Vec::new();
        loop {
            match tokio::time::timeout(Duration::from_millis(5), raw.recv()).await {
                Ok(Got::Frame(RefFrame::Connect { id, .. })) => {
                    connects += 1;
                    ids.push(id);
                    if connects <= k {
                        raw.send(&RefFrame::Reset { id }).await;
                    } else {
                        raw.send(&RefFrame::Ack { id, n: w }).await;
                    }
                }
                Ok(Got::End) | Err(_) => break,
                Ok(_) => {}
            }
        }
        let r = opener.await.ok().flatten();
        drop(e0.mux);
        raw.drain().await;
        raw.close().await;
        e0.task.await.ok();
        (r, connects, ids)
    });
    let log = sh.take_log();
    match end {
        sim::RunEnd::Finished((Some((res, credit, done)), connects, ids)) => {
            st.target("raw_reset_runs", 1);
            st.cell("resets_before_ack/retries", format!("{k}/{retries}"));
            let want_ok = k < retries;
            let want_connects = (k + 1).min(retries);
            if connects != want_connects {
                viol(st, format!("connect-count|{kind}"), format!("peer reset the first {k} Connects, max_flow_id_retries = {retries}: {connects} Connect frames sent, expected {want_connects}"), kind, seed, &log);
            }
            if ids.iter().any(|i| *i == 0) {
                viol(st, format!("connect-id-zero|{kind}"), "a retry proposed flow id 0".into(), kind, seed, &log);
            }
            let mut sorted = ids.clone();
            sorted.sort_unstable();
            sorted.dedup();
            if sorted.len() != ids.len() {
                st.count("retry_repeated_id", 1);
            }
            match (&res, want_ok) {
                (Ok(()), true) => {
                    if credit != w {
                        viol(st, format!("initial-credit|{kind}"), format!("peer acknowledged with window {w} but the stream's send credit is {credit}"), kind, seed, &log);
                    }
                    if done != w {
                        viol(st, format!("initial-credit-blackbox|{kind}"), format!("peer advertised window {w} and never reads: {done} writes completed before the writer blocked"), kind, seed, &log);
                    }
                }
                (Err(e), false) if e == "FlowIdRejected" => {}
                (other, _) => viol(st, format!("wrong-outcome|{kind}"), format!("peer reset the first {k} Connects with max_flow_id_retries = {retries}: outcome {other:?}, expected {}", if want_ok { "Ok" } else { "FlowIdRejected" }), kind, seed, &log),
            }
            st.nontrivial(mix(sh.hash(), (k * 8 + retries) as u64));
        }
        sim::RunEnd::Finished(_) => st.inconclusive.push("c07 raw-reset: opener task failed".into()),
        sim::RunEnd::Stalled => viol(st, format!("stall|{kind}"), format!("open request never resolved: peer reset {k} Connects, retries {retries}"), kind, seed, &log),
        sim::RunEnd::Panicked(m) => st.inconclusive.push(format!("harness panic in c07 {kind}: {m}")),
    }
    let an = monitors::analyse(&log, &[Fam::Panic], &Meta::default());
    for f in an.findings {
        viol(st, format!("{}|{kind}", f.sig), f.detail, kind, seed, &log);
    }
}

/// (d') raw peer sends Connect with id 0 and with an id in use; the existing flow must be undisturbed.
pub fn raw_bad_connect_case(st: &mut Stats, seed: u64) {
    st.evaluations += 1;
    st.engine("SIM", 1);
    let mut rng = Rng64::new(mix(seed, 0xE7));
    // in half of the cases the application has stopped accepting and its accept queue is exactly full when the offending
    // Connects arrive: a Connect that only needs a Reset needs no room in that queue
    let queue_full = rng.chance(1, 2);
    let qn = rng.range(1, 3) as usize;
    let cfg = EpCfg { rwnd: *rng.pick(&[2u32, 4, 16]), thr: 1, stream_buf: if queue_full { qn } else { EpCfg::default().stream_buf }, ..EpCfg::default() };
    let sh = sim::Shared::new(mix(seed, 3), rng.below(4) as u8);
    let kind = "raw-bad-connect";
    let live: u32 = rng.next() as u32 | 1;
    let order_zero_first = rng.chance(1, 2);
    let with_bind = rng.chance(1, 2);
    let bind_pos = rng.below(3) as usize;
    // a stray Acknowledge on the id of the pending bind request (a late frame of an earlier stream with that id, or a confused
    // peer): not an answer to the request, which stays pending
    let stray_ack = rng.chance(1, 2);
    let end = sim::run(&sh, move |sh| async move {
        let (w0, w1, _net) = memws::pair(&sh, [0, 0], [None, None], true);
        let e0 = wl::endpoint(&sh, 0, &cfg, w0, seed);
        let mut raw = Raw::new(w1);
        // establish flow `live` from the raw peer
        raw.send(&RefFrame::Connect { id: live, rwnd: 8, port: 7, host: b"s1.".to_vec() }).await;
        let mut s = e0.mux.accept_stream_channel().await.expect("accept");
        let acked = raw.drain().await;
        let mut queued_ids: Vec<u32> = Vec::new();
        if queue_full {
            for k in 0..qn as u32 {
                let id = (live ^ (0x0100_0000 + k * 2)) | 1;
                raw.send(&RefFrame::Connect { id, rwnd: 2, port: 50 + k as u16, host: b"q.".to_vec() }).await;
                queued_ids.push(id);
            }
            raw.drain().await;
        }
        // optionally the endpoint also has an unanswered bind request: its id is in use as well
        let mut pend_bind = None;
        let mut bind_id = None;
        if with_bind {
            let m = e0.mux.clone();
            pend_bind = Some(sim::spawn(&sh, 7001, async move { m.request_bind(b"b7.", 9, penguin_mux::frame::BindType::Stream).await.map_err(|e| wl::err_name(&e)) }));
            for g in raw.drain().await {
                if let Got::Frame(RefFrame::Bind { id, .. }) = g {
                    bind_id = Some(id);
                }
            }
        }
        if let (true, Some(b)) = (stray_ack, bind_id) {
            raw.send(&RefFrame::Ack { id: b, n: 1 }).await;
            raw.drain().await;
        }
        // the offending Connects
        let mut replies = Vec::new();
        let mut bad = if order_zero_first { vec![0u32, live] } else { vec![live, 0u32] };
        if let Some(b) = bind_id {
            bad.insert(bind_pos.min(bad.len()), b);
        }
        if let Some(q) = queued_ids.first() {
            // the id of a stream that is acknowledged but still waiting in the accept queue is in use as well
            bad.push(*q);
        }
        for id in bad {
            raw.send(&RefFrame::Connect { id, rwnd: 3, port: 1, host: b"s9.".to_vec() }).await;
            replies.push((id, raw.drain().await));
        }
        // the existing flow still works in both directions
        raw.send(&RefFrame::Push { id: live, data: b"hello".to_vec() }).await;
        let mut buf = [0u8; 16];
        let n = tokio::time::timeout(Duration::from_millis(5), tokio::io::AsyncReadExt::read(&mut s, &mut buf)).await;
        let read_ok = matches!(n, Ok(Ok(5))) && &buf[..5] == b"hello";
        let wr = tokio::time::timeout(Duration::from_millis(5), s.write(b"yo")).await;
        let after = raw.drain().await;
        let got_push = after.iter().any(|g| matches!(g, Got::Frame(RefFrame::Push { id, data }) if *id == live && data == b"yo"));
        // nothing must have been handed to the application for the rejected Connects (the streams queued before them are)
        let mut queued_streams = Vec::new();
        for _ in 0..queued_ids.len() {
            if let Ok(Ok(qs)) = tokio::time::timeout(Duration::from_millis(5), e0.mux.accept_stream_channel()).await {
                queued_streams.push(qs);
            }
        }
        let queued_ok = queued_streams.len() == queued_ids.len();
        let extra = tokio::time::timeout(Duration::from_millis(2), e0.mux.accept_stream_channel()).await.is_ok();
        // the bind request is still answerable: the peer accepts it now
        let mut bind_res = None;
        if let (Some(b), Some(h)) = (bind_id, pend_bind) {
            raw.send(&RefFrame::Finish { id: b }).await;
            bind_res = Some(match tokio::time::timeout(Duration::from_millis(5), h).await {
                Ok(Ok(Some(Ok(true)))) => "ok:true".to_string(),
                Ok(Ok(Some(Ok(false)))) => "ok:false".to_string(),
                Ok(Ok(Some(Err(e)))) => format!("err:{e}"),
                Ok(_) => "task-failed".to_string(),
                Err(_) => "pending".to_string(),
            });
        }
        drop(s);
        drop(queued_streams);
        drop(e0.mux);
        raw.drain().await;
        raw.close().await;
        e0.task.await.ok();
        (acked, replies, read_ok, matches!(wr, Ok(Ok(2))), got_push, extra, bind_id, bind_res, queued_ok)
    });
    let log = sh.take_log();
    match end {
        sim::RunEnd::Finished((acked, replies, read_ok, wrote, got_push, extra, bind_id, bind_res, queued_ok)) => {
            st.target("raw_bad_connect_runs", 1);
            if queue_full {
                st.target("bad_connects_at_a_full_accept_queue", 1);
                if !queued_ok {
                    viol(st, format!("queued-stream-not-delivered|{kind}"), format!("{qn} streams had been acknowledged and were waiting in the accept queue; the application did not get all of them after the rejected Connects"), kind, seed, &log);
                }
            }
            if with_bind {
                match (&bind_id, &bind_res) {
                    (Some(_), Some(r)) => {
                        st.target("connect_on_pending_bind_id_runs", 1);
                        if r != "ok:true" {
                            viol(st, format!("pending-bind-disturbed|{r}|{kind}"), format!("a Connect carrying the id of an unanswered bind request was received and refused; the bind request, then accepted by the peer, resolved {r} instead of Ok(true)"), kind, seed, &log);
                        }
                    }
                    _ => st.inconclusive.push(format!("c07 {kind} {seed}: Bind frame not seen")),
                }
            }
            if !acked.iter().any(|g| matches!(g, Got::Frame(RefFrame::Ack { id, .. }) if *id == live)) {
                viol(st, format!("no-handshake-ack|{kind}"), "a valid Connect was not acknowledged".into(), kind, seed, &log);
            }
            for (id, rep) in &replies {
                let resets = rep.iter().filter(|g| matches!(g, Got::Frame(RefFrame::Reset { id: i }) if i == id)).count();
                let acks = rep.iter().filter(|g| matches!(g, Got::Frame(RefFrame::Ack { id: i, .. }) if i == id)).count();
                let which = if *id == 0 { "zero" } else if Some(*id) == bind_id { "in-use-by-bind" } else if *id != live { "in-use-by-queued-stream" } else { "in-use" };
                let which = if queue_full { format!("{which}|accept-queue-full") } else { which.to_string() };
                if resets != 1 || acks != 0 {
                    viol(st, format!("bad-connect-answer|{which}|{kind}"), format!("Connect with {which} id {id:x} was answered by {resets} Reset and {acks} Acknowledge frames (expected exactly one Reset): {rep:?}"), kind, seed, &log);
                }
            }
            if !read_ok || !wrote || !got_push {
                viol(st, format!("existing-flow-disturbed|{kind}"), format!("after the rejected Connects the existing flow {live:x}: read_ok={read_ok} write_ok={wrote} push_seen_by_peer={got_push}"), kind, seed, &log);
            }
            if extra {
                viol(st, format!("rejected-connect-delivered|{kind}"), "a rejected Connect still produced a stream for the application".into(), kind, seed, &log);
            }
            st.nontrivial(mix(sh.hash(), u64::from(live)));
        }
        sim::RunEnd::Stalled => viol(st, format!("stall|{kind}"), "stalled".into(), kind, seed, &log),
        sim::RunEnd::Panicked(m) => st.inconclusive.push(format!("harness panic in c07 {kind}: {m}")),
    }
    let an = monitors::analyse(&log, &[Fam::Panic], &Meta::default());
    for f in an.findings {
        viol(st, format!("{}|{kind}", f.sig), f.detail, kind, seed, &log);
    }
}

/// Streams the requester was given are streams the acceptor gets, even when it only asks after the tunnel has ended:
/// acknowledged streams wait in the accept queue with their data.
fn late_accept_case(st: &mut Stats, seed: u64) {
    use tokio::io::AsyncReadExt;
    st.evaluations += 1;
    st.engine("SIM", 1);
    let mut rng = Rng64::new(mix(seed, 0x1A7E));
    let n = rng.range(1, 3) as usize;
    let cfg = [EpCfg { rwnd: 8, ..EpCfg::default() }, EpCfg { rwnd: 8, stream_buf: *rng.pick(&[4usize, 16]), ..EpCfg::default() }];
    let how = *rng.pick(&["requester-dropped", "acceptor-side-cut"]);
    let sh = sim::Shared::new(mix(seed, 15), rng.below(4) as u8);
    let kind = "late-accept";
    let cfg2 = cfg.clone();
    let end = sim::run(&sh, move |sh| async move {
        let ([e0, e1], _net) = wl::connect(&sh, [&cfg2[0], &cfg2[1]], [0, 0], [None, None], seed, true);
        let mut given = 0usize;
        for i in 0..n {
            if let Ok(mut s) = e0.mux.new_stream_channel(format!("late{i}.").as_bytes(), 40 + i as u16).await {
                given += 1;
                s.write_all(format!("data-{i}").as_bytes()).await.ok();
                s.shutdown().await.ok();
                // keep the requester's end until the tunnel is gone
                std::mem::forget(s);
            }
        }
        sim::quiesce().await;
        sh.api(0, 0, Api::MuxDrop);
        drop(e0.mux);
        e0.task.await.ok();
        let _ = how;
        e1.task.await.ok();
        sim::quiesce().await;
        // only now does the accepting application ask
        let mut got = Vec::new();
        for _ in 0..given {
            match tokio::time::timeout(Duration::from_millis(5), e1.mux.accept_stream_channel()).await {
                Ok(Ok(mut s)) => {
                    let mut data = Vec::new();
                    let rd = tokio::time::timeout(Duration::from_millis(5), s.read_to_end(&mut data)).await.is_ok();
                    got.push(format!("{}:{}:{}:{}", String::from_utf8_lossy(&s.dest_host), s.dest_port, String::from_utf8_lossy(&data), rd));
                }
                Ok(Err(e)) => got.push(format!("err:{}", wl::err_name(&e))),
                Err(_) => got.push("pending".into()),
            }
        }
        let after = match tokio::time::timeout(Duration::from_millis(5), e1.mux.accept_stream_channel()).await {
            Ok(Ok(_)) => "extra-stream".to_string(),
            Ok(Err(e)) => format!("err:{}", wl::err_name(&e)),
            Err(_) => "pending".into(),
        };
        drop(e1.mux);
        (given, got, after)
    });
    let log = sh.take_log();
    match end {
        sim::RunEnd::Finished((given, got, after)) => {
            st.target("late_accept_runs", 1);
            st.nontrivial(mix(sh.hash(), given as u64));
            let want: Vec<String> = (0..given).map(|i| format!("late{i}.:{}:data-{i}:true", 40 + i)).collect();
            if got != want {
                viol(st, format!("acknowledged-stream-not-delivered|{kind}"), format!("the requester was given {given} streams (each written to and finished) before the tunnel ended; the accepting application, asking afterwards, got {got:?} instead of {want:?}"), kind, seed, &log);
            }
            if after != "err:Closed" {
                viol(st, format!("accept-after-end|{after}|{kind}"), format!("after the queued streams were handed out accept_stream_channel returned {after} instead of Closed"), kind, seed, &log);
            }
        }
        sim::RunEnd::Stalled => viol(st, format!("stall|{kind}"), "stalled".into(), kind, seed, &log),
        sim::RunEnd::Panicked(m) => st.inconclusive.push(format!("harness panic in c07 {kind}: {m}")),
    }
}

/// A stream request whose future the application drops while its Connect is unanswered (a time-out around the open, a cancelled
/// task), and a peer that then acknowledges it: the peer holds a stream nobody has on this side. It has to learn that - by a
/// Reset of the flow, or because the connection ends - before things go quiet; it must not be left with a stream that will never
/// carry anything nor end.
fn cancelled_open_case(st: &mut Stats, seed: u64) {
    st.evaluations += 1;
    st.engine("SIM", 1);
    let mut rng = Rng64::new(mix(seed, 0xCA7));
    let cfg = EpCfg { rwnd: *rng.pick(&[2u32, 4, 16]), thr: 1, ..EpCfg::default() };
    let sh = sim::Shared::new(mix(seed, 4), rng.below(4) as u8);
    let kind = "cancelled-open";
    let answer_reset = rng.chance(1, 4);
    let end = sim::run(&sh, move |sh| async move {
        let (w0, w1, _net) = memws::pair(&sh, [0, 0], [None, None], true);
        let e0 = wl::endpoint(&sh, 0, &cfg, w0, seed);
        let mut raw = Raw::new(w1);
        let m = e0.mux.clone();
        let opener = sim::spawn(&sh, 7101, async move { m.new_stream_channel(b"c7.", 9).await.map(|_| ()).map_err(|e| wl::err_name(&e)) });
        // wait for the Connect, then abandon the request
        let mut id = None;
        for g in raw.drain().await {
            if let Got::Frame(RefFrame::Connect { id: i, .. }) = g {
                id = Some(i);
            }
        }
        opener.abort();
        opener.await.ok();
        let Some(id) = id else { return (None, vec![], false) };
        // the peer answers only now
        if answer_reset {
            raw.send(&RefFrame::Reset { id }).await;
        } else {
            raw.send(&RefFrame::Ack { id, n: 4 }).await;
        }
        let after = raw.drain().await;
        // is the endpoint still usable, or has the connection ended?
        let ended = after.iter().any(|g| matches!(g, Got::Close | Got::End | Got::Err));
        drop(e0.mux);
        raw.drain().await;
        raw.close().await;
        e0.task.await.ok();
        (Some(id), after, ended)
    });
    let log = sh.take_log();
    match end {
        sim::RunEnd::Finished((Some(id), after, ended)) => {
            st.target("cancelled_open_runs", 1);
            st.nontrivial(mix(sh.hash(), u64::from(id)));
            if !answer_reset {
                let told = after.iter().any(|g| matches!(g, Got::Frame(RefFrame::Reset { id: i }) if *i == id));
                st.count(if ended { "cancelled_open_connection_ended" } else if told { "cancelled_open_reset_sent" } else { "cancelled_open_silent" }, 1);
                if !told && !ended {
                    viol(st, format!("acknowledged-stream-abandoned-silently|{kind}"), format!("the application dropped its stream request; the peer then acknowledged flow {id:x}: it received neither a Reset of that flow nor the end of the connection - it keeps a stream that exists on its side only (frames seen afterwards: {after:?})"), kind, seed, &log);
                }
            }
        }
        sim::RunEnd::Finished((None, _, _)) => st.inconclusive.push(format!("c07 {kind} {seed}: Connect frame not seen")),
        sim::RunEnd::Stalled => viol(st, format!("stall|{kind}"), "stalled".into(), kind, seed, &log),
        sim::RunEnd::Panicked(m) => st.inconclusive.push(format!("harness panic in c07 {kind}: {m}")),
    }
    let an = monitors::analyse(&log, &[Fam::Panic], &Meta::default());
    for f in an.findings {
        viol(st, format!("{}|{kind}", f.sig), f.detail, kind, seed, &log);
    }
}

pub fn run(p: &Params) -> (Stats, &'static str) {
    std::panic::set_hook(Box::new(|_| {}));
    sim::install_observer();
    let mut st = Stats::new();
    let base = p.shard_seed("C07");
    if p.get("engine") == Some("thr") {
        // simultaneous opens with identical ids on real threads, with the id-selection window widened
        trace_delay::install();
        let n = p.share(if p.tier_thorough { 40_000 } else { 1200 });
        for i in 0..n {
            scripted_case_on(&mut st, mix(base, 0x7_0000 + i), true, true);
            if st.too_many_violations() || st.counters.get("thr_timeouts").copied().unwrap_or(0) >= 3 {
                break;
            }
        }
        st.target("delays_injected_in_id_selection_window", trace_delay::HITS.load(std::sync::atomic::Ordering::Relaxed));
        return (st, SPEC.rule);
    }
    let n = p.share(if p.tier_thorough { SPEC.runs_thorough } else { SPEC.runs_quick });
    for i in 0..n {
        let seed = mix(base, i);
        if i % 16 == 1 {
            cancelled_open_case(&mut st, seed);
            if st.too_many_violations() {
                break;
            }
            continue;
        }
        if i % 16 == 9 {
            late_accept_case(&mut st, seed);
            if st.too_many_violations() {
                break;
            }
            continue;
        }
        match i % 8 {
            0..=2 => general_case(&mut st, seed),
            3 => scripted_case(&mut st, seed, false),
            4 | 5 => scripted_case(&mut st, seed, true),
            6 => raw_reset_case(&mut st, seed),
            _ => raw_bad_connect_case(&mut st, seed),
        }
        if st.too_many_violations() {
            break;
        }
    }
    (st, SPEC.rule)
}


/// Debug helper: one collision run on threads, printing wire and API events.
pub fn debug_thr(seed: u64) {
    std::panic::set_hook(Box::new(|_| {}));
    sim::install_observer();
    trace_delay::install();
    let mut st = Stats::new();
    scripted_case_on(&mut st, seed, true, true);
    for v in &st.violations {
        println!("VIOL {} :: {}", v.signature, v.detail);
        if let Some(t) = v.replay.get("trace_tail").and_then(|t| t.as_array()) {
            for l in t {
                let l = l.as_str().unwrap_or("");
                if !l.contains("hook") {
                    println!("{l}");
                }
            }
        }
        break;
    }
}
