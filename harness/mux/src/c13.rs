//! C13 — the stream-to-socket bridge (`into_copy_bidirectional_with_buf`).
//! SIM engine: a real endpoint pair; on one end the logical stream is bridged
//! with a scripted local byte stream (`ScriptedIo`: AsyncBufRead + AsyncWrite
//! whose every call follows a seeded script), on the other end a normal
//! application actor writes / finishes / aborts / starves the bridge of credit.

use crate::monitors::{self, Fam, Meta};
use crate::sim::{self, Api, Sh};
use crate::streams::{self, Profile};
use crate::util::{Params, Rng64, Stats, Violation, mix, prf_mismatch, prf_vec};
use crate::wl::{self, RStyle, SidePlan, StreamPlan, WOp};
use serde_json::json;
use std::collections::VecDeque;
use std::io;
use std::pin::Pin;
use std::sync::{Arc, Mutex};
use std::task::{Context, Poll, Waker};
use std::time::Duration;
use tokio::io::{AsyncBufRead, AsyncRead, AsyncWrite, ReadBuf};

const RULE: &str = "one case = one execution of MuxStream::into_copy_bidirectional_with_buf over a scripted local byte stream (chunks of 1..8 KiB, Pending later woken by a controller, Pending never woken, partial writes, a shutdown that needs 1-4 polls (self-woken or woken later), a flush that needs several polls or never completes, EOF at any position, \
an error at any position of read / write / flush / shutdown, in particular Ready(Err) right after Ready(Ok(data))) against a far application on a real endpoint pair that writes and finishes, aborts mid-transfer, or never reads (rwnd 1-4). \
Oracle: the local side received exactly the far application's bytes and the far application exactly the script's bytes (position-addressed), every Push took one unit of credit (credit monitor attached), EOF on one side becomes a half-close on the other while the opposite direction still delivers, \
the bridge resolves Ok((read, written)) with the true counts once both directions ended, and after an injected error it resolves with that error before the second quiescent point. Non-trivial = bytes crossed the bridge in at least one direction";

#[derive(Clone, Debug, PartialEq)]
enum REv {
    Data(usize),
    PendWake(u64),
    PendForever,
    Eof,
    Err(io::ErrorKind),
}

#[derive(Clone, Debug, PartialEq)]
enum WEv {
    Accept(usize),
    PendWake(u64),
    Err(io::ErrorKind),
}

struct IoState {
    rscript: VecDeque<REv>,
    rbuf: Vec<u8>,
    roff: u64,
    rkey: u64,
    r_total_served: u64,
    r_eof_served: bool,
    r_waker: Option<Waker>,
    r_wake_at: Option<tokio::time::Instant>,
    wscript: VecDeque<WEv>,
    w_waker: Option<Waker>,
    w_wake_at: Option<tokio::time::Instant>,
    received: Vec<u8>,
    flush_err: Option<io::ErrorKind>,
    /// 0 = flush completes at once, 1 = needs `flush_pendings` more polls (self-woken), 2 = stays Pending for ever
    flush_mode: u8,
    flush_pendings: u32,
    flush_polls: u64,
    shutdown_err: Option<io::ErrorKind>,
    shutdown_called: bool,
    /// poll_shutdown answers Pending this many more times before it completes (0 = completes at once); `s_delay_ms` > 0 = woken later by the controller
    shutdown_pendings: u32,
    s_delay_ms: u64,
    s_waker: Option<Waker>,
    s_wake_at: Option<tokio::time::Instant>,
    shutdown_completed: bool,
    /// poll_shutdown calls that came after the half-close had completed
    shutdown_repeated: u32,
    /// (what, virtual time) of the first injected error actually returned to the bridge
    error_returned: Option<(String, io::ErrorKind)>,
    calls: u64,
    /// event log of the run, for the "local EOF served" mark
    note: Option<Sh>,
}

struct ScriptedIo(Arc<Mutex<IoState>>, Vec<u8>);

impl Clone for ScriptedIo {
    fn clone(&self) -> Self {
        Self(self.0.clone(), Vec::new())
    }
}

impl ScriptedIo {
    fn err(st: &mut IoState, what: &str, k: io::ErrorKind) -> io::Error {
        if st.error_returned.is_none() {
            st.error_returned = Some((what.to_string(), k));
        }
        io::Error::new(k, format!("injected {what} error"))
    }
}

impl AsyncRead for ScriptedIo {
    fn poll_read(self: Pin<&mut Self>, cx: &mut Context<'_>, buf: &mut ReadBuf<'_>) -> Poll<io::Result<()>> {
        // only used through AsyncBufRead by the bridge
        let this = self.get_mut();
        match Pin::new(&mut *this).poll_fill_buf(cx) {
            Poll::Pending => Poll::Pending,
            Poll::Ready(Err(e)) => Poll::Ready(Err(e)),
            Poll::Ready(Ok(d)) => {
                let n = d.len().min(buf.remaining());
                buf.put_slice(&d[..n]);
                Pin::new(&mut *this).consume(n);
                Poll::Ready(Ok(()))
            }
        }
    }
}

impl AsyncBufRead for ScriptedIo {
    fn poll_fill_buf(self: Pin<&mut Self>, cx: &mut Context<'_>) -> Poll<io::Result<&[u8]>> {
        let this = self.get_mut();
        let mut st = this.0.lock().unwrap();
        st.calls += 1;
        if st.rbuf.is_empty() {
            if st.r_wake_at.is_some() {
                // still waiting for the controller
                st.r_waker = Some(cx.waker().clone());
                return Poll::Pending;
            }
            match st.rscript.pop_front() {
                None | Some(REv::Eof) => {
                    st.rscript.clear();
                    if !st.r_eof_served {
                        if let Some(sh) = &st.note {
                            sh.api(0, 0, Api::Note("local-eof-served".into()));
                        }
                    }
                    st.r_eof_served = true;
                }
                Some(REv::Data(n)) => {
                    let off = st.roff;
                    st.rbuf = prf_vec(st.rkey, off, n.max(1));
                    st.roff += n.max(1) as u64;
                }
                Some(REv::PendWake(ms)) => {
                    st.r_wake_at = Some(tokio::time::Instant::now() + Duration::from_millis(ms));
                    st.r_waker = Some(cx.waker().clone());
                    return Poll::Pending;
                }
                Some(REv::PendForever) => {
                    // an idle socket: the waker is registered but nothing ever arrives
                    st.rscript.push_front(REv::PendForever);
                    st.r_waker = Some(cx.waker().clone());
                    return Poll::Pending;
                }
                Some(REv::Err(k)) => {
                    // one-shot, like a socket error; afterwards the stream is at EOF
                    st.rscript.clear();
                    st.rscript.push_back(REv::Eof);
                    return Poll::Ready(Err(Self::err(&mut st, "read", k)));
                }
            }
        }
        // hand out a slice owned by this handle (the shared state sits behind a mutex)
        let data = st.rbuf.clone();
        drop(st);
        this.1 = data;
        Poll::Ready(Ok(&this.1[..]))
    }

    fn consume(self: Pin<&mut Self>, amt: usize) {
        let mut st = self.0.lock().unwrap();
        let amt = amt.min(st.rbuf.len());
        st.rbuf.drain(..amt);
        st.r_total_served += amt as u64;
    }
}

impl AsyncWrite for ScriptedIo {
    fn poll_write(self: Pin<&mut Self>, cx: &mut Context<'_>, buf: &[u8]) -> Poll<io::Result<usize>> {
        let mut st = self.0.lock().unwrap();
        st.calls += 1;
        if st.w_wake_at.is_some() {
            st.w_waker = Some(cx.waker().clone());
            return Poll::Pending;
        }
        match st.wscript.pop_front() {
            None => {
                st.received.extend_from_slice(buf);
                Poll::Ready(Ok(buf.len()))
            }
            Some(WEv::Accept(n)) => {
                let n = n.max(1).min(buf.len());
                st.received.extend_from_slice(&buf[..n]);
                Poll::Ready(Ok(n))
            }
            Some(WEv::PendWake(ms)) => {
                st.w_wake_at = Some(tokio::time::Instant::now() + Duration::from_millis(ms));
                st.w_waker = Some(cx.waker().clone());
                Poll::Pending
            }
            Some(WEv::Err(k)) => Poll::Ready(Err(Self::err(&mut st, "write", k))),
        }
    }
    fn poll_flush(self: Pin<&mut Self>, cx: &mut Context<'_>) -> Poll<io::Result<()>> {
        let mut st = self.0.lock().unwrap();
        st.flush_polls += 1;
        if let Some(k) = st.flush_err.take() {
            return Poll::Ready(Err(Self::err(&mut st, "flush", k)));
        }
        // a buffered local side (BufWriter, TLS): the flush may need several polls, or be stuck behind a peer that does not read
        match st.flush_mode {
            1 => {
                if st.flush_pendings > 0 {
                    st.flush_pendings -= 1;
                    cx.waker().wake_by_ref();
                    return Poll::Pending;
                }
            }
            2 => return Poll::Pending, // never completes, never wakes
            _ => {}
        }
        Poll::Ready(Ok(()))
    }
    fn poll_shutdown(self: Pin<&mut Self>, cx: &mut Context<'_>) -> Poll<io::Result<()>> {
        let mut st = self.0.lock().unwrap();
        st.shutdown_called = true;
        if st.shutdown_completed {
            // a local stream on which a completed half-close cannot be repeated (some transports answer NotConnected): a bridge
            // that keeps its own state never asks twice
            st.shutdown_repeated += 1;
            return Poll::Ready(Err(io::Error::new(io::ErrorKind::NotConnected, "shutdown after the half-close had completed")));
        }
        if st.s_wake_at.is_some() {
            st.s_waker = Some(cx.waker().clone());
            return Poll::Pending;
        }
        if st.shutdown_pendings > 0 {
            // a local side that needs several polls to half-close (buffered writer flushing, TLS close_notify ...)
            st.shutdown_pendings -= 1;
            if st.s_delay_ms > 0 {
                st.s_wake_at = Some(tokio::time::Instant::now() + Duration::from_millis(st.s_delay_ms));
                st.s_waker = Some(cx.waker().clone());
            } else {
                cx.waker().wake_by_ref();
            }
            return Poll::Pending;
        }
        if let Some(k) = st.shutdown_err.take() {
            return Poll::Ready(Err(Self::err(&mut st, "shutdown", k)));
        }
        st.shutdown_completed = true;
        Poll::Ready(Ok(()))
    }
}

/// Wakes the scripted stream when a "pending, later woken" deadline passes.
async fn controller(io: ScriptedIo) {
    loop {
        let (next, done) = {
            let st = io.0.lock().unwrap();
            let n = [st.r_wake_at, st.w_wake_at, st.s_wake_at].into_iter().flatten().min();
            (n, false)
        };
        let _ = done;
        match next {
            Some(t) => tokio::time::sleep_until(t).await,
            None => tokio::time::sleep(Duration::from_millis(1)).await,
        }
        let mut st = io.0.lock().unwrap();
        let now = tokio::time::Instant::now();
        // a fired deadline is cleared here, so that the controller never spins on a deadline nobody looks at
        if st.r_wake_at.is_some_and(|t| t <= now) {
            st.r_wake_at = None;
            if let Some(w) = st.r_waker.take() {
                w.wake();
            }
        }
        if st.w_wake_at.is_some_and(|t| t <= now) {
            st.w_wake_at = None;
            if let Some(w) = st.w_waker.take() {
                w.wake();
            }
        }
        if st.s_wake_at.is_some_and(|t| t <= now) {
            st.s_wake_at = None;
            if let Some(w) = st.s_waker.take() {
                w.wake();
            }
        }
    }
}

const KINDS: [io::ErrorKind; 4] = [io::ErrorKind::ConnectionReset, io::ErrorKind::BrokenPipe, io::ErrorKind::TimedOut, io::ErrorKind::Other];

#[derive(Clone, Debug)]
struct Case {
    far: &'static str, // "finish" | "abort" | "starve"
    local_end: &'static str, // "eof" | "idle" | "error"
    err_site: Option<&'static str>,
}

fn one(st: &mut Stats, seed: u64) {
    st.evaluations += 1;
    st.engine("SIM", 1);
    let mut rng = Rng64::new(mix(seed, 0x13));
    let mut cfg = [streams::gen_cfg(&mut rng, Profile::Credit), streams::gen_cfg(&mut rng, Profile::Credit)];
    cfg[0].rwnd = *rng.pick(&[1u32, 2, 4, 16]);
    cfg[1].rwnd = *rng.pick(&[1u32, 2, 3, 4, 16]);
    let far = *rng.pick(&["finish", "finish", "finish", "abort", "starve"]);
    let err_site: Option<&'static str> = if rng.chance(2, 5) { Some(*rng.pick(&["read", "read-after-data", "write", "flush", "shutdown"])) } else { None };
    let local_end = if err_site.is_some_and(|s| s.starts_with("read")) { "error" } else if rng.chance(1, 6) { "idle" } else { "eof" };
    let case = Case { far, local_end, err_site };
    let kind = *rng.pick(&KINDS);
    let sid = 1u32;
    // local read script
    let mut rscript = VecDeque::new();
    // one case in five: a local side with a lot of data ready at once (a fast producer, a reader that was away): many large chunks
    // with hardly a Pending between them, so that one poll of the bridge sees far more than any internal buffer or frame size
    let burst = rng.chance(1, 5);
    let n_chunks = if burst { rng.range(4, 24) } else { rng.range(0, 10) };
    let err_pos = rng.below(n_chunks + 1);
    for i in 0..n_chunks {
        if case.err_site == Some("read") && i == err_pos {
            rscript.push_back(REv::Err(kind));
            break;
        }
        match rng.below(if burst { 24 } else { 6 }) {
            0 => rscript.push_back(REv::PendWake(rng.range(1, 6))),
            _ => {}
        }
        if burst {
            rscript.push_back(REv::Data(*rng.pick(&[8192usize, 8192, 8192, 16_384, 65_536, 100_000])));
        } else {
            rscript.push_back(REv::Data(*rng.pick(&[1usize, 2, 100, 1024, 8192])));
        }
        if case.err_site == Some("read-after-data") && i == err_pos.min(n_chunks - 1) {
            // Ready(Err) immediately after Ready(Ok(data)): the bridge's coalescing loop sees it
            rscript.push_back(REv::Err(kind));
            break;
        }
    }
    let has_err_in_r = rscript.iter().any(|e| matches!(e, REv::Err(_)));
    if !has_err_in_r {
        match case.local_end {
            "idle" => rscript.push_back(REv::PendForever),
            _ => rscript.push_back(REv::Eof),
        }
    }
    let local_total: u64 = rscript.iter().map(|e| if let REv::Data(n) = e { *n as u64 } else { 0 }).sum();
    // local write script
    let mut wscript = VecDeque::new();
    for _ in 0..rng.range(0, 8) {
        match rng.below(5) {
            0 => wscript.push_back(WEv::PendWake(rng.range(1, 5))),
            1 => wscript.push_back(WEv::Accept(1)),
            2 => wscript.push_back(WEv::Accept(rng.range(1, 40) as usize)),
            _ => wscript.push_back(WEv::Accept(100_000)),
        }
    }
    if case.err_site == Some("write") {
        let pos = rng.below(wscript.len() as u64 + 1) as usize;
        wscript.insert(pos, WEv::Err(kind));
    }
    // far application plan (side 1)
    let mut far_plan = SidePlan::quiet();
    far_plan.writes = (0..rng.range(0, 12)).map(|_| match rng.below(6) {
        0 => WOp::Sleep(rng.range(1, 4)),
        // (a zero-length write is legal and travels as an empty Push frame: nothing for the local side, but nothing may stop either)
        _ => WOp::Write(*rng.pick(&[1usize, 7, 300, 5000, 1, 7, 300, 5000, 0])),
    }).collect();
    far_plan.style = if rng.chance(1, 2) { RStyle::Read(4096) } else { RStyle::FillBuf(0) };
    match case.far {
        "abort" => {
            far_plan.shutdown = false;
            far_plan.read_limit = Some(rng.below(local_total + 1));
        }
        "starve" => {
            far_plan.read_limit = Some(0);
            far_plan.hold_ms = 1_000;
            far_plan.shutdown = true;
        }
        _ => {}
    }
    let far_total = far_plan.total_bytes();
    // (an error injected at flush must be reachable: no stuck flush then)
    let flush_mode: u8 = if case.err_site == Some("flush") { 0 } else { *rng.pick(&[0u8, 0, 0, 1, 1, 2]) };
    let shutdown_pendings = if rng.chance(1, 3) { rng.range(1, 4) as u32 } else { 0 };
    let s_delay_ms = if rng.chance(1, 2) { rng.range(1, 3) } else { 0 };
    let opener = rng.below(2) as u8;
    let plan = StreamPlan { sid, opener, open_delay: 0, sides: [SidePlan::quiet(), far_plan.clone()], awaited: [true, true], host_extra: vec![], port: 13 };
    let io = ScriptedIo(Arc::new(Mutex::new(IoState {
        rscript,
        rbuf: vec![],
        roff: 0,
        rkey: wl::data_key(seed, sid, 0),
        r_total_served: 0,
        r_eof_served: false,
        r_waker: None,
        r_wake_at: None,
        wscript,
        w_waker: None,
        w_wake_at: None,
        received: vec![],
        flush_err: if case.err_site == Some("flush") { Some(kind) } else { None },
        flush_mode,
        flush_pendings: 3,
        flush_polls: 0,
        shutdown_err: if case.err_site == Some("shutdown") { Some(kind) } else { None },
        shutdown_called: false,
        shutdown_repeated: 0,
        shutdown_pendings,
        s_delay_ms,
        s_waker: None,
        s_wake_at: None,
        shutdown_completed: false,
        error_returned: None,
        calls: 0,
        note: None,
    })), Vec::new());
    let sh = sim::Shared::new(mix(seed, 10), rng.below(4) as u8);
    io.0.lock().unwrap().note = Some(sh.clone());
    let caps = [*rng.pick(&[1usize, 2, 0]), *rng.pick(&[1usize, 2, 0])];
    let (cfg2, plan2, io2) = (cfg.clone(), plan.clone(), io.clone());
    let end = sim::run(&sh, move |sh: Sh| async move {
        let ([e0, e1], _net) = wl::connect(&sh, [&cfg2[0], &cfg2[1]], caps, [None, None], seed, true);
        let ctl = tokio::spawn(controller(io2.clone()));
        // far side
        let far_task = if plan2.opener == 1 {
            sim::spawn(&sh, 5001, wl::open_and_run(sh.clone(), e1.mux.clone(), 1, seed, plan2.clone()))
        } else {
            let (sh2, m, pl) = (sh.clone(), e1.mux.clone(), Arc::new(vec![plan2.clone()]));
            sim::spawn(&sh, 5001, async move {
                let hs = wl::acceptor(sh2, m, 1, seed, pl, 1, 3000).await;
                for (_, _, h) in hs {
                    h.await.ok();
                }
            })
        };
        // bridged side
        let stream = if plan2.opener == 0 {
            sh.api(0, sid, Api::OpenCall);
            let s = e0.mux.new_stream_channel(&wl::stream_host(sid, &[]), 13).await.expect("open");
            wl::log_stream(&sh, 0, sid, &s, true, true);
            s
        } else {
            let s = e0.mux.accept_stream_channel().await.expect("accept");
            wl::log_stream(&sh, 0, sid, &s, false, true);
            s
        };
        let bridge = sim::spawn(&sh, 6001, stream.into_copy_bidirectional_with_buf(io2.clone()));
        // wait for the bridge: after an injected error was returned it must resolve before the second quiescent point
        let mut rounds_after_error = 0;
        let mut verdict = "pending";
        for _ in 0..4000 {
            sim::quiesce().await;
            if bridge.is_finished() {
                verdict = "finished";
                break;
            }
            if io2.0.lock().unwrap().error_returned.is_some() {
                rounds_after_error += 1;
                if rounds_after_error >= 2 {
                    verdict = "error-not-prompt";
                    break;
                }
            }
        }
        let result = if bridge.is_finished() { bridge.await.ok().flatten() } else { bridge.abort(); None };
        // let the far side finish (it sees EOF / Reset once the bridge is gone)
        let far_done = tokio::time::timeout(Duration::from_secs(5), far_task).await.is_ok();
        sim::quiesce().await;
        ctl.abort();
        let (m0, t0, m1, t1) = (e0.mux, e0.task, e1.mux, e1.task);
        sh.api(0, 0, Api::MuxDrop);
        drop(m0);
        t0.await.ok();
        drop(m1);
        t1.await.ok();
        (verdict, result.map(|r| r.map_err(|e| e.kind())), far_done)
    });
    let log = sh.take_log();
    let ios = io.0.lock().unwrap();
    let replay = || json!({"kind": "c13", "run_seed": seed, "case": format!("{case:?}"), "error_kind": format!("{kind:?}"), "cfg": [cfg[0].short(), cfg[1].short()],
        "local_total": local_total, "far_total": far_total, "local_received": ios.received.len(), "error_returned": format!("{:?}", ios.error_returned), "trace_tail": sim::render(&log, 60)});
    let mut fail = |st: &mut Stats, sig: String, detail: String| st.violation(Violation { signature: sig, detail: format!("{detail} [{case:?}]"), replay: replay() });
    st.cell("far_behaviour", case.far);
    st.cell("local_end", case.local_end);
    st.cell("error_site", case.err_site.unwrap_or("none"));
    st.cell("local_flush", ["ready", "needs-several-polls", "pending-for-ever"][flush_mode as usize]);
    if flush_mode == 2 {
        st.target("runs_with_local_flush_stuck", 1);
    }
    if burst {
        st.target("runs_with_large_local_bursts", 1);
        if local_total > 65_536 {
            st.target("runs_with_more_than_64k_ready_at_once", 1);
        }
    }
    // data oracles (always)
    let far_key = wl::data_key(seed, sid, 1);
    if let Some(off) = prf_mismatch(far_key, 0, &ios.received) {
        fail(st, "local-received-wrong-bytes".into(), format!("the local side received a wrong byte at offset {off} (not the far application's data in order)"));
    }
    if ios.received.len() as u64 > far_total {
        fail(st, "local-received-too-much".into(), format!("the local side received {} bytes, the far application wrote {far_total}", ios.received.len()));
    }
    let meta = Meta { sim: true, abnormal_end: true, stream_is_bridge: true, dgram_cap: [16, 16], ..Meta::default() };
    let an = monitors::analyse(&log, &[Fam::Credit, Fam::Panic], &meta);
    for f in &an.findings {
        fail(st, format!("{}|bridge", f.sig), f.detail.clone());
    }
    // one unit of credit per frame sent, and a local EOF becomes a Finish at once (it needs no credit)
    // (keys are addresses and can be re-used by a stream allocated later: only events after the bridged stream exists count)
    let mine = log.iter().enumerate().find_map(|(i, r)| match &r.ev {
        sim::Ev::Api { ep: 0, op: Api::OpenRet { ok: true, key, flow, .. } | Api::Accepted { key, flow, .. }, .. } => Some((i, *key, *flow)),
        _ => None,
    });
    if let (Some((from, key0, flow0)), true) = (mine, matches!(end, sim::RunEnd::Finished(_))) {
        let taken = log[from..].iter().filter(|r| matches!(&r.ev, sim::Ev::Hook { key, kind: penguin_mux::verif::Kind::CreditTaken { .. }, .. } if *key == key0)).count();
        let pushes = log.iter().filter(|r| matches!(&r.ev, sim::Ev::Sent { ep: 0, m: sim::Wm::Push { id, .. } } if *id == flow0)).count();
        st.count("bridge_credit_units_taken", taken as u64);
        if taken != pushes && ios.error_returned.is_none() {
            fail(st, "credit-unit-without-frame".into(), format!("the bridge took {taken} units of send credit but {pushes} Push frames of its stream reached the wire (one unit per frame sent)"));
        }
        let reset_seen = log.iter().any(|r| matches!(&r.ev, sim::Ev::Sent { m: sim::Wm::Reset { id }, .. } if *id == flow0));
        let eof_at = log.iter().find_map(|r| match &r.ev {
            sim::Ev::Api { ep: 0, op: Api::Note(n), .. } if n == "local-eof-served" => Some(r.t),
            _ => None,
        });
        if let (Some(t_eof), false, true) = (eof_at, reset_seen, ios.error_returned.is_none()) {
            st.target("local_eof_served_runs", 1);
            let fin_at = log.iter().find_map(|r| match &r.ev {
                sim::Ev::Sent { ep: 0, m: sim::Wm::Finish { id } } if *id == flow0 => Some(r.t),
                _ => None,
            });
            let credit_was_zero = log[from..].iter().rev().find_map(|r| match &r.ev {
                sim::Ev::Hook { key, kind: penguin_mux::verif::Kind::CreditTaken { left }, .. } if *key == key0 && r.t <= t_eof => Some(*left == 0),
                _ => None,
            }).unwrap_or(false);
            if credit_was_zero {
                st.target("local_eof_with_credit_exhausted", 1);
            }
            match fin_at {
                Some(t) if t <= t_eof + 3_000 => {}
                other => fail(st, "finish-delayed-after-local-eof".into(), format!("the local side reached EOF at {t_eof} us but the Finish frame {} (half-close must not wait for credit or traffic)", other.map_or("was never sent".to_string(), |t| format!("was sent at {t} us")))),
            }
        }
    }
    // the far application's reads are PRF-checked by its actor
    for r in &log {
        if let sim::Ev::Api { ep: 1, op: Api::ReadRet { bad_at: Some(off), .. }, .. } = &r.ev {
            fail(st, "far-received-wrong-bytes".into(), format!("the far application read a wrong byte at offset {off} (not the local side's data in order)"));
            break;
        }
    }
    let far_got: u64 = log.iter().map(|r| if let sim::Ev::Api { ep: 1, op: Api::ReadRet { k, .. }, .. } = &r.ev { *k as u64 } else { 0 }).sum();
    let far_eof = log.iter().any(|r| matches!(&r.ev, sim::Ev::Api { ep: 1, op: Api::ReadRet { k: 0, .. }, .. }));
    match end {
        sim::RunEnd::Finished((verdict, result, far_done)) => {
            let err_ret = ios.error_returned.clone();
            if ios.received.len() + far_got as usize > 0 {
                st.nontrivial(mix(sh.hash(), far_got));
                st.target("bytes_bridged_runs", 1);
            }
            match (&err_ret, verdict) {
                (Some((what, k)), "error-not-prompt") => {
                    st.target("errors_injected", 1);
                    fail(st, format!("error-not-prompt|{what}"), format!("the local side's {what} returned {k:?} but the bridge had not resolved two quiescent points later (it waits for unrelated traffic or swallowed the error)"));
                }
                (Some((what, k)), "finished") => {
                    st.target("errors_injected", 1);
                    match &result {
                        Some(Err(got)) if got == k => {}
                        Some(Err(got)) if case.far == "abort" && *got == io::ErrorKind::BrokenPipe => {}
                        other => fail(st, format!("error-lost|{what}"), format!("the local side's {what} failed with {k:?} but the bridge resolved with {other:?}")),
                    }
                }
                (None, "finished") => {
                    match &result {
                        Some(Ok((r, w))) => {
                            st.target("bridges_completed_ok", 1);
                            if *r != ios.received.len() || *w as u64 != ios.r_total_served {
                                fail(st, "wrong-counts".into(), format!("the bridge resolved Ok(({r}, {w})) but {} bytes were written to the local side and {} bytes were taken from it", ios.received.len(), ios.r_total_served));
                            }
                            if case.far == "finish" {
                                if ios.received.len() as u64 != far_total {
                                    fail(st, "local-received-incomplete".into(), format!("the bridge completed Ok but the local side received {} of the {far_total} bytes the far application wrote before finishing", ios.received.len()));
                                }
                                if far_got != local_total || !far_eof {
                                    fail(st, "far-received-incomplete".into(), format!("the bridge completed Ok but the far application read {far_got} of {local_total} bytes (eof seen: {far_eof})"));
                                }
                                if !ios.shutdown_called {
                                    fail(st, "half-close-not-propagated".into(), "the far application finished but the local side was never shut down".into());
                                } else if !ios.shutdown_completed {
                                    fail(st, "completed-before-half-close-done".into(), format!("the bridge resolved Ok although the local side's shutdown had not completed yet (it answered Pending and still had {} more to go): the half-close was abandoned half-way", ios.shutdown_pendings));
                                }
                                if shutdown_pendings > 0 {
                                    st.target("bridges_completed_after_multi_poll_shutdown", 1);
                                }
                            }
                        }
                        Some(Err(k)) => {
                            // without an injected error only a far abort (Reset => BrokenPipe on the mux side) may fail the bridge
                            if !(case.far == "abort" && *k == io::ErrorKind::BrokenPipe) {
                                fail(st, format!("spurious-error|{k:?}"), format!("the bridge failed with {k:?} although no operation failed"));
                            }
                        }
                        None => {}
                    }
                }
                (None, _) => {
                    // still pending: legitimate only if a direction cannot end by construction
                    let legit = case.local_end == "idle" || case.far == "starve";
                    if !legit {
                        fail(st, "bridge-never-completed".into(), "both directions have ended (local EOF, far finished or aborted) but the bridge future never resolved".into());
                    } else {
                        st.count("legitimately_pending", 1);
                        // half-close must still have been propagated while the other direction is open
                        if case.far == "finish" && case.local_end == "idle" && (!ios.shutdown_completed || ios.received.len() as u64 != far_total) {
                            fail(st, "half-close-not-propagated".into(), format!("far application finished: local shutdown completed = {}, local received {} of {far_total}", ios.shutdown_completed, ios.received.len()));
                        }
                        if case.local_end == "eof" && case.far == "starve" {
                            // nothing to assert on the starved direction
                        }
                    }
                }
                _ => {}
            }
            let _ = far_done;
        }
        sim::RunEnd::Stalled => fail(st, "stall".into(), "the run stalled".into()),
        sim::RunEnd::Panicked(m) => st.inconclusive.push(format!("harness panic in c13: {m}")),
    }
    for (k, v) in &an.counters.c {
        st.count(k, *v);
    }
    st.count("scripted_io_calls", ios.calls);
    if st.samples.len() < 3 {
        st.sample(json!({"case": format!("{case:?}"), "local_bytes": local_total, "far_bytes": far_total, "local_received": ios.received.len(), "far_read": far_got}));
    }
}

pub fn run(p: &Params) -> (Stats, &'static str) {
    std::panic::set_hook(Box::new(|_| {}));
    sim::install_observer();
    let mut st = Stats::new();
    let base = p.shard_seed("C13");
    let n = p.share(if p.tier_thorough { 3_200_000 } else { 48_000 });
    // `--only credit` (job of C03: "one write consumes exactly one unit of credit" also holds for the frames the bridge sends):
    // the same executions, only the credit rules give verdicts
    let only_credit = p.get("only") == Some("credit");
    const CREDIT_SIGS: [&str; 8] = ["push-without-credit", "window-exceeded-on-wire", "window-overrun", "credit-overdraw", "ack-unconsumed", "credit-unit-without-frame", "write-credit-mismatch", "reset-of-live-flow"];
    for i in 0..n {
        one(&mut st, mix(base, i));
        if only_credit {
            st.violations.retain(|v| CREDIT_SIGS.iter().any(|c| v.signature.starts_with(c)));
        }
        if st.too_many_violations() {
            break;
        }
    }
    if only_credit {
        st.targeted.retain(|k, _| k == "bytes_bridged_runs" || k.starts_with("runs_with_"));
        let n = st.targeted.get("bytes_bridged_runs").copied().unwrap_or(0);
        st.targeted.remove("bytes_bridged_runs");
        st.target("bridge_runs_with_credit_accounting", n);
    }
    (st, RULE)
}
