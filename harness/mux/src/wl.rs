//! The general two-endpoint workload: real `Multiplexor`s over `MemWs`, stream
//! actors that read and write position-addressed data according to a seeded
//! plan, datagram actors, and the end-of-run protocol (quiescent probes, mux
//! drop, task return). All safety monitors attach to the log this produces.

use crate::memws::{self, FaultPlan, MemWs, NetRef};
use crate::sim::{self, Api, Ev, ScriptRng, Sh, VTime, WRes};
use crate::util::{Rng64, mix, prf_fill, prf_mismatch};
use bytes::Bytes;
use penguin_mux::config::Options;
use penguin_mux::timing::OptionalDuration;
use penguin_mux::{Datagram, Multiplexor, MuxStream};
use std::collections::VecDeque;
use std::future::Future;
use std::io::IoSlice;
use std::pin::Pin;
use std::sync::Arc;
use std::task::{Context, Poll};
use std::time::Duration;
use tokio::io::{AsyncBufRead, AsyncRead, AsyncWrite, ReadBuf};

pub type Mux = Multiplexor<ScriptRng>;

#[derive(Clone, Debug)]
pub struct EpCfg {
    pub rwnd: u32,
    pub thr: u32,
    pub stream_buf: usize,
    pub dgram_buf: usize,
    pub bind_buf: usize,
    pub retries: usize,
    /// (interval, timeout) seconds; `timeout_first` = builder order probe
    pub keepalive: Option<(u64, u64)>,
    pub keepalive_timeout_first: bool,
}

impl Default for EpCfg {
    fn default() -> Self {
        Self { rwnd: 4, thr: 2, stream_buf: 16, dgram_buf: 16, bind_buf: 0, retries: 3, keepalive: None, keepalive_timeout_first: false }
    }
}

impl EpCfg {
    pub fn options(&self) -> Options {
        let mut o = Options::new()
            .rwnd(self.rwnd)
            .default_rwnd_threshold(self.thr)
            .stream_buffer_size(self.stream_buf)
            .datagram_buffer_size(self.dgram_buf)
            .bind_buffer_size(self.bind_buf)
            .max_flow_id_retries(self.retries);
        if let Some((i, t)) = self.keepalive {
            let iv = if i == 0 { OptionalDuration::NONE } else { OptionalDuration::from(std::time::Duration::from_millis(i)) };
            let tv = if t == 0 { OptionalDuration::NONE } else { OptionalDuration::from(std::time::Duration::from_millis(t)) };
            o = if self.keepalive_timeout_first { o.keepalive_timeout(tv).keepalive_interval(iv) } else { o.keepalive_interval(iv).keepalive_timeout(tv) };
        }
        o
    }
    pub fn short(&self) -> String {
        format!("rwnd={} thr={} sbuf={} dbuf={}", self.rwnd, self.thr, self.stream_buf, self.dgram_buf)
    }
}

pub struct Endpoint {
    pub mux: Arc<Mux>,
    pub task: tokio::task::JoinHandle<Option<()>>,
    pub rng: ScriptRng,
}

/// Build the two endpoints and spawn their connection tasks (each wrapped in schedule jitter).
pub fn connect(sh: &Sh, cfg: [&EpCfg; 2], caps: [usize; 2], faults: [Option<FaultPlan>; 2], seed: u64, ws_jitter: bool) -> ([Endpoint; 2], NetRef) {
    let (w0, w1, net) = memws::pair(sh, caps, faults, ws_jitter);
    let e0 = endpoint(sh, 0, cfg[0], w0, seed);
    let e1 = endpoint(sh, 1, cfg[1], w1, seed);
    ([e0, e1], net)
}

pub fn endpoint(sh: &Sh, ep: u8, cfg: &EpCfg, ws: MemWs, seed: u64) -> Endpoint {
    let rng = ScriptRng::new(mix(seed, 0xF10 + u64::from(ep)));
    let (mux, taskdata) = Multiplexor::new_detailed::<MemWs, VTime>(ws, cfg.options(), rng.clone());
    let sh2 = sh.clone();
    let task = sim::spawn(sh, 1000 + u64::from(ep), async move {
        let r = taskdata.into_task().await;
        let res = match r {
            Ok(()) => "Ok".to_string(),
            Err(e) => format!("Err({})", err_name(&e)),
        };
        sh2.log(Ev::TaskRet { ep, res });
    });
    Endpoint { mux: Arc::new(mux), task, rng }
}

pub fn err_name(e: &penguin_mux::Error) -> String {
    use penguin_mux::Error as E;
    match e {
        E::SendStreamToClient => "SendStreamToClient".into(),
        E::Closed => "Closed".into(),
        E::PeerUnsupportedOperation => "PeerUnsupportedOperation".into(),
        E::UnsupportedOperation => "UnsupportedOperation".into(),
        E::FlowIdRejected => "FlowIdRejected".into(),
        E::KeepaliveTimeout => "KeepaliveTimeout".into(),
        E::WebSocket(_) => "WebSocket".into(),
        E::DatagramHostTooLong => "DatagramHostTooLong".into(),
        E::InvalidFrame(_) => "InvalidFrame".into(),
        E::TextMessage => "TextMessage".into(),
        E::ConnAckGone => "ConnAckGone".into(),
        E::ChannelClosed(_) => "ChannelClosed".into(),
        _ => "Other".into(),
    }
}

// ------------------------------------------------------------------ stream plans

#[derive(Clone, Debug)]
pub enum WOp {
    Write(usize),
    Vectored(Vec<usize>),
    Sleep(u64),
    Yield,
}

#[derive(Clone, Debug, PartialEq, Eq)]
pub enum RStyle {
    Read(usize),
    /// fill_buf + consume; 0 = consume all, 1 = one byte, 2 = half (at least one)
    FillBuf(u8),
}

#[derive(Clone, Debug)]
pub struct SidePlan {
    pub writes: Vec<WOp>,
    /// shut the write half down after the writes
    pub shutdown: bool,
    pub style: RStyle,
    /// read until EOF (`None`) or until this many bytes were read
    pub read_limit: Option<u64>,
    /// (after this many bytes, pause this many virtual ms)
    pub read_pauses: Vec<(u64, u64)>,
    /// wait this many virtual ms before the first read
    pub read_delay: u64,
    /// after a write fails with BrokenPipe, attempt one more write (must also fail)
    pub retry_after_broken: bool,
    /// try one write after the local shutdown (must fail with BrokenPipe)
    pub write_after_shutdown: bool,
    /// keep the stream for this many virtual ms after both halves are done, then drop it
    pub hold_ms: u64,
}

impl SidePlan {
    pub fn quiet() -> Self {
        Self { writes: vec![], shutdown: true, style: RStyle::Read(64), read_limit: None, read_pauses: vec![], read_delay: 0, retry_after_broken: false, write_after_shutdown: false, hold_ms: 0 }
    }
    pub fn total_bytes(&self) -> u64 {
        self.writes.iter().map(|w| match w {
            WOp::Write(n) => *n as u64,
            WOp::Vectored(v) => v.iter().sum::<usize>() as u64,
            _ => 0,
        }).sum()
    }
}

#[derive(Clone, Debug)]
pub struct StreamPlan {
    pub sid: u32,
    pub opener: u8,
    pub open_delay: u64,
    pub sides: [SidePlan; 2],
    /// the actor of side i is awaited by the scenario (false = may block forever by design)
    pub awaited: [bool; 2],
    pub host_extra: Vec<u8>,
    pub port: u16,
}

pub fn stream_host(sid: u32, extra: &[u8]) -> Vec<u8> {
    let mut h = format!("s{sid}.").into_bytes();
    h.extend_from_slice(extra);
    h
}

pub fn parse_sid(host: &[u8]) -> Option<u32> {
    if host.first() != Some(&b's') {
        return None;
    }
    let dot = host.iter().position(|b| *b == b'.')?;
    std::str::from_utf8(&host[1..dot]).ok()?.parse().ok()
}

pub fn data_key(seed: u64, sid: u32, from_ep: u8) -> u64 {
    mix(mix(seed, 0xDA7A), u64::from(sid) * 2 + u64::from(from_ep))
}

// ------------------------------------------------------------------ the stream actor

enum CurW {
    None,
    Single { buf: Vec<u8>, called: bool },
    Vect { bufs: Vec<Vec<u8>>, called: bool },
    Shutdown { called: bool },
    Sleep(Pin<Box<tokio::time::Sleep>>),
    Yield(bool),
    ExtraWrite { called: bool, why: &'static str },
}

pub struct StreamActor {
    stream: Option<MuxStream>,
    sh: Sh,
    ep: u8,
    sid: u32,
    wkey: u64,
    rkey: u64,
    plan: SidePlan,
    wq: VecDeque<WOp>,
    cur: CurW,
    w_done: bool,
    accepted: u64,
    shutdown_done: bool,
    broken: bool,
    r_done: bool,
    got: u64,
    r_sleep: Option<Pin<Box<tokio::time::Sleep>>>,
    pauses: VecDeque<(u64, u64)>,
    started_read: bool,
    hold: Option<Pin<Box<tokio::time::Sleep>>>,
    rng: Rng64,
}

impl StreamActor {
    pub fn new(stream: MuxStream, sh: &Sh, ep: u8, sid: u32, seed: u64, plan: SidePlan) -> Self {
        let wq = plan.writes.iter().cloned().collect();
        let pauses = plan.read_pauses.iter().copied().collect();
        Self {
            stream: Some(stream),
            sh: sh.clone(),
            ep,
            sid,
            wkey: data_key(seed, sid, ep),
            rkey: data_key(seed, sid, 1 - ep),
            plan,
            wq,
            cur: CurW::None,
            w_done: false,
            accepted: 0,
            shutdown_done: false,
            broken: false,
            r_done: false,
            got: 0,
            r_sleep: None,
            pauses,
            started_read: false,
            hold: None,
            rng: Rng64::new(mix(seed, u64::from(sid) * 4 + u64::from(ep) + 77)),
        }
    }

    fn api(&self, op: Api) {
        self.sh.api(self.ep, self.sid, op);
    }

    /// One writer step. Returns true if progress was made.
    fn poll_w(&mut self, cx: &mut Context<'_>) -> bool {
        if matches!(self.cur, CurW::None) {
            match self.wq.pop_front() {
                Some(WOp::Write(n)) => {
                    let mut buf = vec![0u8; n];
                    prf_fill(self.wkey, self.accepted, &mut buf);
                    self.cur = CurW::Single { buf, called: false };
                }
                Some(WOp::Vectored(sizes)) => {
                    let mut off = self.accepted;
                    let bufs = sizes.iter().map(|n| {
                        let mut b = vec![0u8; *n];
                        prf_fill(self.wkey, off, &mut b);
                        off += *n as u64;
                        b
                    }).collect();
                    self.cur = CurW::Vect { bufs, called: false };
                }
                Some(WOp::Sleep(ms)) => self.cur = CurW::Sleep(Box::pin(tokio::time::sleep(Duration::from_millis(ms)))),
                Some(WOp::Yield) => self.cur = CurW::Yield(false),
                None => {
                    if self.plan.shutdown && !self.shutdown_done && !self.broken {
                        self.cur = CurW::Shutdown { called: false };
                    } else if self.shutdown_done && self.plan.write_after_shutdown {
                        self.plan.write_after_shutdown = false;
                        self.cur = CurW::ExtraWrite { called: false, why: "after-shutdown" };
                    } else {
                        self.w_done = true;
                        return true;
                    }
                }
            }
        }
        let stream = self.stream.as_mut().expect("stream");
        let mut cur = std::mem::replace(&mut self.cur, CurW::None);
        let progressed = match &mut cur {
            CurW::None => false,
            CurW::Single { buf, called } => {
                if !*called {
                    *called = true;
                    self.sh.api(self.ep, self.sid, Api::WriteCall { n: buf.len(), vectored: false });
                }
                match Pin::new(&mut *stream).poll_write(cx, buf) {
                    Poll::Pending => false,
                    Poll::Ready(Ok(m)) => {
                        self.sh.api(self.ep, self.sid, Api::WriteRet { res: WRes::Ok(m) });
                        self.accepted += m as u64;
                        if m < buf.len() {
                            let rest = buf.split_off(m);
                            cur = CurW::Single { buf: rest, called: false };
                        } else {
                            cur = CurW::None;
                        }
                        true
                    }
                    Poll::Ready(Err(e)) => {
                        self.write_failed(&e);
                        cur = CurW::None;
                        true
                    }
                }
            }
            CurW::Vect { bufs, called } => {
                if !*called {
                    *called = true;
                    let n = bufs.iter().map(Vec::len).sum();
                    self.sh.api(self.ep, self.sid, Api::WriteCall { n, vectored: true });
                }
                let slices: Vec<IoSlice<'_>> = bufs.iter().map(|b| IoSlice::new(b)).collect();
                match Pin::new(&mut *stream).poll_write_vectored(cx, &slices) {
                    Poll::Pending => false,
                    Poll::Ready(Ok(m)) => {
                        self.sh.api(self.ep, self.sid, Api::WriteRet { res: WRes::Ok(m) });
                        self.accepted += m as u64;
                        let total: usize = bufs.iter().map(Vec::len).sum();
                        if m < total {
                            // continue with the remainder as a single buffer
                            let mut rest: Vec<u8> = bufs.concat();
                            rest.drain(..m);
                            cur = CurW::Single { buf: rest, called: false };
                        } else {
                            cur = CurW::None;
                        }
                        true
                    }
                    Poll::Ready(Err(e)) => {
                        self.write_failed(&e);
                        cur = CurW::None;
                        true
                    }
                }
            }
            CurW::Shutdown { called } => {
                if !*called {
                    *called = true;
                    self.sh.api(self.ep, self.sid, Api::ShutCall);
                }
                match Pin::new(&mut *stream).poll_shutdown(cx) {
                    Poll::Pending => false,
                    Poll::Ready(_) => {
                        self.sh.api(self.ep, self.sid, Api::ShutRet);
                        self.shutdown_done = true;
                        cur = CurW::None;
                        true
                    }
                }
            }
            CurW::Sleep(s) => {
                if s.as_mut().poll(cx).is_ready() {
                    cur = CurW::None;
                    true
                } else {
                    false
                }
            }
            CurW::Yield(done) => {
                if *done {
                    cur = CurW::None;
                    true
                } else {
                    *done = true;
                    cx.waker().wake_by_ref();
                    false
                }
            }
            CurW::ExtraWrite { called, why } => {
                if !*called {
                    *called = true;
                    self.sh.api(self.ep, self.sid, Api::Note(format!("extra-write {why}")));
                    self.sh.api(self.ep, self.sid, Api::WriteCall { n: 3, vectored: false });
                }
                match Pin::new(&mut *stream).poll_write(cx, b"xyz") {
                    Poll::Pending => false,
                    Poll::Ready(Ok(m)) => {
                        self.sh.api(self.ep, self.sid, Api::WriteRet { res: WRes::Ok(m) });
                        cur = CurW::None;
                        true
                    }
                    Poll::Ready(Err(e)) => {
                        let res = if e.kind() == std::io::ErrorKind::BrokenPipe { WRes::BrokenPipe } else { WRes::Other(e.to_string()) };
                        self.sh.api(self.ep, self.sid, Api::WriteRet { res });
                        cur = CurW::None;
                        true
                    }
                }
            }
        };
        self.cur = cur;
        progressed
    }

    fn write_failed(&mut self, e: &std::io::Error) {
        let res = if e.kind() == std::io::ErrorKind::BrokenPipe { WRes::BrokenPipe } else { WRes::Other(e.to_string()) };
        self.api(Api::WriteRet { res });
        self.broken = true;
        self.wq.clear();
        if self.plan.retry_after_broken {
            self.plan.retry_after_broken = false;
            self.wq.push_back(WOp::Yield);
            // a later write on a broken stream must fail again
            self.cur = CurW::None;
            self.wq.push_back(WOp::Write(2));
            self.broken = false; // allow the retry to be issued; it sets broken again
            self.plan.shutdown = false;
        }
    }

    /// One reader step. Returns true if progress was made.
    fn poll_r(&mut self, cx: &mut Context<'_>) -> bool {
        if !self.started_read {
            self.started_read = true;
            if self.plan.read_delay > 0 {
                self.r_sleep = Some(Box::pin(tokio::time::sleep(Duration::from_millis(self.plan.read_delay))));
            }
        }
        if let Some(s) = self.r_sleep.as_mut() {
            if s.as_mut().poll(cx).is_pending() {
                return false;
            }
            self.r_sleep = None;
        }
        if let Some(lim) = self.plan.read_limit {
            if self.got >= lim {
                self.r_done = true;
                return true;
            }
        }
        if let Some((after, ms)) = self.pauses.front().copied() {
            if self.got >= after {
                self.pauses.pop_front();
                self.r_sleep = Some(Box::pin(tokio::time::sleep(Duration::from_millis(ms))));
                return true;
            }
        }
        let stream = self.stream.as_mut().expect("stream");
        match self.plan.style.clone() {
            RStyle::Read(bufsize) => {
                let mut want = bufsize.max(1);
                if let Some(lim) = self.plan.read_limit {
                    want = want.min((lim - self.got) as usize).max(1);
                }
                let mut space = vec![0u8; want];
                let mut rb = ReadBuf::new(&mut space);
                match Pin::new(&mut *stream).poll_read(cx, &mut rb) {
                    Poll::Pending => false,
                    Poll::Ready(Ok(())) => {
                        let data = rb.filled();
                        let k = data.len();
                        let bad = prf_mismatch(self.rkey, self.got, data).map(|j| self.got + j as u64);
                        self.sh.api(self.ep, self.sid, Api::ReadRet { k, bad_at: bad });
                        self.got += k as u64;
                        if k == 0 {
                            self.r_done = true;
                        }
                        true
                    }
                    Poll::Ready(Err(e)) => {
                        self.sh.api(self.ep, self.sid, Api::ReadErr { err: e.to_string() });
                        self.r_done = true;
                        true
                    }
                }
            }
            RStyle::FillBuf(mode) => match Pin::new(&mut *stream).poll_fill_buf(cx) {
                Poll::Pending => false,
                Poll::Ready(Ok(data)) => {
                    let avail = data.len();
                    let mut c = match mode {
                        0 => avail,
                        1 => avail.min(1),
                        _ => (avail / 2).max(avail.min(1)),
                    };
                    if let Some(lim) = self.plan.read_limit {
                        c = c.min((lim - self.got) as usize);
                        if avail > 0 && c == 0 {
                            c = 1;
                        }
                    }
                    let bad = prf_mismatch(self.rkey, self.got, &data[..c]).map(|j| self.got + j as u64);
                    // the whole buffered slice must be PRF data too, not only what we consume
                    let bad = bad.or_else(|| prf_mismatch(self.rkey, self.got, data).map(|j| self.got + j as u64));
                    Pin::new(&mut *stream).consume(c);
                    self.sh.api(self.ep, self.sid, Api::ReadRet { k: c, bad_at: bad });
                    self.got += c as u64;
                    if avail == 0 {
                        self.r_done = true;
                    }
                    true
                }
                Poll::Ready(Err(e)) => {
                    self.sh.api(self.ep, self.sid, Api::ReadErr { err: e.to_string() });
                    self.r_done = true;
                    true
                }
            },
        }
    }
}

impl Future for StreamActor {
    type Output = ();
    fn poll(mut self: Pin<&mut Self>, cx: &mut Context<'_>) -> Poll<()> {
        let this = &mut *self;
        let mut budget = 64;
        // a half that returned Pending has registered its waker: do not poll it again in this turn
        let (mut w_parked, mut r_parked) = (false, false);
        loop {
            let mut progressed = false;
            let w_first = this.rng.chance(1, 2);
            for turn in 0..2 {
                let do_w = (turn == 0) == w_first;
                if do_w && !this.w_done && !w_parked {
                    if this.poll_w(cx) {
                        progressed = true;
                    } else {
                        w_parked = true;
                    }
                }
                if !do_w && !this.r_done && !r_parked {
                    if this.poll_r(cx) {
                        progressed = true;
                    } else {
                        r_parked = true;
                    }
                }
            }
            if this.w_done && this.r_done {
                if this.plan.hold_ms > 0 {
                    if this.hold.is_none() {
                        this.hold = Some(Box::pin(tokio::time::sleep(Duration::from_millis(this.plan.hold_ms))));
                    }
                    if this.hold.as_mut().expect("hold").as_mut().poll(cx).is_pending() {
                        return Poll::Pending;
                    }
                }
                this.sh.api(this.ep, this.sid, Api::DropStream);
                drop(this.stream.take());
                this.sh.api(this.ep, this.sid, Api::ActorDone);
                return Poll::Ready(());
            }
            if !progressed {
                return Poll::Pending;
            }
            budget -= 1;
            if budget == 0 {
                // be fair to the other tasks of the run
                cx.waker().wake_by_ref();
                return Poll::Pending;
            }
        }
    }
}

// ------------------------------------------------------------------ opening and accepting

pub fn log_stream(sh: &Sh, ep: u8, sid: u32, s: &MuxStream, opened: bool, host_ok: bool) {
    let (key, flow, credit) = (s.verif_key(), s.verif_flow_id(), s.verif_send_credit());
    if opened {
        sh.api(ep, sid, Api::OpenRet { ok: true, err: String::new(), key, flow, credit });
    } else {
        sh.api(ep, sid, Api::Accepted { key, flow, credit, host_ok });
    }
}

/// Open the stream of `plan` on endpoint `ep` and run its actor to completion.
pub async fn open_and_run(sh: Sh, mux: Arc<Mux>, ep: u8, seed: u64, plan: StreamPlan) {
    if plan.open_delay > 0 {
        tokio::time::sleep(Duration::from_millis(plan.open_delay)).await;
    }
    let host = stream_host(plan.sid, &plan.host_extra);
    sh.api(ep, plan.sid, Api::OpenCall);
    match mux.new_stream_channel(&host, plan.port).await {
        Ok(s) => {
            log_stream(&sh, ep, plan.sid, &s, true, true);
            StreamActor::new(s, &sh, ep, plan.sid, seed, plan.sides[ep as usize].clone()).await;
        }
        Err(e) => {
            sh.api(ep, plan.sid, Api::OpenRet { ok: false, err: err_name(&e), key: 0, flow: 0, credit: 0 });
        }
    }
}

/// Accept `expect` streams on endpoint `ep`; each is dispatched to its plan by the tag in dest_host.
pub async fn acceptor(sh: Sh, mux: Arc<Mux>, ep: u8, seed: u64, plans: Arc<Vec<StreamPlan>>, expect: usize, id_base: u64) -> Vec<(u32, bool, tokio::task::JoinHandle<Option<()>>)> {
    let mut handles = Vec::new();
    let mut n = 0;
    while n < expect {
        match mux.accept_stream_channel().await {
            Ok(s) => {
                n += 1;
                let sid = parse_sid(&s.dest_host);
                let Some(plan) = sid.and_then(|sid| plans.iter().find(|p| p.sid == sid)) else {
                    sh.api(ep, u32::MAX, Api::Accepted { key: s.verif_key(), flow: s.verif_flow_id(), credit: s.verif_send_credit(), host_ok: false });
                    continue;
                };
                let want_host = stream_host(plan.sid, &plan.host_extra);
                let host_ok = s.dest_host.as_ref() == want_host.as_slice() && s.dest_port == plan.port;
                log_stream(&sh, ep, plan.sid, &s, false, host_ok);
                let actor = StreamActor::new(s, &sh, ep, plan.sid, seed, plan.sides[ep as usize].clone());
                handles.push((plan.sid, plan.awaited[ep as usize], sim::spawn(&sh, id_base + u64::from(plan.sid), actor)));
            }
            Err(e) => {
                sh.api(ep, 0, Api::AcceptErr { err: err_name(&e) });
                break;
            }
        }
    }
    handles
}

// ------------------------------------------------------------------ datagrams

#[derive(Clone, Debug)]
pub struct DgPlan {
    pub id: u64,
    pub from: u8,
    pub flow_id: u32,
    pub host_len: usize,
    pub port: u16,
    pub payload_len: usize,
    pub pause_before: u64,
}

pub fn dg_host(seed: u64, id: u64, len: usize) -> Vec<u8> {
    let mut v = vec![0u8; len];
    prf_fill(mix(seed, 0xD6_0000 + id), 0, &mut v);
    v
}

pub fn dg_payload(seed: u64, id: u64, len: usize) -> Vec<u8> {
    let mut v = vec![0u8; len];
    prf_fill(mix(seed, 0xD7_0000 + id), 0, &mut v);
    // the identity is carried in the payload when there is room for it
    if len >= 8 {
        v[..8].copy_from_slice(&id.to_be_bytes());
    }
    v
}

pub async fn dg_sender(sh: Sh, mux: Arc<Mux>, ep: u8, seed: u64, plans: Vec<DgPlan>) {
    for p in plans {
        if p.pause_before > 0 {
            tokio::time::sleep(Duration::from_millis(p.pause_before)).await;
        } else {
            sim::jitter_yield(&sh).await;
        }
        let d = Datagram {
            flow_id: p.flow_id,
            target_host: Bytes::from(dg_host(seed, p.id, p.host_len)),
            target_port: p.port,
            data: Bytes::from(dg_payload(seed, p.id, p.payload_len)),
        };
        sh.api(ep, 0, Api::DgSendCall { id: p.id, host_len: p.host_len });
        let r = mux.send_datagram(d).await;
        sh.api(ep, 0, Api::DgSendRet { id: p.id, res: match r { Ok(()) => "Ok".into(), Err(e) => err_name(&e) } });
    }
}

/// Receive datagrams until the mux closes. Identity: (flow_id, port) — unique per plan by construction.
/// `pause_ms` value that selects the cancelling receiver (see `dg_receiver`)
pub const DG_RECV_CANCELLING: u64 = u64::MAX;

pub async fn dg_receiver(sh: Sh, mux: Arc<Mux>, ep: u8, seed: u64, sent_by_peer: Arc<Vec<DgPlan>>, pause_ms: u64, start_delay: u64) {
    if start_delay > 0 {
        tokio::time::sleep(Duration::from_millis(start_delay)).await;
    }
    loop {
        // "cancelling" receivers poll get_datagram() once and drop the future when it is not ready at once, the way a
        // select! next to other event sources does: a datagram must not be lost inside an abandoned call
        let next = if pause_ms == DG_RECV_CANCELLING {
            use futures_util::FutureExt;
            match mux.get_datagram().now_or_never() {
                Some(r) => r,
                None => {
                    tokio::time::sleep(Duration::from_millis(1)).await;
                    continue;
                }
            }
        } else {
            mux.get_datagram().await
        };
        match next {
            Ok(d) => {
                let found = sent_by_peer.iter().find(|p| p.flow_id == d.flow_id && p.port == d.target_port);
                match found {
                    Some(p) => {
                        let ok = d.target_host.as_ref() == dg_host(seed, p.id, p.host_len).as_slice() && d.data.as_ref() == dg_payload(seed, p.id, p.payload_len).as_slice();
                        sh.api(ep, 0, Api::DgRecv { id: p.id, fields_ok: ok });
                    }
                    None => sh.api(ep, 0, Api::DgRecv { id: u64::MAX, fields_ok: false }),
                }
                if pause_ms == DG_RECV_CANCELLING {
                    sim::jitter_yield(&sh).await;
                } else if pause_ms > 0 {
                    tokio::time::sleep(Duration::from_millis(pause_ms)).await;
                } else {
                    sim::jitter_yield(&sh).await;
                }
            }
            Err(e) => {
                sh.api(ep, 0, Api::DgRecvErr { err: err_name(&e) });
                break;
            }
        }
    }
}

// ------------------------------------------------------------------ bind requests

#[derive(Clone, Copy, Debug, PartialEq, Eq)]
pub enum BindAnswer {
    Accept,
    Reject,
    Drop,
    Never,
}

#[derive(Clone, Debug)]
pub struct BindPlan {
    pub id: u64,
    pub from: u8,
    pub datagram_type: bool,
    pub host_len: usize,
    pub port: u16,
    pub answer: BindAnswer,
    pub answer_delay: u64,
    pub call_delay: u64,
}

pub fn bind_host(seed: u64, id: u64, len: usize) -> Vec<u8> {
    let mut v = vec![0u8; len];
    prf_fill(mix(seed, 0xB1_0000 + id), 0, &mut v);
    v
}

pub async fn bind_requester(sh: Sh, mux: Arc<Mux>, ep: u8, seed: u64, p: BindPlan) {
    if p.call_delay > 0 {
        tokio::time::sleep(Duration::from_millis(p.call_delay)).await;
    }
    let host = bind_host(seed, p.id, p.host_len);
    let bt = if p.datagram_type { penguin_mux::frame::BindType::Datagram } else { penguin_mux::frame::BindType::Stream };
    sh.api(ep, 0, Api::BindCall { id: p.id });
    let r = mux.request_bind(&host, p.port, bt).await;
    sh.api(ep, 0, Api::BindRet { id: p.id, res: match r { Ok(b) => format!("{b}"), Err(e) => err_name(&e) } });
}

/// Serve bind requests on `ep` according to the plans of the peer (matched by port, unique per plan).
pub async fn bind_responder(sh: Sh, mux: Arc<Mux>, ep: u8, seed: u64, plans: Arc<Vec<BindPlan>>) {
    let mut held = Vec::new();
    let mut jobs = Vec::new();
    loop {
        match mux.next_bind_request().await {
            Ok(req) => {
                let plan = plans.iter().find(|p| p.port == req.port() && p.from != ep).cloned();
                let Some(p) = plan else {
                    sh.api(ep, 0, Api::BindSeen { id: u64::MAX, fields_ok: false, flow: req.flow_id() });
                    continue;
                };
                let want_type = if p.datagram_type { penguin_mux::frame::BindType::Datagram } else { penguin_mux::frame::BindType::Stream };
                let ok = req.host() == bind_host(seed, p.id, p.host_len).as_slice() && req.bind_type() == want_type && req.port() == p.port;
                sh.api(ep, 0, Api::BindSeen { id: p.id, fields_ok: ok, flow: req.flow_id() });
                match p.answer {
                    BindAnswer::Never => held.push(req),
                    _ => {
                        let sh2 = sh.clone();
                        jobs.push(sim::spawn(&sh, 8000 + p.id, async move {
                            if p.answer_delay > 0 {
                                tokio::time::sleep(Duration::from_millis(p.answer_delay)).await;
                            } else {
                                sim::jitter_yield(&sh2).await;
                            }
                            match p.answer {
                                BindAnswer::Accept => {
                                    sh2.api(ep, 0, Api::BindReply { id: p.id, how: "accept".into() });
                                    req.reply(true).ok();
                                }
                                BindAnswer::Reject => {
                                    sh2.api(ep, 0, Api::BindReply { id: p.id, how: "reject".into() });
                                    req.reply(false).ok();
                                }
                                _ => {
                                    sh2.api(ep, 0, Api::BindReply { id: p.id, how: "drop".into() });
                                }
                            }
                            drop(req);
                        }));
                    }
                }
            }
            Err(e) => {
                sh.api(ep, 0, Api::BindNextErr { err: err_name(&e) });
                break;
            }
        }
    }
    for j in jobs {
        j.await.ok();
    }
    // requests that were never answered are released only now
    for r in held {
        std::mem::forget(r);
    }
}

// ------------------------------------------------------------------ a complete run of the general workload

#[derive(Clone, Debug)]
pub struct Scenario {
    pub seed: u64,
    pub cfg: [EpCfg; 2],
    pub caps: [usize; 2],
    pub jitter: u8,
    pub ws_jitter: bool,
    pub flush_pending: [u8; 2],
    pub streams: Vec<StreamPlan>,
    pub dgrams: Vec<DgPlan>,
    /// datagram receiver per endpoint: None = absent, Some(pause_ms, start_delay)
    pub dg_recv: [Option<(u64, u64)>; 2],
    pub faults: [Option<FaultPlan>; 2],
    /// which mux is dropped first at the end (2 = both at once)
    pub drop_first: u8,
    pub binds: Vec<BindPlan>,
    /// ids the endpoints' flow-id generators yield first (then random); used to make a generator repeat an id that is in use
    pub scripted_ids: [Vec<u32>; 2],
}

pub struct RunOut {
    pub end: &'static str,
    pub log: Vec<sim::Rec>,
    pub hash: u64,
}

pub async fn general(sh: Sh, sc: Scenario) {
    let seed = sc.seed;
    let ([e0, e1], net) = connect(&sh, [&sc.cfg[0], &sc.cfg[1]], sc.caps, sc.faults.clone(), seed, sc.ws_jitter);
    memws::set_flush_pending(&net, 0, sc.flush_pending[0]);
    memws::set_flush_pending(&net, 1, sc.flush_pending[1]);
    e0.rng.push(&sc.scripted_ids[0]);
    e1.rng.push(&sc.scripted_ids[1]);
    let muxes = [e0.mux.clone(), e1.mux.clone()];
    let plans = Arc::new(sc.streams.clone());
    // acceptors
    let mut acc = Vec::new();
    for ep in 0..2u8 {
        let expect = plans.iter().filter(|p| p.opener != ep).count();
        acc.push(sim::spawn(&sh, 2000 + u64::from(ep), acceptor(sh.clone(), muxes[ep as usize].clone(), ep, seed, plans.clone(), expect, 3000 + 1000 * u64::from(ep))));
    }
    // openers
    let mut openers = Vec::new();
    for p in plans.iter() {
        let ep = p.opener;
        let h = sim::spawn(&sh, 5000 + u64::from(p.sid), open_and_run(sh.clone(), muxes[ep as usize].clone(), ep, seed, p.clone()));
        openers.push((p.awaited[ep as usize], h));
    }
    // datagrams
    let mut dg_handles = Vec::new();
    let mut dg_send_handles = Vec::new();
    for ep in 0..2u8 {
        let mine: Vec<DgPlan> = sc.dgrams.iter().filter(|d| d.from == ep).cloned().collect();
        let theirs: Arc<Vec<DgPlan>> = Arc::new(sc.dgrams.iter().filter(|d| d.from != ep).cloned().collect());
        if !mine.is_empty() {
            dg_send_handles.push(sim::spawn(&sh, 7000 + u64::from(ep), dg_sender(sh.clone(), muxes[ep as usize].clone(), ep, seed, mine)));
        }
        if let Some((pause, delay)) = sc.dg_recv[ep as usize] {
            dg_handles.push(sim::spawn(&sh, 7100 + u64::from(ep), dg_receiver(sh.clone(), muxes[ep as usize].clone(), ep, seed, theirs, pause, delay)));
        }
    }
    // bind requests
    let mut bind_req_handles = Vec::new();
    let mut bind_resp_handles = Vec::new();
    if !sc.binds.is_empty() {
        let all = Arc::new(sc.binds.clone());
        for ep in 0..2u8 {
            if sc.cfg[ep as usize].bind_buf > 0 {
                bind_resp_handles.push(sim::spawn(&sh, 8500 + u64::from(ep), bind_responder(sh.clone(), muxes[ep as usize].clone(), ep, seed, all.clone())));
            }
        }
        for b in &sc.binds {
            let never = b.answer == BindAnswer::Never && sc.cfg[1 - b.from as usize].bind_buf > 0;
            let h = sim::spawn(&sh, 8600 + b.id, bind_requester(sh.clone(), muxes[b.from as usize].clone(), b.from, seed, b.clone()));
            bind_req_handles.push((never, h));
        }
    }
    // wait for everything that must finish
    let mut leftovers = Vec::new();
    for (never, h) in bind_req_handles {
        if never {
            leftovers.push(h);
        } else {
            h.await.ok();
        }
    }
    for (awaited, h) in openers {
        if awaited {
            h.await.ok();
        } else {
            leftovers.push(h);
        }
    }
    for a in acc {
        // the acceptor itself always finishes once all expected streams arrived
        if let Ok(Some(hs)) = a.await {
            for (_sid, awaited, h) in hs {
                if awaited {
                    h.await.ok();
                } else {
                    leftovers.push(h);
                }
            }
        }
    }
    for h in dg_send_handles {
        h.await.ok();
    }
    // quiescent point: nothing is runnable any more; probe the flow tables
    sim::quiesce().await;
    sim::quiesce().await;
    for ep in 0..2u8 {
        let ids = muxes[ep as usize].verif_flow_ids();
        sh.api(ep, 0, Api::Probe { flows: ids.len(), ids });
    }
    // tear down
    drop(muxes);
    sh.api(0, 0, Api::Teardown);
    // passive tasks hold clones of the mux handles; stop them so that the drops below are real
    for h in leftovers.iter() {
        h.abort();
    }
    for h in dg_handles.iter() {
        h.abort();
    }
    for h in bind_resp_handles.iter() {
        h.abort();
    }
    for h in bind_resp_handles {
        h.await.ok();
    }
    for h in leftovers {
        h.await.ok();
    }
    for h in dg_handles {
        h.await.ok();
    }
    // final drain of the datagram queues (nothing is in flight at this quiescent point): whatever reached the endpoint
    // and was neither received before nor is handed out now was dropped by the endpoint
    for (ep, m) in [(0u8, &e0.mux), (1u8, &e1.mux)] {
        // (a real await with a timeout, not now_or_never: tokio's cooperative budget makes a ready channel return Pending
        // after 128 operations in one poll, which would end the drain early)
        let theirs: Vec<DgPlan> = sc.dgrams.iter().filter(|d| d.from != ep).cloned().collect();
        while let Ok(Ok(d)) = tokio::time::timeout(Duration::from_millis(1), m.get_datagram()).await {
            match theirs.iter().find(|p| p.flow_id == d.flow_id && p.port == d.target_port) {
                Some(p) => {
                    let ok = d.target_host.as_ref() == dg_host(seed, p.id, p.host_len).as_slice() && d.data.as_ref() == dg_payload(seed, p.id, p.payload_len).as_slice();
                    sh.api(ep, 0, Api::DgRecv { id: p.id, fields_ok: ok });
                }
                None => sh.api(ep, 0, Api::DgRecv { id: u64::MAX, fields_ok: false }),
            }
        }
        sh.api(ep, 0, Api::Note("dg-drained".into()));
    }
    let m0_unique = Arc::strong_count(&e0.mux) == 1 && Arc::strong_count(&e1.mux) == 1;
    if !m0_unique {
        sh.api(0, 0, Api::Note("HARNESS: mux handle still shared at teardown".into()));
    }
    let (m0, t0) = (e0.mux, e0.task);
    let (m1, t1) = (e1.mux, e1.task);
    match sc.drop_first {
        0 => {
            sh.api(0, 0, Api::MuxDrop);
            drop(m0);
            t0.await.ok();
            sh.api(1, 0, Api::MuxDrop);
            drop(m1);
            t1.await.ok();
        }
        1 => {
            sh.api(1, 0, Api::MuxDrop);
            drop(m1);
            t1.await.ok();
            sh.api(0, 0, Api::MuxDrop);
            drop(m0);
            t0.await.ok();
        }
        _ => {
            sh.api(0, 0, Api::MuxDrop);
            sh.api(1, 0, Api::MuxDrop);
            drop(m0);
            drop(m1);
            t0.await.ok();
            t1.await.ok();
        }
    }
}

pub fn run_general(sc: &Scenario) -> RunOut {
    let sh = sim::Shared::new(mix(sc.seed, 0x5EED), sc.jitter);
    let sc2 = sc.clone();
    let end = match sim::run(&sh, move |sh| general(sh, sc2)) {
        sim::RunEnd::Finished(()) => "finished",
        sim::RunEnd::Stalled => "stalled",
        sim::RunEnd::Panicked(_) => "panicked",
    };
    RunOut { end, log: sh.take_log(), hash: sh.hash() }
}


/// The general workload on real threads (THR engine).
pub fn run_general_thr(sc: &Scenario, hook_delay_us: u64) -> RunOut {
    let sh = sim::Shared::new(mix(sc.seed, 0x7487), sc.jitter);
    sh.lock().hook_delay_us = hook_delay_us;
    let sc2 = sc.clone();
    let end = match sim::run_threads(&sh, 6, Duration::from_secs(10), move |sh| general(sh, sc2)) {
        sim::RunEnd::Finished(()) => "finished",
        sim::RunEnd::Stalled => "stalled",
        sim::RunEnd::Panicked(_) => "panicked",
    };
    RunOut { end, log: sh.take_log(), hash: sh.hash() }
}
