//! C01 (multiplexor part) — the mechanism by which "the local client went away"
//! reaches the far end of a tunnelled connection: once one application has let go
//! of a stream (finished its direction and dropped the handle, or dropped it
//! outright) the peer's next Push is answered with a Reset, so the peer's writer
//! fails with BrokenPipe and its reader sees end-of-stream instead of both
//! staying blocked. SIM engine, two real endpoints; deterministic counterpart of
//! the E2E conversations `LocalHalfCloseThenClose` / `LocalClosesWhileTargetStreams`,
//! restricted to the case the protocol can serve: the peer still has send credit
//! when the stream is let go (with no credit left the peer never sends another
//! Push: recorded as a known finding of C01, see known_findings.json).

use crate::monitors::{self, Fam, Meta};
use crate::sim::{self, Api};
use crate::util::{Params, Rng64, Stats, Violation, mix};
use crate::wl::{self, EpCfg};
use serde_json::json;
use std::time::Duration;
use tokio::io::{AsyncReadExt, AsyncWriteExt};

const RULE: &str = "one case = two real endpoints in the simulator, one stream: the far application (the target's side of a tunnel) writes k frames, the near application (the local client's side) reads j <= k of them, finishes its own direction or not, and drops its handle while the far side still has send credit; \
the far application then keeps writing one frame per quiescent point. Oracle: its first write after the drop may still succeed, from the second quiescent point on every write fails with BrokenPipe and its reader sees end-of-stream; it never blocks. \
Dimensions: opener, window 2-64, k, j, finish-before-drop yes/no, link capacity, jitter. Non-trivial = every case";

fn one(st: &mut Stats, seed: u64) {
    st.evaluations += 1;
    st.engine("SIM", 1);
    let mut rng = Rng64::new(mix(seed, 0xC01B));
    let rwnd = *rng.pick(&[2u32, 3, 4, 8, 16, 64]);
    let cfg = [EpCfg { rwnd, thr: *rng.pick(&[1u32, 2, 4]), ..EpCfg::default() }, EpCfg { rwnd: *rng.pick(&[2u32, 4, 16]), thr: *rng.pick(&[1u32, 2]), ..EpCfg::default() }];
    // the far side (ep1) may have `rwnd` frames outstanding; it keeps at least two units of credit
    let k = rng.below(u64::from(rwnd) - 1) as usize;
    let j = rng.below(k as u64 + 1) as usize;
    let finish_first = rng.chance(2, 3);
    let near_opens = rng.chance(1, 2);
    let caps = [*rng.pick(&[0usize, 1, 4]), *rng.pick(&[0usize, 1, 4])];
    let sh = sim::Shared::new(mix(seed, 11), rng.below(4) as u8);
    let cfg2 = cfg.clone();
    let end = sim::run(&sh, move |sh| async move {
        let ([e0, e1], _net) = wl::connect(&sh, [&cfg2[0], &cfg2[1]], caps, [None, None], seed, true);
        let (mut near, mut far) = if near_opens {
            let a = e0.mux.new_stream_channel(b"s1.", 1).await.expect("open");
            let b = e1.mux.accept_stream_channel().await.expect("accept");
            (a, b)
        } else {
            let b = e1.mux.new_stream_channel(b"s1.", 1).await.expect("open");
            let a = e0.mux.accept_stream_channel().await.expect("accept");
            (a, b)
        };
        for i in 0..k {
            far.write_all(&[i as u8; 10]).await.expect("far write within its window");
        }
        let mut buf = [0u8; 10];
        for _ in 0..j {
            near.read_exact(&mut buf).await.expect("near read");
        }
        sim::quiesce().await;
        if finish_first {
            near.shutdown().await.expect("shutdown");
            sim::quiesce().await;
        }
        sh.api(0, 1, Api::DropStream);
        drop(near);
        sim::quiesce().await;
        // the far application goes on writing, one frame per quiescent point
        let mut results = Vec::new();
        for _ in 0..4 {
            let r = tokio::time::timeout(Duration::from_millis(50), far.write_all(&[0xEE; 10])).await;
            results.push(match r {
                Ok(Ok(())) => "ok".to_string(),
                Ok(Err(e)) => format!("{:?}", e.kind()),
                Err(_) => "blocked".to_string(),
            });
            sim::quiesce().await;
        }
        // and its reader must not stay blocked either
        let mut sink = Vec::new();
        let rd = match tokio::time::timeout(Duration::from_millis(50), far.read_to_end(&mut sink)).await {
            Ok(Ok(_)) => "eof".to_string(),
            Ok(Err(e)) => format!("{:?}", e.kind()),
            Err(_) => "blocked".to_string(),
        };
        drop(far);
        let (m0, t0, m1, t1) = (e0.mux, e0.task, e1.mux, e1.task);
        sh.api(0, 0, Api::MuxDrop);
        drop(m0);
        t0.await.ok();
        drop(m1);
        t1.await.ok();
        (results, rd)
    });
    let log = sh.take_log();
    let desc = format!("window {rwnd}, far wrote {k} frames, near read {j}, near {} then dropped its handle, near_opens={near_opens}", if finish_first { "finished its direction" } else { "did not finish" });
    let replay = |extra: String| json!({"kind": "c01b", "run_seed": seed, "case": desc, "observed": extra, "trace_tail": sim::render(&log, 60)});
    st.cell("finish_before_drop", finish_first);
    st.cell("window", rwnd);
    st.nontrivial(mix(sh.hash(), seed));
    match end {
        sim::RunEnd::Finished((results, rd)) => {
            st.target("let_go_cases", 1);
            // first write after the drop may succeed; once the Reset has come back every write fails
            let late: Vec<&String> = results.iter().skip(1).collect();
            if late.iter().any(|r| r.as_str() != "BrokenPipe") {
                let which = if late.iter().any(|r| r.as_str() == "blocked") { "blocked" } else { "succeeded" };
                st.violation(Violation {
                    signature: format!("peer-let-go-not-signalled|writer-{which}|finish_first={finish_first}"),
                    detail: format!("the near application let go of the stream while the far side still had credit ({desc}); the far application's writes afterwards: {results:?} (expected BrokenPipe from the second one on): the far side is never told, a tunnelled target keeps its connection for ever"),
                    replay: replay(format!("{results:?} read:{rd}")),
                });
            }
            if rd != "eof" {
                st.violation(Violation {
                    signature: format!("peer-let-go-not-signalled|reader-{rd}|finish_first={finish_first}"),
                    detail: format!("after the near application let go of the stream ({desc}) the far application's read ended with {rd} instead of end-of-stream"),
                    replay: replay(format!("{results:?} read:{rd}")),
                });
            }
        }
        sim::RunEnd::Stalled => st.violation(Violation { signature: "stall|c01b".into(), detail: format!("the run stalled ({desc})"), replay: replay("stalled".into()) }),
        sim::RunEnd::Panicked(m) => st.inconclusive.push(format!("harness panic in c01b: {m}")),
    }
    let an = monitors::analyse(&log, &[Fam::Panic], &Meta::default());
    for f in an.findings {
        st.violation(Violation { signature: format!("{}|c01b", f.sig), detail: f.detail.clone(), replay: replay(f.detail) });
    }
}

pub fn run(p: &Params) -> (Stats, &'static str) {
    std::panic::set_hook(Box::new(|_| {}));
    sim::install_observer();
    let mut st = Stats::new();
    let base = p.shard_seed("C01B");
    let n = p.share(if p.tier_thorough { 4_000_000 } else { 4_000 });
    for i in 0..n {
        one(&mut st, mix(base, i));
        if st.too_many_violations() {
            break;
        }
    }
    if st.samples.is_empty() {
        st.sample(json!({"case": "window 4, far wrote 2 frames, near read 1, near finished its direction then dropped its handle", "expected": "far writes: [ok|BrokenPipe, BrokenPipe, BrokenPipe, BrokenPipe], far read: eof"}));
    }
    (st, RULE)
}
