//! C05 (extra scenario) — streams that outlive their Multiplexor handle.
//! One application drops its `Multiplexor` while it still holds streams and
//! keeps reading them; the peer goes on writing, sending datagrams and opening
//! streams until it learns of the end. Everything the peer's Push frames carried
//! to the endpoint before the connection ended must be read before end-of-stream.

use crate::sim::{self, Api, Ev, Wm};
use crate::util::{Params, Rng64, Stats, Violation, mix, prf_mismatch, prf_vec};
use crate::wl::{self, EpCfg};
use penguin_mux::Datagram;
use serde_json::json;
use std::sync::{Arc, Mutex};
use std::time::Duration;
use tokio::io::{AsyncReadExt, AsyncWriteExt};

#[derive(Clone, Copy, Debug)]
enum Op {
    Write(usize, usize),
    Dgram(usize),
    Open,
    Yield,
}

pub fn held_case(st: &mut Stats, seed: u64) {
    st.evaluations += 1;
    st.engine("SIM", 1);
    let mut rng = Rng64::new(mix(seed, 0xC05E));
    let cfg = [
        EpCfg { rwnd: *rng.pick(&[4u32, 16, 64]), thr: *rng.pick(&[1u32, 2, 4]), dgram_buf: *rng.pick(&[1usize, 16]), ..EpCfg::default() },
        EpCfg { rwnd: *rng.pick(&[4u32, 16]), thr: 2, ..EpCfg::default() },
    ];
    let n_streams = rng.range(1, 3) as usize;
    let n_ops = rng.range(4, 30) as usize;
    let ops: Vec<Op> = (0..n_ops).map(|_| match rng.below(10) {
        0..=5 => Op::Write(rng.below(n_streams as u64) as usize, *rng.pick(&[1usize, 5, 64, 900])),
        6 | 7 => Op::Dgram(*rng.pick(&[0usize, 3, 200])),
        8 => Op::Open,
        _ => Op::Yield,
    }).collect();
    let drop_after = rng.below(n_ops as u64 + 1) as usize;
    let caps = [*rng.pick(&[0usize, 1, 4]), *rng.pick(&[0usize, 1, 4])];
    let sh = sim::Shared::new(mix(seed, 12), rng.below(4) as u8);
    let cfg2 = cfg.clone();
    let ops2 = ops.clone();
    let read_totals: Arc<Mutex<Vec<(u32, u64, Option<u64>, bool)>>> = Arc::new(Mutex::new(Vec::new()));
    let rt2 = read_totals.clone();
    let end = sim::run(&sh, move |sh| async move {
        let ([e0, e1], _net) = wl::connect(&sh, [&cfg2[0], &cfg2[1]], caps, [None, None], seed, true);
        // streams: opened by the far side (ep1), accepted and then held by the near side (ep0)
        let mut far = Vec::new();
        let mut readers = Vec::new();
        for i in 0..n_streams {
            let s1 = e1.mux.new_stream_channel(format!("s{}.", i + 1).as_bytes(), i as u16).await.expect("open");
            let mut s0 = e0.mux.accept_stream_channel().await.expect("accept");
            let flow = s0.verif_flow_id();
            let key = mix(seed, 0x500 + i as u64);
            let rt = rt2.clone();
            readers.push(sim::spawn(&sh, 3000 + i as u64, async move {
                let (mut total, mut bad, mut eof) = (0u64, None, false);
                let mut buf = vec![0u8; 4096];
                loop {
                    match s0.read(&mut buf).await {
                        Ok(0) => {
                            eof = true;
                            break;
                        }
                        Ok(n) => {
                            if bad.is_none() {
                                bad = prf_mismatch(key, total, &buf[..n]).map(|j| total + j as u64);
                            }
                            total += n as u64;
                        }
                        Err(_) => break,
                    }
                }
                rt.lock().unwrap().push((flow, total, bad, eof));
            }));
            far.push((s1, key, 0u64));
        }
        sim::quiesce().await;
        let near_mux = Arc::try_unwrap(e0.mux).ok();
        let mut near_mux = near_mux;
        let far_mux = e1.mux.clone();
        let mut opens = Vec::new();
        for (k, op) in ops2.iter().enumerate() {
            if k == drop_after {
                sh.api(0, 0, Api::MuxDrop);
                drop(near_mux.take());
            }
            match *op {
                Op::Write(si, len) => {
                    let (s, key, off) = &mut far[si];
                    let data = prf_vec(*key, *off, len);
                    // bounded: without acknowledgements the far writer may block until it learns of the end
                    match tokio::time::timeout(Duration::from_millis(20), s.write_all(&data)).await {
                        Ok(Ok(())) => *off += len as u64,
                        _ => break,
                    }
                }
                Op::Dgram(len) => {
                    let d = Datagram { flow_id: 0xD500 + k as u32, target_host: "h".into(), target_port: k as u16, data: prf_vec(mix(seed, 77), k as u64, len).into() };
                    if far_mux.send_datagram(d).await.is_err() {
                        break;
                    }
                }
                Op::Open => {
                    let m = far_mux.clone();
                    opens.push(sim::spawn(&sh, 6000 + k as u64, async move {
                        let _ = tokio::time::timeout(Duration::from_millis(50), m.new_stream_channel(b"late.", 9)).await;
                    }));
                }
                Op::Yield => sim::quiesce().await,
            }
        }
        if near_mux.is_some() {
            sh.api(0, 0, Api::MuxDrop);
            drop(near_mux.take());
        }
        // the near task ends once the far end has answered its Close
        e0.task.await.ok();
        for r in readers {
            r.await.ok();
        }
        for o in opens {
            o.await.ok();
        }
        drop(far);
        drop(far_mux);
        drop(e1.mux);
        e1.task.await.ok();
    });
    let log = sh.take_log();
    let replay = |extra: String| json!({"kind": "c05-held-after-mux-drop", "run_seed": seed, "ops": format!("{ops:?}"), "drop_after": drop_after, "note": extra, "trace_tail": sim::render(&log, 80)});
    match end {
        sim::RunEnd::Finished(()) => {
            st.target("held_after_mux_drop_runs", 1);
            // did stream data reach the endpoint behind a datagram / Connect while it was winding down?
            if let Some(dp) = log.iter().position(|r| matches!(&r.ev, Ev::Api { ep: 0, op: Api::MuxDrop, .. })) {
                let mut other_seen = false;
                for r in &log[dp..] {
                    match &r.ev {
                        Ev::Dlv { ep: 0, m: Wm::Dgram { .. } | Wm::Connect { .. } } => other_seen = true,
                        Ev::Dlv { ep: 0, m: Wm::Push { .. } } if other_seen => {
                            st.target("push_behind_dgram_or_connect_during_wind_down", 1);
                            break;
                        }
                        _ => {}
                    }
                }
            }
            let reads = read_totals.lock().unwrap().clone();
            // bytes carried by Push frames delivered to the near endpoint, per flow (no Reset of these flows in this scenario)
            for (flow, total, bad, eof) in reads {
                let delivered: u64 = log.iter().map(|r| match &r.ev {
                    Ev::Dlv { ep: 0, m: Wm::Push { id, len, .. } } if *id == flow => *len as u64,
                    _ => 0,
                }).sum();
                let reset = log.iter().any(|r| matches!(&r.ev, Ev::Sent { m: Wm::Reset { id }, .. } if *id == flow));
                if let Some(off) = bad {
                    st.violation(Violation { signature: "held-stream-wrong-bytes".into(), detail: format!("a stream held after its Multiplexor was dropped read a wrong byte at offset {off}"), replay: replay(String::new()) });
                }
                if !eof {
                    st.violation(Violation { signature: "held-stream-no-eof".into(), detail: "a stream held after its Multiplexor was dropped ended with an error instead of end-of-stream".into(), replay: replay(String::new()) });
                }
                if !reset && total != delivered {
                    st.violation(Violation {
                        signature: "eof-before-delivered-data|held-after-mux-drop".into(),
                        detail: format!("the application dropped its Multiplexor but kept reading stream {flow:x}: Push frames carrying {delivered} bytes reached the endpoint before the connection ended, the reader got {total} bytes and then end-of-stream"),
                        replay: replay(format!("delivered {delivered} read {total}")),
                    });
                }
                if delivered > 0 {
                    st.nontrivial(mix(sh.hash(), delivered));
                }
            }
        }
        sim::RunEnd::Stalled => st.violation(Violation { signature: "stall|held-after-mux-drop".into(), detail: "the run stalled: after the Multiplexor was dropped the connection never ended or a held stream never saw end-of-stream".into(), replay: replay("stalled".into()) }),
        sim::RunEnd::Panicked(m) => st.inconclusive.push(format!("harness panic in c05 held case: {m}")),
    }
    let _ = Params::share;
}
