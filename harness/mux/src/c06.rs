//! C06 — abort semantics, isolation of bystanders, flow-id release and reuse.
//! SIM engine: (a) abort-profile general runs, (b) long open/close cycles with
//! bystanders, quiescent-point leak probes and scripted re-use of freed ids.

use crate::monitors::{self, Fam, Meta};
use crate::sim::{self, Api, Sh};
use crate::streams::{self, FamilySpec, Profile};
use crate::util::{Params, Rng64, Stats, Violation, mix};
use crate::wl::{self, EpCfg, RStyle, SidePlan, StreamActor, StreamPlan, WOp};
use serde_json::json;
use std::collections::HashMap;
use std::sync::{Arc, Mutex};
use tokio::sync::mpsc;

pub const SPEC: FamilySpec = FamilySpec {
    property: "C06",
    cmd: "c06",
    profile: Profile::Abort,
    fams: &[Fam::Abort, Fam::Panic],
    stall_is_violation: true,
    runs_quick: 12_000,
    runs_thorough: 600_000,
    rule: "one case = one execution of (a) an abort-profile scenario (2-6 streams, half of them aborted by one side after reading a random prefix, the others are bystanders) or (b) a cycle run: 2-4 bystander streams carrying data throughout while \
20-400 streams are opened and closed one after another in every close order (graceful, abort by either side with data in flight, read-to-EOF-then-drop, shutdown-then-drop), flow tables probed at a quiescent point after every cycle and freed ids re-issued \
through a scripted RNG. Oracle: peer of an abort reads everything delivered before the Reset and then EOF, its later writes fail with BrokenPipe, bystanders keep data and state, no flow-table entry without an owner, \
re-opened ids behave like fresh ones (credit, data, open). Non-trivial = at least one abort or one id re-use happened",
};

type Registry = Arc<Mutex<HashMap<u32, StreamPlan>>>;

async fn acceptor_loop(sh: Sh, mux: Arc<wl::Mux>, ep: u8, seed: u64, reg: Registry, tx: mpsc::UnboundedSender<(u32, tokio::task::JoinHandle<Option<()>>)>) {
    loop {
        match mux.accept_stream_channel().await {
            Ok(s) => {
                let sid = wl::parse_sid(&s.dest_host);
                let plan = sid.and_then(|sid| reg.lock().unwrap().get(&sid).cloned());
                let Some(plan) = plan else {
                    sh.api(ep, u32::MAX, Api::Accepted { key: s.verif_key(), flow: s.verif_flow_id(), credit: s.verif_send_credit(), host_ok: false });
                    continue;
                };
                let host_ok = s.dest_host.as_ref() == wl::stream_host(plan.sid, &plan.host_extra).as_slice() && s.dest_port == plan.port;
                wl::log_stream(&sh, ep, plan.sid, &s, false, host_ok);
                let actor = StreamActor::new(s, &sh, ep, plan.sid, seed, plan.sides[ep as usize].clone());
                let h = sim::spawn(&sh, 3000 + 1000 * u64::from(ep) + u64::from(plan.sid), actor);
                if tx.send((plan.sid, h)).is_err() {
                    break;
                }
            }
            Err(e) => {
                sh.api(ep, 0, Api::AcceptErr { err: wl::err_name(&e) });
                break;
            }
        }
    }
}

fn cycle_plan(rng: &mut Rng64, sid: u32, cfg: &[EpCfg; 2]) -> StreamPlan {
    let mut sides = [SidePlan::quiet(), SidePlan::quiet()];
    for e in 0..2 {
        let n = rng.range(0, 2 * u64::from(cfg[1 - e].rwnd) + 2);
        sides[e].writes = (0..n).map(|_| if rng.chance(1, 8) { WOp::Yield } else { WOp::Write(*rng.pick(&[1usize, 3, 64, 500])) }).collect();
        sides[e].style = if rng.chance(1, 2) { RStyle::Read(*rng.pick(&[1usize, 64, 4096])) } else { RStyle::FillBuf(rng.below(3) as u8) };
    }
    // close orders
    match rng.below(6) {
        0 => {} // graceful: both shut down, both read to EOF, then drop
        1 | 2 => {
            // abort by one side after reading a prefix, data possibly in flight both ways
            let a = rng.below(2) as usize;
            let peer_total = sides[1 - a].total_bytes();
            sides[a].shutdown = false;
            sides[a].read_limit = Some(if peer_total == 0 { 0 } else { rng.below(peer_total + 1) });
            sides[1 - a].retry_after_broken = rng.chance(1, 2);
        }
        3 => {
            // abort immediately without reading or writing anything
            let a = rng.below(2) as usize;
            sides[a].writes.clear();
            sides[a].shutdown = false;
            sides[a].read_limit = Some(0);
        }
        4 => {
            // read-to-EOF-then-drop without ever shutting down (peer finishes first)
            let a = rng.below(2) as usize;
            sides[a].shutdown = false;
            sides[a].read_limit = None;
        }
        _ => {
            // shutdown, then drop after a hold while the peer is still reading what was delivered
            let a = rng.below(2) as usize;
            sides[a].hold_ms = rng.range(0, 3);
        }
    }
    StreamPlan { sid, opener: rng.below(2) as u8, open_delay: 0, sides, awaited: [true, true], host_extra: vec![], port: sid as u16 }
}

fn cycles_case(st: &mut Stats, seed: u64, n_cycles: u32) {
    st.evaluations += 1;
    st.engine("SIM", 1);
    let mut rng = Rng64::new(mix(seed, 0xC6));
    let cfg = [streams::gen_cfg(&mut rng, Profile::Abort), streams::gen_cfg(&mut rng, Profile::Abort)];
    let caps = [*rng.pick(&[1usize, 2, 8, 0]), *rng.pick(&[1usize, 2, 8, 0])];
    let jitter = rng.below(4) as u8;
    let sh = sim::Shared::new(mix(seed, 4), jitter);
    let n_by = rng.range(2, 4) as u32;
    // bystanders: a little data every few virtual ms for the whole run
    let bystanders: Vec<StreamPlan> = (1..=n_by).map(|sid| {
        let mut sides = [SidePlan::quiet(), SidePlan::quiet()];
        for s in sides.iter_mut() {
            let mut w = Vec::new();
            for _ in 0..n_cycles.min(150) {
                w.push(WOp::Write(*rng.pick(&[1usize, 7, 64])));
                w.push(WOp::Sleep(rng.range(1, 3)));
            }
            s.writes = w;
            s.style = RStyle::Read(64);
        }
        StreamPlan { sid, opener: (sid % 2) as u8, open_delay: 0, sides, awaited: [true, true], host_extra: vec![], port: sid as u16 }
    }).collect();
    let cycle_plans: Vec<StreamPlan> = (0..n_cycles).map(|c| cycle_plan(&mut rng, 100 + c, &cfg)).collect();
    let reuse_flags: Vec<bool> = (0..n_cycles).map(|_| rng.chance(1, 2)).collect();
    let cfg2 = cfg.clone();
    let end = sim::run(&sh, move |sh| async move {
        let ([e0, e1], _net) = wl::connect(&sh, [&cfg2[0], &cfg2[1]], caps, [None, None], seed, true);
        let muxes = [e0.mux.clone(), e1.mux.clone()];
        let rngs = [e0.rng.clone(), e1.rng.clone()];
        let reg: Registry = Arc::new(Mutex::new(HashMap::new()));
        let (tx, mut rx) = mpsc::unbounded_channel();
        let acc: Vec<_> = (0..2u8).map(|ep| sim::spawn(&sh, 2000 + u64::from(ep), acceptor_loop(sh.clone(), muxes[ep as usize].clone(), ep, seed, reg.clone(), tx.clone()))).collect();
        drop(tx);
        let mut by_handles = Vec::new();
        for p in &bystanders {
            reg.lock().unwrap().insert(p.sid, p.clone());
            by_handles.push(sim::spawn(&sh, 5000 + u64::from(p.sid), wl::open_and_run(sh.clone(), muxes[p.opener as usize].clone(), p.opener, seed, p.clone())));
        }
        let mut pending: HashMap<u32, tokio::task::JoinHandle<Option<()>>> = HashMap::new();
        let mut prev_id: Option<u32> = None;
        let mut reuses = 0u32;
        for (c, plan) in cycle_plans.iter().enumerate() {
            reg.lock().unwrap().insert(plan.sid, plan.clone());
            if let (true, Some(id)) = (reuse_flags[c], prev_id) {
                // the id was freed on both endpoints (quiescent point reached): hand it out again
                rngs[plan.opener as usize].push(&[id]);
                reuses += 1;
            }
            let ep = plan.opener;
            let mux = muxes[ep as usize].clone();
            let host = wl::stream_host(plan.sid, &plan.host_extra);
            sh.api(ep, plan.sid, Api::OpenCall);
            match mux.new_stream_channel(&host, plan.port).await {
                Ok(s) => {
                    prev_id = Some(s.verif_flow_id());
                    wl::log_stream(&sh, ep, plan.sid, &s, true, true);
                    let opener_actor = sim::spawn(&sh, 6000 + u64::from(plan.sid), StreamActor::new(s, &sh, ep, plan.sid, seed, plan.sides[ep as usize].clone()));
                    // wait for the accepting side's actor of this cycle
                    while !pending.contains_key(&plan.sid) {
                        match rx.recv().await {
                            Some((sid, h)) => {
                                pending.insert(sid, h);
                            }
                            None => break,
                        }
                    }
                    opener_actor.await.ok();
                    if let Some(h) = pending.remove(&plan.sid) {
                        h.await.ok();
                    }
                }
                Err(e) => {
                    sh.api(ep, plan.sid, Api::OpenRet { ok: false, err: wl::err_name(&e), key: 0, flow: 0, credit: 0 });
                    prev_id = None;
                }
            }
            // quiescent point: both applications have let go of the stream
            sim::quiesce().await;
            for e in 0..2u8 {
                let ids = muxes[e as usize].verif_flow_ids();
                sh.api(e, 0, Api::Probe { flows: ids.len(), ids });
            }
        }
        for h in by_handles {
            h.await.ok();
        }
        while let Ok((_sid, h)) = rx.try_recv() {
            h.await.ok();
        }
        for (_, h) in pending {
            h.await.ok();
        }
        sim::quiesce().await;
        for e in 0..2u8 {
            let ids = muxes[e as usize].verif_flow_ids();
            sh.api(e, 0, Api::Probe { flows: ids.len(), ids });
        }
        for a in &acc {
            a.abort();
        }
        for a in acc {
            a.await.ok();
        }
        drop(muxes);
        let (m0, t0, m1, t1) = (e0.mux, e0.task, e1.mux, e1.task);
        sh.api(0, 0, Api::MuxDrop);
        drop(m0);
        t0.await.ok();
        drop(m1);
        t1.await.ok();
        reuses
    });
    let log = sh.take_log();
    let meta = Meta { abnormal_end: false, dgram_cap: [16, 16], stream_is_bridge: false, sim: true, ..Meta::default() };
    let an = monitors::analyse(&log, SPEC.fams, &meta);
    for (k, v) in &an.counters.c {
        st.count(k, *v);
    }
    st.count("log_events", log.len() as u64);
    st.count("cycles", u64::from(n_cycles));
    let mk = |extra: String, at: usize| json!({"kind": "c06-cycles", "run_seed": seed, "cycles": n_cycles, "cfg": [cfg[0].short(), cfg[1].short()], "note": extra,
        "trace": sim::render(&log[at.saturating_sub(70)..at.min(log.len())], 70)});
    match end {
        sim::RunEnd::Finished(reuses) => {
            st.target("id_reuses", u64::from(reuses));
            st.target("aborts", an.counters.get("aborts"));
            st.target("leak_probes", an.counters.get("leak_probes"));
            if an.counters.get("aborts") > 0 || reuses > 0 {
                st.nontrivial(mix(sh.hash(), u64::from(reuses)));
            }
        }
        sim::RunEnd::Stalled => {
            st.violation(Violation { signature: "stall|cycles".into(), detail: "a cycle never completed: after an abort/close the peer's reader never saw end-of-stream or a writer was never released (system idle)".into(), replay: mk("stalled".into(), log.len()) });
        }
        sim::RunEnd::Panicked(m) => st.inconclusive.push(format!("harness panic in c06 cycles: {m}")),
    }
    for f in an.findings {
        st.violation(Violation { signature: format!("{}|cycles", f.sig), detail: f.detail.clone(), replay: mk(f.detail, f.at) });
    }
    if st.samples.len() < 2 {
        st.sample(json!({"cycles": n_cycles, "bystanders": n_by, "cfg": [cfg[0].short(), cfg[1].short()], "first_cycle": format!("{:?}", cycle_plans_first(&log))}));
    }
}

fn cycle_plans_first(log: &[sim::Rec]) -> Vec<String> {
    sim::render(log, log.len()).into_iter().filter(|l| l.contains(" s100 ")).take(12).collect()
}

pub fn run(p: &Params) -> (Stats, &'static str) {
    std::panic::set_hook(Box::new(|_| {}));
    sim::install_observer();
    let mut st = Stats::new();
    let base = p.shard_seed("C06");
    let n = p.share(if p.tier_thorough { SPEC.runs_thorough } else { SPEC.runs_quick });
    for i in 0..n {
        let seed = mix(base, i);
        if i % 10 == 9 {
            let cycles = if p.tier_thorough { *Rng64::new(seed).pick(&[50u32, 200, 400]) } else { *Rng64::new(seed).pick(&[20u32, 60]) };
            cycles_case(&mut st, seed, cycles);
        } else {
            let sc = streams::gen_scenario(seed, Profile::Abort);
            let meta = Meta { abnormal_end: false, dgram_cap: [sc.cfg[0].dgram_buf, sc.cfg[1].dgram_buf], stream_is_bridge: false, sim: true, ..Meta::default() };
            let c = streams::execute(&mut st, &SPEC, &sc, &meta, "abort-profile");
            streams::record_coverage(&mut st, &sc, &c, &SPEC, seed);
        }
        if st.too_many_violations() {
            break;
        }
    }
    (st, SPEC.rule)
}
