//! C06 — abort semantics, isolation of bystanders, flow-id release and reuse.
//! SIM engine: (a) abort-profile general runs, (b) long open/close cycles with
//! bystanders, quiescent-point leak probes and scripted re-use of freed ids.

use crate::monitors::{self, Fam, Meta};
use crate::sim::{self, Api, Sh};
use crate::streams::{self, FamilySpec, Profile};
use crate::util::{Params, Rng64, Stats, Violation, mix};
use crate::wl::{self, EpCfg, RStyle, SidePlan, StreamActor, StreamPlan, WOp};
use serde_json::json;
use std::collections::HashMap;
use std::sync::{Arc, Mutex};
use tokio::sync::mpsc;

pub const SPEC: FamilySpec = FamilySpec {
    property: "C06",
    cmd: "c06",
    profile: Profile::Abort,
    fams: &[Fam::Abort, Fam::Alive, Fam::Panic],
    stall_is_violation: true,
    runs_quick: 12_000,
    runs_thorough: 600_000,
    rule: "one case = one execution of (a) an abort-profile scenario (2-6 streams, half of them aborted by one side after reading a random prefix, the others are bystanders) or (b) a cycle run: 2-4 bystander streams carrying data throughout while \
20-400 streams are opened and closed one after another in every close order (graceful, abort by either side with data in flight, read-to-EOF-then-drop, shutdown-then-drop), flow tables probed at a quiescent point after every cycle and freed ids re-issued \
through a scripted RNG. Oracle: peer of an abort reads everything delivered before the Reset and then EOF, its later writes fail with BrokenPipe, bystanders keep data and state, no flow-table entry without an owner, no owner (handle still held after a graceful end) without a flow-table entry, an id the peer still holds is refused and the retry succeeds, \
re-opened ids behave like fresh ones (credit, data, open). Non-trivial = at least one abort or one id re-use happened",
};

type Registry = Arc<Mutex<HashMap<u32, StreamPlan>>>;

async fn acceptor_loop(sh: Sh, mux: Arc<wl::Mux>, ep: u8, seed: u64, reg: Registry, tx: mpsc::UnboundedSender<(u32, tokio::task::JoinHandle<Option<()>>)>) {
    loop {
        match mux.accept_stream_channel().await {
            Ok(s) => {
                let sid = wl::parse_sid(&s.dest_host);
                let plan = sid.and_then(|sid| reg.lock().unwrap().get(&sid).cloned());
                let Some(plan) = plan else {
                    sh.api(ep, u32::MAX, Api::Accepted { key: s.verif_key(), flow: s.verif_flow_id(), credit: s.verif_send_credit(), host_ok: false });
                    continue;
                };
                let host_ok = s.dest_host.as_ref() == wl::stream_host(plan.sid, &plan.host_extra).as_slice() && s.dest_port == plan.port;
                wl::log_stream(&sh, ep, plan.sid, &s, false, host_ok);
                let actor = StreamActor::new(s, &sh, ep, plan.sid, seed, plan.sides[ep as usize].clone());
                let h = sim::spawn(&sh, 3000 + 1000 * u64::from(ep) + u64::from(plan.sid), actor);
                if tx.send((plan.sid, h)).is_err() {
                    break;
                }
            }
            Err(e) => {
                sh.api(ep, 0, Api::AcceptErr { err: wl::err_name(&e) });
                break;
            }
        }
    }
}

fn cycle_plan(rng: &mut Rng64, sid: u32, cfg: &[EpCfg; 2]) -> StreamPlan {
    let mut sides = [SidePlan::quiet(), SidePlan::quiet()];
    for e in 0..2 {
        let n = rng.range(0, 2 * u64::from(cfg[1 - e].rwnd) + 2);
        sides[e].writes = (0..n).map(|_| if rng.chance(1, 8) { WOp::Yield } else { WOp::Write(*rng.pick(&[1usize, 3, 64, 500])) }).collect();
        sides[e].style = if rng.chance(1, 2) { RStyle::Read(*rng.pick(&[1usize, 64, 4096])) } else { RStyle::FillBuf(rng.below(3) as u8) };
    }
    // close orders
    match rng.below(6) {
        0 => {} // graceful: both shut down, both read to EOF, then drop
        1 | 2 => {
            // abort by one side after reading a prefix, data possibly in flight both ways
            let a = rng.below(2) as usize;
            let peer_total = sides[1 - a].total_bytes();
            sides[a].shutdown = false;
            sides[a].read_limit = Some(if peer_total == 0 { 0 } else { rng.below(peer_total + 1) });
            sides[1 - a].retry_after_broken = rng.chance(1, 2);
        }
        3 => {
            // abort immediately without reading or writing anything
            let a = rng.below(2) as usize;
            sides[a].writes.clear();
            sides[a].shutdown = false;
            sides[a].read_limit = Some(0);
        }
        4 => {
            // read-to-EOF-then-drop without ever shutting down (peer finishes first)
            let a = rng.below(2) as usize;
            sides[a].shutdown = false;
            sides[a].read_limit = None;
        }
        _ => {
            // shutdown, then drop after a hold while the peer is still reading what was delivered
            let a = rng.below(2) as usize;
            sides[a].hold_ms = rng.range(0, 3);
        }
    }
    StreamPlan { sid, opener: rng.below(2) as u8, open_delay: 0, sides, awaited: [true, true], host_extra: vec![], port: sid as u16 }
}

fn cycles_case(st: &mut Stats, seed: u64, n_cycles: u32) {
    st.evaluations += 1;
    st.engine("SIM", 1);
    let mut rng = Rng64::new(mix(seed, 0xC6));
    let cfg = [streams::gen_cfg(&mut rng, Profile::Abort), streams::gen_cfg(&mut rng, Profile::Abort)];
    let caps = [*rng.pick(&[1usize, 2, 8, 0]), *rng.pick(&[1usize, 2, 8, 0])];
    let jitter = rng.below(4) as u8;
    let sh = sim::Shared::new(mix(seed, 4), jitter);
    let n_by = rng.range(2, 4) as u32;
    // bystanders: a little data every few virtual ms for the whole run
    let bystanders: Vec<StreamPlan> = (1..=n_by).map(|sid| {
        let mut sides = [SidePlan::quiet(), SidePlan::quiet()];
        for s in sides.iter_mut() {
            let mut w = Vec::new();
            for _ in 0..n_cycles.min(150) {
                w.push(WOp::Write(*rng.pick(&[1usize, 7, 64])));
                w.push(WOp::Sleep(rng.range(1, 3)));
            }
            s.writes = w;
            s.style = RStyle::Read(64);
        }
        StreamPlan { sid, opener: (sid % 2) as u8, open_delay: 0, sides, awaited: [true, true], host_extra: vec![], port: sid as u16 }
    }).collect();
    let mut cycle_plans: Vec<StreamPlan> = (0..n_cycles).map(|c| cycle_plan(&mut rng, 100 + c, &cfg)).collect();
    let reuse_flags: Vec<bool> = (0..n_cycles).map(|_| rng.chance(1, 2)).collect();
    // "held" pairs: cycle c ends gracefully but its opener keeps the handle for a while; the other end, for which the id
    // is free again once it dropped its own handle, then picks that very id for cycle c+1 (scripted RNG)
    let mut held_flags = vec![false; n_cycles as usize];
    let mut c = 0usize;
    while c + 1 < n_cycles as usize {
        if rng.chance(1, 6) {
            held_flags[c] = true;
            let opener = cycle_plans[c].opener;
            for e in 0..2 {
                let sp = &mut cycle_plans[c].sides[e];
                sp.shutdown = true;
                sp.read_limit = None;
                sp.retry_after_broken = false;
                sp.hold_ms = 0;
            }
            cycle_plans[c].sides[opener as usize].hold_ms = 6;
            let next = &mut cycle_plans[c + 1];
            next.opener = 1 - opener;
            for e in 0..2 {
                let sp = &mut next.sides[e];
                sp.shutdown = true;
                sp.read_limit = None;
                sp.retry_after_broken = false;
                sp.hold_ms = 0;
                // the new stream is alive while the old handle is dropped
                let mid = sp.writes.len() / 2;
                sp.writes.insert(mid, WOp::Sleep(8));
                sp.writes.push(WOp::Write(5));
            }
            c += 2;
        } else {
            c += 1;
        }
    }
    let cfg2 = cfg.clone();
    let end = sim::run(&sh, move |sh| async move {
        let ([e0, e1], _net) = wl::connect(&sh, [&cfg2[0], &cfg2[1]], caps, [None, None], seed, true);
        let muxes = [e0.mux.clone(), e1.mux.clone()];
        let rngs = [e0.rng.clone(), e1.rng.clone()];
        let reg: Registry = Arc::new(Mutex::new(HashMap::new()));
        let (tx, mut rx) = mpsc::unbounded_channel();
        let acc: Vec<_> = (0..2u8).map(|ep| sim::spawn(&sh, 2000 + u64::from(ep), acceptor_loop(sh.clone(), muxes[ep as usize].clone(), ep, seed, reg.clone(), tx.clone()))).collect();
        drop(tx);
        let mut by_handles = Vec::new();
        for p in &bystanders {
            reg.lock().unwrap().insert(p.sid, p.clone());
            by_handles.push(sim::spawn(&sh, 5000 + u64::from(p.sid), wl::open_and_run(sh.clone(), muxes[p.opener as usize].clone(), p.opener, seed, p.clone())));
        }
        let mut pending: HashMap<u32, tokio::task::JoinHandle<Option<()>>> = HashMap::new();
        let mut prev_id: Option<u32> = None;
        let mut reuses = 0u32;
        let mut held_actor: Option<tokio::task::JoinHandle<Option<()>>> = None;
        let mut held_checks: Vec<(u32, u32, bool)> = Vec::new();
        let mut force_id: Option<u32> = None;
        let mut held_skipped = 0u32;
        for (c, plan) in cycle_plans.iter().enumerate() {
            reg.lock().unwrap().insert(plan.sid, plan.clone());
            if let Some(id) = force_id.take() {
                // the peer still holds a stream with this id; the Connect must be refused and retried with a fresh id
                rngs[plan.opener as usize].push(&[id]);
                reuses += 1;
            } else if let (true, Some(id)) = (reuse_flags[c], prev_id) {
                // the id was freed on both endpoints (quiescent point reached): hand it out again
                rngs[plan.opener as usize].push(&[id]);
                reuses += 1;
            }
            let ep = plan.opener;
            let mux = muxes[ep as usize].clone();
            let host = wl::stream_host(plan.sid, &plan.host_extra);
            sh.api(ep, plan.sid, Api::OpenCall);
            match mux.new_stream_channel(&host, plan.port).await {
                Ok(s) => {
                    prev_id = Some(s.verif_flow_id());
                    wl::log_stream(&sh, ep, plan.sid, &s, true, true);
                    let opener_actor = sim::spawn(&sh, 6000 + u64::from(plan.sid), StreamActor::new(s, &sh, ep, plan.sid, seed, plan.sides[ep as usize].clone()));
                    // wait for the accepting side's actor of this cycle
                    while !pending.contains_key(&plan.sid) {
                        match rx.recv().await {
                            Some((sid, h)) => {
                                pending.insert(sid, h);
                            }
                            None => break,
                        }
                    }
                    if held_flags[c] {
                        // only the accepting side lets go; the opener keeps its handle (both directions have ended)
                        if let Some(h) = pending.remove(&plan.sid) {
                            h.await.ok();
                        }
                        sim::quiesce().await;
                        let x = prev_id.expect("id");
                        let present = muxes[ep as usize].verif_flow_ids().contains(&x);
                        // a Reset of this flow (e.g. the peer's answer to an Acknowledge that arrived after it had let go)
                        // legitimately removes the entry although the handle is still held: no demand then, and no forced re-use
                        let reset_seen = sh.lock().log.iter().rev().take_while(|r| !matches!(&r.ev, sim::Ev::Api { sid, op: Api::OpenCall, .. } if *sid == plan.sid))
                            .any(|r| matches!(&r.ev, sim::Ev::Sent { m: sim::Wm::Reset { id }, .. } if *id == x));
                        if reset_seen {
                            held_skipped += 1;
                        } else {
                            held_checks.push((plan.sid, x, present || opener_actor.is_finished()));
                            force_id = Some(x);
                        }
                        held_actor = Some(opener_actor);
                        prev_id = None;
                        continue;
                    }
                    opener_actor.await.ok();
                    if let Some(h) = pending.remove(&plan.sid) {
                        h.await.ok();
                    }
                    if let Some(h) = held_actor.take() {
                        h.await.ok();
                    }
                }
                Err(e) => {
                    sh.api(ep, plan.sid, Api::OpenRet { ok: false, err: wl::err_name(&e), key: 0, flow: 0, credit: 0 });
                    prev_id = None;
                }
            }
            // quiescent point: both applications have let go of the stream
            sim::quiesce().await;
            for e in 0..2u8 {
                let ids = muxes[e as usize].verif_flow_ids();
                sh.api(e, 0, Api::Probe { flows: ids.len(), ids });
            }
        }
        if let Some(h) = held_actor.take() {
            h.await.ok();
        }
        for h in by_handles {
            h.await.ok();
        }
        while let Ok((_sid, h)) = rx.try_recv() {
            h.await.ok();
        }
        for (_, h) in pending {
            h.await.ok();
        }
        sim::quiesce().await;
        for e in 0..2u8 {
            let ids = muxes[e as usize].verif_flow_ids();
            sh.api(e, 0, Api::Probe { flows: ids.len(), ids });
        }
        for a in &acc {
            a.abort();
        }
        for a in acc {
            a.await.ok();
        }
        drop(muxes);
        let (m0, t0, m1, t1) = (e0.mux, e0.task, e1.mux, e1.task);
        sh.api(0, 0, Api::MuxDrop);
        drop(m0);
        t0.await.ok();
        drop(m1);
        t1.await.ok();
        (reuses, held_checks, held_skipped)
    });
    let log = sh.take_log();
    if std::env::var("C06_DUMP").is_ok() {
        for l in sim::render(&log, log.len()) {
            eprintln!("{l}");
        }
    }
    let meta = Meta { abnormal_end: false, dgram_cap: [16, 16], stream_is_bridge: false, sim: true, ..Meta::default() };
    let an = monitors::analyse(&log, SPEC.fams, &meta);
    for (k, v) in &an.counters.c {
        st.count(k, *v);
    }
    st.count("log_events", log.len() as u64);
    st.count("cycles", u64::from(n_cycles));
    let mk = |extra: String, at: usize| json!({"kind": "c06-cycles", "run_seed": seed, "cycles": n_cycles, "cfg": [cfg[0].short(), cfg[1].short()], "note": extra,
        "trace": sim::render(&log[at.saturating_sub(70)..at.min(log.len())], 70)});
    match end {
        sim::RunEnd::Finished((reuses, held_checks, held_skipped)) => {
            st.target("held_handle_probes", held_checks.len() as u64);
            st.count("held_handle_probes_skipped_after_reset", u64::from(held_skipped));
            for (sid, x, present) in &held_checks {
                if !present {
                    st.violation(Violation { signature: "id-released-while-stream-held|cycles".into(), detail: format!("stream s{sid} (flow id {x:x}) had ended gracefully in both directions and the application still held its handle, but the id was no longer in the endpoint's flow table at the quiescent point: the id can be handed to a new stream that the old handle's drop will then reset"), replay: mk(format!("held s{sid}"), log.iter().rposition(|r| matches!(&r.ev, sim::Ev::Api { sid: s2, .. } if s2 == sid)).map_or(log.len(), |i| i + 25)) });
                }
            }
            st.target("id_reuses", u64::from(reuses));
            st.target("aborts", an.counters.get("aborts"));
            st.target("leak_probes", an.counters.get("leak_probes"));
            if an.counters.get("aborts") > 0 || reuses > 0 {
                st.nontrivial(mix(sh.hash(), u64::from(reuses)));
            }
        }
        sim::RunEnd::Stalled => {
            st.violation(Violation { signature: "stall|cycles".into(), detail: "a cycle never completed: after an abort/close the peer's reader never saw end-of-stream or a writer was never released (system idle)".into(), replay: mk("stalled".into(), log.len()) });
        }
        sim::RunEnd::Panicked(m) => st.inconclusive.push(format!("harness panic in c06 cycles: {m}")),
    }
    for f in an.findings {
        st.violation(Violation { signature: format!("{}|cycles", f.sig), detail: f.detail.clone(), replay: mk(f.detail, f.at) });
    }
    if st.samples.len() < 2 {
        st.sample(json!({"cycles": n_cycles, "bystanders": n_by, "cfg": [cfg[0].short(), cfg[1].short()], "first_cycle": format!("{:?}", cycle_plans_first(&log))}));
    }
}

fn cycle_plans_first(log: &[sim::Rec]) -> Vec<String> {
    sim::render(log, log.len()).into_iter().filter(|l| l.contains(" s100 ")).take(12).collect()
}

/// Real threads (6 workers): four application tasks open streams, write a byte and drop them unfinished, hundreds of times, while
/// the connection task runs on another worker - so that the task meets a stream at every stage of being dropped. Judged by final
/// state only, never by time: every such abort puts exactly one Reset of that flow on the wire before the (orderly) end of the
/// connection, and the endpoint's flow table drains (the wait for that is bounded by 20 s of an otherwise idle endpoint; an entry
/// that is still there then is there for good).
fn abort_hammer(st: &mut Stats, seed: u64, per_task: u32) {
    use tokio::io::{AsyncReadExt, AsyncWriteExt};
    st.evaluations += 1;
    st.engine("THR", 1);
    let cfg = EpCfg { rwnd: 4, thr: 2, stream_buf: 64, ..EpCfg::default() };
    let sh = sim::Shared::new(mix(seed, 9), 0);
    let end = sim::run_threads(&sh, 6, std::time::Duration::from_secs(120), move |sh| async move {
        let ([e0, e1], _net) = wl::connect(&sh, [&cfg, &cfg], [0, 0], [None, None], seed, false);
        let acc_mux = e1.mux.clone();
        let acc = tokio::spawn(async move {
            while let Ok(mut s) = acc_mux.accept_stream_channel().await {
                tokio::spawn(async move {
                    let mut b = [0u8; 16];
                    loop {
                        match s.read(&mut b).await {
                            Ok(0) | Err(_) => break,
                            Ok(_) => {}
                        }
                    }
                });
            }
        });
        let mut hs = Vec::new();
        for _ in 0..4 {
            let m = e0.mux.clone();
            hs.push(tokio::spawn(async move {
                let mut ids = Vec::new();
                for k in 0..per_task {
                    if let Ok(mut s) = m.new_stream_channel(b"h.", 1).await {
                        ids.push(s.verif_flow_id());
                        let _ = s.write(b"x").await;
                        if k % 3 == 0 {
                            tokio::task::yield_now().await;
                        }
                        drop(s);
                    }
                }
                ids
            }));
        }
        let mut ids = Vec::new();
        for h in hs {
            ids.extend(h.await.unwrap_or_default());
        }
        // let the endpoint finish what the drops asked of it
        let t0 = std::time::Instant::now();
        let mut left = e0.mux.verif_flow_count();
        while left > 0 && t0.elapsed() < std::time::Duration::from_secs(20) {
            tokio::time::sleep(std::time::Duration::from_millis(5)).await;
            left = e0.mux.verif_flow_count();
        }
        acc.abort();
        let (m0, t0h, m1, t1h) = (e0.mux, e0.task, e1.mux, e1.task);
        drop(m0);
        t0h.await.ok();
        drop(m1);
        t1h.await.ok();
        (ids, left)
    });
    let log = sh.take_log();
    match end {
        sim::RunEnd::Finished((ids, left)) => {
            st.target("aborts", ids.len() as u64);
            st.target("aborts_on_real_threads", ids.len() as u64);
            st.nontrivial(mix(seed, ids.len() as u64));
            let mut resets: HashMap<u32, u32> = HashMap::new();
            for r in &log {
                if let sim::Ev::Sent { ep: 0, m: sim::Wm::Reset { id } } = &r.ev {
                    *resets.entry(*id).or_default() += 1;
                }
            }
            let silent: Vec<u32> = ids.iter().copied().filter(|i| !resets.contains_key(i)).collect();
            let replay = json!({"kind": "c06-abort-hammer", "run_seed": seed, "aborts": ids.len(), "without_reset": silent.len(), "table_entries_left": left, "note": "real-thread race; re-run the job, the run is not deterministic"});
            if !silent.is_empty() {
                st.violation(Violation { signature: "abort-not-signalled|hammer".into(), detail: format!("{} streams were opened, written to and dropped without shutdown; for {} of them (e.g. flow {:x}) no Reset was ever put on the wire although the connection was up until the application let go of it after the drops had been dealt with", ids.len(), silent.len(), silent[0]), replay: replay.clone() });
            }
            if left > 0 {
                st.violation(Violation { signature: "abort-leaves-table-entry|hammer".into(), detail: format!("20 s after the last of {} aborts the endpoint's flow table still holds {left} entries although its application holds no stream", ids.len()), replay });
            }
        }
        sim::RunEnd::Stalled => st.inconclusive.push("c06 abort hammer hit its 120 s wall-clock limit".into()),
        sim::RunEnd::Panicked(m) => st.inconclusive.push(format!("harness panic in c06 abort hammer: {m}")),
    }
}

pub fn run(p: &Params) -> (Stats, &'static str) {
    std::panic::set_hook(Box::new(|_| {}));
    sim::install_observer();
    let mut st = Stats::new();
    if let Some(rs) = p.get("run-seed").and_then(|x| x.parse::<u64>().ok()) {
        // re-execute one cycle run (C06_DUMP=1 prints its whole event log)
        cycles_case(&mut st, rs, p.get("cycles").and_then(|x| x.parse().ok()).unwrap_or(20));
        return (st, SPEC.rule);
    }
    let base = p.shard_seed("C06");
    if p.get("engine") == Some("thr") {
        let rounds = p.share(if p.tier_thorough { 400 } else { 24 });
        for i in 0..rounds {
            abort_hammer(&mut st, mix(base, 0xAB_0000 + i), 400);
            if st.too_many_violations() {
                break;
            }
        }
        return (st, SPEC.rule);
    }
    let n = p.share(if p.tier_thorough { SPEC.runs_thorough } else { SPEC.runs_quick });
    for i in 0..n {
        let seed = mix(base, i);
        if i % 10 == 9 {
            let cycles = if p.tier_thorough { *Rng64::new(seed).pick(&[50u32, 200, 400]) } else { *Rng64::new(seed).pick(&[20u32, 60]) };
            cycles_case(&mut st, seed, cycles);
        } else {
            let sc = streams::gen_scenario(seed, Profile::Abort);
            let meta = Meta { abnormal_end: false, dgram_cap: [sc.cfg[0].dgram_buf, sc.cfg[1].dgram_buf], stream_is_bridge: false, sim: true, ..Meta::default() };
            let c = streams::execute(&mut st, &SPEC, &sc, &meta, "abort-profile");
            streams::record_coverage(&mut st, &sc, &c, &SPEC, seed);
        }
        if st.too_many_violations() {
            break;
        }
    }
    (st, SPEC.rule)
}
