//! C10 — a misbehaving peer cannot crash, wedge or cross-contaminate an endpoint.
//! SIM engine; the peer is a scripted raw peer speaking reference-codec frames.
//! All frame sequences up to a fixed length over (opcode x target) are enumerated.

use crate::endops;
use crate::memws;
use crate::monitors::{self, Fam, Meta};
use crate::raw::{Got, Raw};
use crate::refcodec::RefFrame;
use crate::sim::{self, Api, Ev, Rec, Sh, Wm};
use crate::util::{Params, Rng64, Stats, Violation, mix, prf_mismatch, prf_vec};
use crate::wl::{self, EpCfg, RStyle, SidePlan, StreamActor, WOp};
use penguin_mux::MuxStream;
use penguin_mux::frame::BindType;
use serde_json::json;
use std::sync::Arc;
use std::time::Duration;
use tokio::io::{AsyncReadExt, AsyncWriteExt};

const RULE: &str = "one case = one execution of a real endpoint holding: a bystander stream carrying PRF data both ways, an established idle flow E, a flow half-closed by the endpoint, a flow half-closed by the peer, a pending open R, a pending bind B; \
against a raw peer that sends a sequence of well-formed frames over {Connect, Ack(1), Ack(2^32-1), Reset, Finish, Push(data), Push(empty), Bind, Datagram} x {id 0, E, E_hcl, E_hcp, R, B, fresh unknown id}: all sequences up to length 2 (quick) / 3 (thorough), \
random sequences up to 40 and window+1 Push bursts beyond, binds enabled and disabled, plus an invalid message at a random position. Oracle A1-A7: exactly one Reset per Ack/Finish/Push on an unknown id or id 0, never a Reset after the peer's Reset, \
Connect on id 0 / in-use id => one Reset and no Ack, overrun => Reset of that flow only with queued data then EOF, Bind with binds disabled => Reset, bystander data intact and complete, liveness probe passes, task neither returned nor panicked; garbage => Err(InvalidFrame) and everything pending resolves. \
Non-trivial = the sequence contains at least one frame; distinct = distinct (sequence, variant)";

const OPS: [&str; 9] = ["Connect", "Ack1", "AckMax", "Reset", "Finish", "Push", "PushEmpty", "Bind", "Dgram"];
const TARGETS: [&str; 7] = ["0", "E", "HCL", "HCP", "R", "B", "U"];

#[derive(Clone, Copy, Debug, PartialEq, Eq, Hash)]
struct Step {
    op: u8,
    target: u8,
}

const BY: u32 = 0x0B00_0001;
const E: u32 = 0x0E00_0001;
const HCL: u32 = 0x0E00_0002;
const HCP: u32 = 0x0E00_0003;
const BY_SID: u32 = 1;

/// The application side of the endpoint under test: accepts streams and treats them by their tag.
async fn acceptor(sh: Sh, mux: Arc<wl::Mux>, seed: u64, by_plan: SidePlan) {
    let mut jobs = Vec::new();
    loop {
        let Ok(s) = mux.accept_stream_channel().await else { break };
        let host = s.dest_host.to_vec();
        if host.starts_with(b"s1.") {
            wl::log_stream(&sh, 0, BY_SID, &s, false, true);
            jobs.push(sim::spawn(&sh, 3001, StreamActor::new(s, &sh, 0, BY_SID, seed, by_plan.clone())));
        } else if host.starts_with(b"hcl.") {
            jobs.push(sim::spawn(&sh, 3002, async move {
                let mut s: MuxStream = s;
                s.shutdown().await.ok();
                let mut b = [0u8; 64];
                while let Ok(n) = s.read(&mut b).await {
                    if n == 0 {
                        break;
                    }
                }
            }));
        } else if host.starts_with(b"hcp.") {
            jobs.push(sim::spawn(&sh, 3003, async move {
                let mut s: MuxStream = s;
                let mut b = [0u8; 64];
                while let Ok(n) = s.read(&mut b).await {
                    if n == 0 {
                        break;
                    }
                }
                // keep the write half usable
                tokio::time::sleep(Duration::from_secs(100_000)).await;
                drop(s);
            }));
        } else if host.starts_with(b"probe.") {
            jobs.push(sim::spawn(&sh, 3004, async move {
                let mut s: MuxStream = s;
                let mut b = [0u8; 256];
                while let Ok(n) = s.read(&mut b).await {
                    if n == 0 || s.write_all(&b[..n]).await.is_err() {
                        break;
                    }
                }
            }));
        } else {
            // E and anything the sequence opens: hold without reading
            jobs.push(sim::spawn(&sh, 3005, async move {
                let s: MuxStream = s;
                tokio::time::sleep(Duration::from_secs(100_000)).await;
                drop(s);
            }));
        }
    }
    for j in jobs {
        j.abort();
    }
}

async fn send_by(raw: &mut Raw, key: u64, by_credit: &mut u32, by_sent: &mut usize, upto: usize) {
    let upto = upto.min(600);
    while *by_sent < upto && *by_credit > 0 {
        let n = (upto - *by_sent).min(37);
        raw.send(&RefFrame::Push { id: BY, data: prf_vec(key, *by_sent as u64, n) }).await;
        *by_sent += n;
        *by_credit -= 1;
    }
}

struct Outcome {
    /// frames the endpoint sent per step (stepwise mode) or for the whole burst
    responses: Vec<Vec<Got>>,
    ids: Vec<u32>,
    by_rx_ok: bool,
    by_rx_bytes: usize,
    by_finish_seen: bool,
    probe_ok: [bool; 2],
    task_alive: bool,
    overrun: Option<(usize, Vec<Got>, String)>,
    garbage: Option<(String, Vec<endops::Outcome>)>,
    r_id: u32,
    b_id: u32,
}

#[derive(Clone, Debug)]
struct Variant {
    binds_enabled: bool,
    stepwise: bool,
    rwnd: u32,
    overrun: bool,
    garbage_at: Option<usize>,
}

fn frame_for(step: Step, id: u32, rng: &mut Rng64) -> RefFrame {
    match step.op {
        0 => RefFrame::Connect { id, rwnd: 1000, port: 9, host: b"x.".to_vec() },
        1 => RefFrame::Ack { id, n: 1 },
        2 => RefFrame::Ack { id, n: u32::MAX },
        3 => RefFrame::Reset { id },
        4 => RefFrame::Finish { id },
        5 => RefFrame::Push { id, data: rng.bytes(5) },
        6 => RefFrame::Push { id, data: vec![] },
        7 => RefFrame::Bind { id, btype: if rng.chance(1, 2) { 1 } else { 3 }, port: 77, host: b"bindhost".to_vec() },
        _ => RefFrame::Datagram { id, port: 53, host: b"dg".to_vec(), data: rng.bytes(3) },
    }
}

async fn run_case(sh: Sh, seed: u64, seq: Vec<Step>, v: Variant) -> Outcome {
    let mut rng = Rng64::new(mix(seed, 0x10));
    let cfg = EpCfg { rwnd: v.rwnd, thr: 1, bind_buf: if v.binds_enabled { 8 } else { 0 }, stream_buf: 16, ..EpCfg::default() };
    let (w0, w1, _net) = memws::pair(&sh, [0, 0], [None, None], true);
    let e0 = wl::endpoint(&sh, 0, &cfg, w0, seed);
    let mut raw = Raw::new(w1);
    let mux = e0.mux.clone();
    // bystander plan for the endpoint's application
    let mut by_plan = SidePlan::quiet();
    by_plan.writes = (0..8).map(|i| if i % 3 == 2 { WOp::Sleep(1) } else { WOp::Write(*rng.pick(&[1usize, 9, 64])) }).collect();
    by_plan.style = RStyle::Read(64);
    let by_total_from_eut: u64 = by_plan.total_bytes();
    let acc = sim::spawn(&sh, 2000, acceptor(sh.clone(), mux.clone(), seed, by_plan));
    // datagram and bind consumers
    let m2 = mux.clone();
    let dg = sim::spawn(&sh, 2001, async move { while m2.get_datagram().await.is_ok() {} });
    let m3 = mux.clone();
    let binds = sim::spawn(&sh, 2002, async move {
        while let Ok(r) = m3.next_bind_request().await {
            r.reply(true).ok();
        }
    });
    // setup: flows from the raw peer
    raw.send(&RefFrame::Connect { id: BY, rwnd: 1000, port: 1, host: b"s1.".to_vec() }).await;
    raw.send(&RefFrame::Connect { id: E, rwnd: 1000, port: 2, host: b"e.".to_vec() }).await;
    raw.send(&RefFrame::Connect { id: HCL, rwnd: 1000, port: 3, host: b"hcl.".to_vec() }).await;
    raw.send(&RefFrame::Connect { id: HCP, rwnd: 1000, port: 4, host: b"hcp.".to_vec() }).await;
    raw.send(&RefFrame::Finish { id: HCP }).await;
    // pending open and pending bind on the endpoint
    let m4 = mux.clone();
    // if the peer completes the handshake the application keeps the stream (the slot stays in use)
    let keep: Arc<std::sync::Mutex<Vec<MuxStream>>> = Arc::new(std::sync::Mutex::new(Vec::new()));
    let keep2 = keep.clone();
    let pend_open = sim::spawn(&sh, 2003, async move { m4.new_stream_channel(b"r.", 5).await.map(|s| keep2.lock().unwrap().push(s)).map_err(|e| wl::err_name(&e)) });
    let m5 = mux.clone();
    let pend_bind = sim::spawn(&sh, 2004, async move { m5.request_bind(b"b.", 6, BindType::Stream).await.map_err(|e| wl::err_name(&e)) });
    let setup = raw.drain().await;
    let mut r_id = 0;
    let mut b_id = 0;
    let mut by_credit: u32 = 0;
    let mut by_rx: Vec<u8> = Vec::new();
    let mut by_finish_seen = false;
    let by_wkey = wl::data_key(seed, BY_SID, 1);
    let by_rkey = wl::data_key(seed, BY_SID, 0);
    for g in &setup {
        match g {
            Got::Frame(RefFrame::Connect { id, host, .. }) if host == b"r." => r_id = *id,
            Got::Frame(RefFrame::Bind { id, .. }) => b_id = *id,
            Got::Frame(RefFrame::Ack { id, n }) if *id == BY => by_credit += *n,
            Got::Frame(RefFrame::Push { id, data }) if *id == BY => by_rx.extend_from_slice(data),
            Got::Frame(RefFrame::Finish { id }) if *id == BY => by_finish_seen = true,
            _ => {}
        }
    }
    // bystander data from the raw peer, sent in pieces around the offending frames
    let by_total: usize = 600;
    let mut by_sent = 0usize;
    send_by(&mut raw, by_wkey, &mut by_credit, &mut by_sent, 150).await;
    let mut responses: Vec<Vec<Got>> = Vec::new();
    let mut ids = Vec::new();
    let mut fresh: u32 = 0x7000_0000 + (rng.next() as u32 & 0xffff);
    let mut absorb = |got: &[Got], by_credit: &mut u32, by_rx: &mut Vec<u8>, fin: &mut bool| -> Vec<Got> {
        let mut rest = Vec::new();
        for g in got {
            match g {
                Got::Frame(RefFrame::Ack { id, n }) if *id == BY => *by_credit = by_credit.saturating_add(*n),
                Got::Frame(RefFrame::Push { id, data }) if *id == BY => by_rx.extend_from_slice(data),
                Got::Frame(RefFrame::Finish { id }) if *id == BY => *fin = true,
                other => rest.push(other.clone()),
            }
        }
        rest
    };
    let mut garbage: Option<(String, Vec<endops::Outcome>)> = None;
    let mut burst: Vec<Got> = Vec::new();
    for (i, st) in seq.iter().enumerate() {
        if v.garbage_at == Some(i) {
            raw.send_bytes(vec![0x7f, 0xde, 0xad]).await;
            break;
        }
        let id = match st.target {
            0 => 0,
            1 => E,
            2 => HCL,
            3 => HCP,
            4 => r_id,
            5 => b_id,
            _ => {
                fresh += 1;
                fresh
            }
        };
        ids.push(id);
        raw.send(&frame_for(*st, id, &mut rng)).await;
        if v.stepwise {
            let got = raw.drain().await;
            responses.push(absorb(&got, &mut by_credit, &mut by_rx, &mut by_finish_seen));
            if i % 2 == 0 {
                send_by(&mut raw, by_wkey, &mut by_credit, &mut by_sent, 150 + (i + 1) * 60).await;
            }
        } else if rng.chance(1, 3) {
            let upto = by_sent + 37;
            send_by(&mut raw, by_wkey, &mut by_credit, &mut by_sent, upto).await;
        }
    }
    if v.garbage_at.is_some() {
        // A7: the task must return Err(InvalidFrame) and everything pending must resolve
        let mut task = e0.task;
        let res = tokio::time::timeout(Duration::from_millis(5), &mut task).await;
        let task_res = match res {
            Ok(_) => "returned".to_string(),
            Err(_) => "still-running".to_string(),
        };
        let mut outs: Vec<endops::Outcome> = Vec::new();
        let o = tokio::time::timeout(Duration::from_millis(5), pend_open).await;
        outs.push(("open", o.ok().and_then(|r| r.ok().flatten()).map(|r| match r { Ok(()) => "ok".to_string(), Err(e) => format!("err:{e}") })));
        let b = tokio::time::timeout(Duration::from_millis(5), pend_bind).await;
        outs.push(("request_bind", b.ok().and_then(|r| r.ok().flatten()).map(|r| match r { Ok(x) => format!("ok:{x}"), Err(e) => format!("err:{e}") })));
        let a = tokio::time::timeout(Duration::from_millis(5), acc).await;
        outs.push(("accept", a.ok().map(|_| "err:Closed-after-0".to_string())));
        let d = tokio::time::timeout(Duration::from_millis(5), dg).await;
        outs.push(("get_datagram", d.ok().map(|_| "err:Closed-after-0".to_string())));
        binds.abort();
        garbage = Some((task_res, outs));
        drop(mux);
        drop(e0.mux);
        return Outcome { responses, ids, by_rx_ok: true, by_rx_bytes: 0, by_finish_seen: false, probe_ok: [true, true], task_alive: true, overrun: None, garbage, r_id, b_id };
    }
    if !v.stepwise {
        let got = raw.drain().await;
        burst = absorb(&got, &mut by_credit, &mut by_rx, &mut by_finish_seen);
        responses.push(burst.clone());
    }
    // A4: overrun E (if it is still the flow we opened and nothing in the sequence touched it)
    let mut overrun = None;
    if v.overrun {
        for _ in 0..=v.rwnd {
            raw.send(&RefFrame::Push { id: E, data: b"ovr".to_vec() }).await;
        }
        let got = raw.drain().await;
        let rest = absorb(&got, &mut by_credit, &mut by_rx, &mut by_finish_seen);
        overrun = Some((v.rwnd as usize, rest, String::new()));
    }
    // finish the bystander: remaining data, Finish, and collect what the endpoint still sends
    for _ in 0..200 {
        if by_sent >= by_total {
            break;
        }
        send_by(&mut raw, by_wkey, &mut by_credit, &mut by_sent, by_total).await;
        let got = raw.drain().await;
        let rest = absorb(&got, &mut by_credit, &mut by_rx, &mut by_finish_seen);
        responses.last_mut().map(|l| l.extend(rest));
        if by_credit == 0 && by_sent < by_total {
            // no credit came back although the application reads: stop (reported as bystander failure)
            break;
        }
    }
    raw.send(&RefFrame::Finish { id: BY }).await;
    for _ in 0..40 {
        // the endpoint's bystander writer sleeps between writes: wait for its Finish, not for one quiet millisecond
        let got = raw.drain_for(5).await;
        let rest = absorb(&got, &mut by_credit, &mut by_rx, &mut by_finish_seen);
        responses.last_mut().map(|l| l.extend(rest));
        if by_finish_seen {
            break;
        }
    }
    let by_rx_ok = prf_mismatch(by_rkey, 0, &by_rx).is_none() && by_rx.len() as u64 == by_total_from_eut && by_sent == by_total;
    // A6 liveness probe
    fresh += 1;
    let p = fresh;
    raw.send(&RefFrame::Connect { id: p, rwnd: 1000, port: 8, host: b"probe.".to_vec() }).await;
    raw.send(&RefFrame::Push { id: p, data: b"ping-data".to_vec() }).await;
    let got = raw.drain().await;
    let probe_in = got.iter().any(|g| matches!(g, Got::Frame(RefFrame::Ack { id, .. }) if *id == p)) && got.iter().any(|g| matches!(g, Got::Frame(RefFrame::Push { id, data }) if *id == p && data == b"ping-data"));
    let m6 = mux.clone();
    let open2 = sim::spawn(&sh, 2005, async move { m6.new_stream_channel(b"r2.", 7).await.is_ok() });
    let mut probe_out = false;
    let got = raw.drain().await;
    for g in &got {
        if let Got::Frame(RefFrame::Connect { id, host, .. }) = g {
            if host == b"r2." {
                raw.send(&RefFrame::Ack { id: *id, n: 5 }).await;
                probe_out = true;
            }
        }
    }
    let opened = tokio::time::timeout(Duration::from_millis(5), open2).await;
    probe_out = probe_out && matches!(opened, Ok(Ok(Some(true))));
    let mut task = e0.task;
    let task_alive = tokio::time::timeout(Duration::from_millis(1), &mut task).await.is_err();
    // teardown
    pend_open.abort();
    pend_bind.abort();
    acc.abort();
    dg.abort();
    binds.abort();
    sh.api(0, 0, Api::Teardown);
    keep.lock().unwrap().clear();
    drop(mux);
    drop(e0.mux);
    raw.drain().await;
    raw.close().await;
    let _ = tokio::time::timeout(Duration::from_millis(50), task).await;
    let _ = burst;
    Outcome { responses, ids, by_rx_ok, by_rx_bytes: by_rx.len(), by_finish_seen, probe_ok: [probe_in, probe_out], task_alive, overrun, garbage, r_id, b_id }
}

fn count(resp: &[Got], pred: impl Fn(&RefFrame) -> bool) -> usize {
    resp.iter().filter(|g| matches!(g, Got::Frame(f) if pred(f))).count()
}

fn judge(st: &mut Stats, seed: u64, seq: &[Step], v: &Variant, o: &Outcome, log: &[Rec]) {
    let desc = |s: &Step| format!("{}({})", OPS[s.op as usize], TARGETS[s.target as usize]);
    let seq_s: Vec<String> = seq.iter().map(desc).collect();
    let replay = || json!({"kind": "c10", "run_seed": seed, "sequence": seq_s, "variant": format!("{v:?}"), "trace_tail": sim::render(log, 70)});
    let mut fail = |st: &mut Stats, sig: String, detail: String| {
        st.violation(Violation { signature: sig, detail: format!("{detail}; sequence {seq_s:?}, {v:?}"), replay: replay() });
    };
    if let Some((task_res, outs)) = &o.garbage {
        st.target("garbage_runs", 1);
        let ret = log.iter().find_map(|r| match &r.ev { Ev::TaskRet { ep: 0, res } => Some(res.clone()), _ => None });
        if ret.as_deref() != Some("Err(InvalidFrame)") {
            fail(st, format!("garbage-task-result|{}", ret.clone().unwrap_or_else(|| task_res.clone())), format!("after an invalid message the connection task is `{task_res}` with result {ret:?}; expected Err(InvalidFrame)"));
        }
        for (sig, detail) in endops::judge(outs, "invalid-frame", true) {
            fail(st, sig, detail);
        }
        return;
    }
    if !o.task_alive {
        let ret = log.iter().find_map(|r| match &r.ev { Ev::TaskRet { ep: 0, res } => Some(res.clone()), _ => None });
        fail(st, format!("task-ended|{}", ret.clone().unwrap_or_default()), format!("the connection task ended ({ret:?}) although every frame was well-formed"));
    }
    if !o.by_rx_ok || !o.by_finish_seen {
        fail(st, "bystander-disturbed".into(), format!("the bystander stream did not complete intact: bytes from endpoint {} (content ok / complete: {}), Finish seen: {}", o.by_rx_bytes, o.by_rx_ok, o.by_finish_seen));
    }
    if !o.probe_ok[0] {
        fail(st, "probe-peer-open-failed".into(), "after the sequence a fresh peer-initiated Connect was not acknowledged and echoed".into());
    }
    if !o.probe_ok[1] {
        fail(st, "probe-local-open-failed".into(), "after the sequence an endpoint-initiated open did not complete when acknowledged".into());
    }
    // state-independent rules over the whole run (all response frames)
    let all: Vec<Got> = o.responses.iter().flatten().cloned().collect();
    let mut zero_reset_want = 0usize;
    let mut zero_finish_want = 0usize;
    for (s, id) in seq.iter().zip(&o.ids) {
        let fresh_or_zero = s.target == 6 || s.target == 0;
        if !fresh_or_zero {
            continue;
        }
        let (want_reset, want_ack, want_finish): (usize, usize, usize) = match s.op {
            0 => if *id == 0 { (1, 0, 0) } else { (0, 1, 0) },
            1 | 2 | 4 | 5 | 6 => (1, 0, 0),
            3 => (0, 0, 0),
            7 => if v.binds_enabled { (0, 0, 1) } else { (1, 0, 0) },
            _ => (0, 0, 0),
        };
        if *id == 0 {
            zero_reset_want += want_reset;
            zero_finish_want += want_finish;
            continue;
        }
        let resets = count(&all, |f| matches!(f, RefFrame::Reset { id: i } if i == id));
        let acks = count(&all, |f| matches!(f, RefFrame::Ack { id: i, .. } if i == id));
        let fins = count(&all, |f| matches!(f, RefFrame::Finish { id: i } if i == id));
        if resets != want_reset || acks != want_ack || fins != want_finish {
            fail(st, format!("unknown-flow-answer|{}", OPS[s.op as usize]), format!("{} on a never-mentioned flow id {id:x} was answered by {resets} Reset / {acks} Acknowledge / {fins} Finish, expected {want_reset}/{want_ack}/{want_finish}", OPS[s.op as usize]));
        }
    }
    if o.ids.contains(&0) {
        let resets = count(&all, |f| matches!(f, RefFrame::Reset { id: 0 }));
        let acks = count(&all, |f| matches!(f, RefFrame::Ack { id: 0, .. }));
        let fins = count(&all, |f| matches!(f, RefFrame::Finish { id: 0 }));
        if resets != zero_reset_want || acks != 0 || fins != zero_finish_want {
            fail(st, "flow-zero-answer".into(), format!("frames on flow id 0 were answered by {resets} Reset / {acks} Acknowledge / {fins} Finish, expected {zero_reset_want}/0/{zero_finish_want}"));
        }
    }
    // A2: never a Reset in reply to a Reset (stepwise: the responses to that very step)
    if v.stepwise {
        // model of the endpoint's slot set: which of the named ids are in use and what holds them
        #[derive(Clone, Copy, PartialEq)]
        enum K {
            Free,
            Hold,      // established, application keeps the stream without reading
            DropAtEof, // established, application drops the stream when it reads end-of-stream
            Requested,
            BindRequested,
        }
        let mut kind = [K::Free, K::Hold, K::DropAtEof, K::Hold, K::Requested, K::BindRequested, K::Free];
        // has the raw peer already sent Finish on the current incarnation of the id? (a Push after one's own Finish is
        // answered with a Reset although the flow stays in the table)
        let mut peer_finished = [false, false, false, true, false, false, false];
        for (i, (s, id)) in seq.iter().zip(&o.ids).enumerate() {
            let resp = &o.responses[i];
            let resets = count(resp, |f| matches!(f, RefFrame::Reset { id: x } if x == id));
            let acks = count(resp, |f| matches!(f, RefFrame::Ack { id: x, .. } if x == id));
            if s.op == 3 && resets != 0 {
                fail(st, format!("reset-answered-with-reset|{}", TARGETS[s.target as usize]), format!("the peer's Reset on {} ({id:x}) was answered with {resets} Reset frame(s)", TARGETS[s.target as usize]));
            }
            let t = s.target as usize;
            if (1..=5).contains(&t) {
                // A3: Connect on an id in use
                if s.op == 0 {
                    if kind[t] != K::Free {
                        if resets != 1 || acks != 0 {
                            fail(st, format!("connect-in-use-answer|{}", TARGETS[t]), format!("Connect on the in-use id of {} was answered by {resets} Reset / {acks} Acknowledge (expected exactly one Reset)", TARGETS[t]));
                        }
                    } else if acks != 1 || resets != 0 {
                        fail(st, format!("connect-free-id-answer|{}", TARGETS[t]), format!("Connect on the id formerly used by {} (free again) was answered by {resets} Reset / {acks} Acknowledge (expected an Acknowledge)", TARGETS[t]));
                    } else {
                        kind[t] = K::Hold;
                        peer_finished[t] = false;
                    }
                }
                kind[t] = match (s.op, kind[t]) {
                    (3, _) => K::Free,                                  // peer Reset frees whatever was there
                    (5 | 6, K::Hold | K::DropAtEof) if resets >= 1 && !peer_finished[t] => K::Free, // a Push inside an open direction answered with a Reset: window overrun of a stream nobody reads, the flow is gone
                    (4, K::DropAtEof) => K::Free,                       // both sides finished, the application drops the stream
                    (4, K::Requested) | (4, K::BindRequested) => K::Free, // invalid reply to Connect / bind granted
                    (1, K::Requested) | (2, K::Requested) => K::Hold,   // handshake completed, the application keeps the stream
                    (_, k) => k,
                };
                if s.op == 4 {
                    peer_finished[t] = true;
                }
            }
        }
    }
    // A4 overrun
    if let Some((w, resp, _)) = &o.overrun {
        let e_touched = seq.iter().any(|s| s.target == 1);
        if !e_touched {
            st.target("overrun_runs", 1);
            let resets_e = count(resp, |f| matches!(f, RefFrame::Reset { id } if *id == E));
            let other = count(resp, |f| matches!(f, RefFrame::Reset { id } if *id != E));
            if resets_e != 1 || other != 0 {
                fail(st, "overrun-answer".into(), format!("{} Push frames on a flow with window {w} and an application that does not read: {resets_e} Reset for that flow, {other} Reset for other flows (expected 1 / 0)", w + 1));
            }
        }
    }
    let an = monitors::analyse(log, &[Fam::Panic], &Meta { sim: true, abnormal_end: true, ..Meta::default() });
    for f in an.findings {
        fail(st, f.sig, f.detail);
    }
    // what the endpoint's application read on the bystander must be exactly the raw peer's PRF stream
    let mut by_read = 0usize;
    for r in log {
        if let Ev::Api { ep: 0, sid: BY_SID, op: Api::ReadRet { k, bad_at } } = &r.ev {
            by_read += *k;
            if let Some(off) = bad_at {
                fail(st, "bystander-content".into(), format!("the bystander stream's reader got a wrong byte at offset {off}"));
                break;
            }
        }
    }
    if by_read != 600 {
        fail(st, "bystander-incomplete".into(), format!("the bystander stream's reader obtained {by_read} of the 600 bytes the peer sent before its Finish"));
    }
}

fn exec(st: &mut Stats, seed: u64, seq: Vec<Step>, v: Variant) {
    st.evaluations += 1;
    st.engine("SIM", 1);
    let sh = sim::Shared::new(mix(seed, 9), (seed % 4) as u8);
    crate::util::set_current(format!("c10 run_seed {seed} sequence {:?} variant {v:?}", seq.iter().map(|s| format!("{}:{}", OPS[s.op as usize], TARGETS[s.target as usize])).collect::<Vec<_>>()));
    let (seq2, v2) = (seq.clone(), v.clone());
    let end = sim::run(&sh, move |sh| run_case(sh, seed, seq2, v2));
    let log = sh.take_log();
    match end {
        sim::RunEnd::Finished(o) => {
            judge(st, seed, &seq, &v, &o, &log);
            let mut h = mix(v.binds_enabled as u64, v.stepwise as u64 * 2 + v.overrun as u64 * 4 + v.garbage_at.map_or(0, |g| g as u64 + 8) * 16);
            for s in &seq {
                h = mix(h, u64::from(s.op) * 16 + u64::from(s.target));
            }
            if !seq.is_empty() {
                st.nontrivial(h);
            }
            st.count("frames_sent_by_raw_peer", seq.len() as u64);
            st.count("response_frames_seen", o.responses.iter().map(Vec::len).sum::<usize>() as u64);
            let _ = (o.r_id, o.b_id);
        }
        sim::RunEnd::Stalled => st.violation(Violation { signature: "stall".into(), detail: format!("the run never reached its end (endpoint wedged?) on sequence {seq:?} {v:?}"), replay: json!({"kind": "c10", "run_seed": seed, "trace_tail": sim::render(&log, 60)}) }),
        sim::RunEnd::Panicked(m) => st.inconclusive.push(format!("harness panic in c10: {m}")),
    }
    if st.samples.len() < 3 && seq.len() >= 2 {
        st.sample(json!({"sequence": seq.iter().map(|s| format!("{}({})", OPS[s.op as usize], TARGETS[s.target as usize])).collect::<Vec<_>>(), "variant": format!("{v:?}")}));
    }
}

pub fn run(p: &Params) -> (Stats, &'static str) {
    std::panic::set_hook(Box::new(|_| {}));
    sim::install_observer();
    let mut st = Stats::new();
    let base = p.shard_seed("C10");
    let alphabet: Vec<Step> = (0..9u8).flat_map(|op| (0..7u8).map(move |target| Step { op, target })).collect();
    let a = alphabet.len() as u64;
    let maxlen = if p.tier_thorough { 3 } else { 2 };
    let mut idx = 0u64;
    for l in 1..=maxlen {
        let total = a.pow(l);
        for c in 0..total {
            idx += 1;
            if idx % p.nshards != p.shard {
                continue;
            }
            let mut k = c;
            let seq: Vec<Step> = (0..l).map(|_| {
                let s = alphabet[(k % a) as usize];
                k /= a;
                s
            }).collect();
            let seed = mix(base, idx);
            let v = Variant { binds_enabled: seed % 2 == 0, stepwise: true, rwnd: 4, overrun: false, garbage_at: None };
            exec(&mut st, seed, seq, v);
            st.target("enumerated_sequences", 1);
            if st.too_many_violations() {
                return (st, RULE);
            }
        }
    }
    st.exhaustive.push(format!("all frame sequences of length 1..={maxlen} over 9 opcodes x 7 targets (stepwise, binds enabled/disabled alternating by seed)"));
    // random longer sequences: bursts, overruns, garbage
    let n = p.share(if p.tier_thorough { 6_000_000 } else { 6_000 });
    for i in 0..n {
        let seed = mix(base, 0xA0_0000 + i);
        let mut rng = Rng64::new(seed);
        let len = if rng.chance(1, 4) { rng.range(5, 40) } else { rng.range(1, 6) } as usize;
        let seq: Vec<Step> = (0..len).map(|_| *rng.pick(&alphabet)).collect();
        let garbage = rng.chance(1, 8);
        let v = Variant {
            binds_enabled: rng.chance(1, 2),
            stepwise: rng.chance(1, 2),
            rwnd: *rng.pick(&[2u32, 4, 16]),
            overrun: !garbage && rng.chance(1, 3),
            garbage_at: if garbage { Some(rng.below(len as u64) as usize) } else { None },
        };
        // in burst mode long sequences can legitimately overrun windows: keep Push counts per target within the window
        let mut seq = seq;
        if !v.stepwise {
            let mut pushes = [0u32; 7];
            seq.retain(|s| {
                if s.op == 5 || s.op == 6 {
                    pushes[s.target as usize] += 1;
                    pushes[s.target as usize] < v.rwnd
                } else {
                    true
                }
            });
        } else {
            let mut pushes = [0u32; 7];
            seq.retain(|s| {
                if (s.op == 5 || s.op == 6) && (1..=4).contains(&s.target) {
                    pushes[s.target as usize] += 1;
                    pushes[s.target as usize] < v.rwnd
                } else {
                    true
                }
            });
        }
        let mut v = v;
        if let Some(g) = v.garbage_at {
            v.garbage_at = if seq.is_empty() { None } else { Some(g.min(seq.len() - 1)) };
        }
        exec(&mut st, seed, seq, v);
        st.target("random_sequences", 1);
        if st.too_many_violations() {
            break;
        }
    }
    // Connect with id 0 / an id in use while the application's accept queue is (or is not) full: the cases of C07's raw peer
    let n_bc = p.share(if p.tier_thorough { 400_000 } else { 3_000 });
    for i in 0..n_bc {
        crate::c07::raw_bad_connect_case(&mut st, mix(p.shard_seed("C10"), 0xBC_0000 + i));
        if st.too_many_violations() {
            break;
        }
    }
    (st, RULE)
}

/// Debug helper: run one stepwise sequence given as "op:target,op:target" and print the trace.
pub fn debug(seq_s: &str, seed: u64, binds: Option<bool>, rwnd: u32, overrun: bool) {
    std::panic::set_hook(Box::new(|_| {}));
    sim::install_observer();
    let seq: Vec<Step> = seq_s.split(',').filter(|x| !x.is_empty()).map(|x| {
        let (o, t) = x.split_once(':').unwrap();
        Step { op: OPS.iter().position(|n| *n == o).unwrap() as u8, target: TARGETS.iter().position(|n| *n == t).unwrap() as u8 }
    }).collect();
    let v = Variant { binds_enabled: binds.unwrap_or(seed % 2 == 0), stepwise: true, rwnd, overrun, garbage_at: None };
    let sh = sim::Shared::new(mix(seed, 9), (seed % 4) as u8);
    let (seq2, v2) = (seq.clone(), v.clone());
    let _ = sim::run(&sh, move |sh| run_case(sh, seed, seq2, v2));
    for l in sim::render(&sh.take_log(), 4000) {
        if l.contains("SENT") || l.contains("DLVD") || l.contains("FAULT") {
            println!("{l}");
        }
    }
}
