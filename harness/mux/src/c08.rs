//! C08 — when the connection ends everything resolves; a local drop flushes.
//! SIM engine, fault enumeration: a base scenario is executed fault-free to
//! learn its message count, then re-executed once per (cut index, fault kind).

use crate::memws::{FaultKind, FaultPlan, Trigger};
use crate::monitors::{Fam, Meta};
use crate::sim::{self, Api, Ev, Rec, Wm};
use crate::streams::{self, FamilySpec, Profile};
use crate::util::{Params, Rng64, Stats, Violation, fnv, mix, prf_vec};
use crate::wl::{self, BindAnswer, EpCfg, RStyle, Scenario, SidePlan, StreamPlan, WOp};
use crate::{c15, monitors};
use penguin_mux::Datagram;
use serde_json::json;
use tokio::io::AsyncWriteExt;

pub const SPEC: FamilySpec = FamilySpec {
    property: "C08",
    cmd: "c08",
    profile: Profile::Bytes,
    fams: &[Fam::End, Fam::Panic],
    stall_is_violation: true,
    runs_quick: 6,
    runs_thorough: 12_800,
    rule: "fault enumeration: each base scenario (2-4 streams in progress incl. a blocked writer and a starved reader, datagrams, bind requests with delayed answers, accept/get_datagram/next_bind_request pending) is first executed fault-free to count the messages M the endpoint under test \
receives and sends; then one execution per (cut index k in 0..=M) x {peer Close, receive EOF, receive error, invalid frame, keepalive expiry on a black-holed link with close completing / never completing} and per (send index k) x {send error with silent / failing source}. \
Oracle (appendix A.3): no operation pending at quiescence, reads return PRF data then EOF and never an error, writes fail with BrokenPipe, mux calls return Closed / false, the task returns the prescribed result. Plus drop-flush runs: everything queued before drop(mux) is delivered in order before Close. \
Non-trivial = the fault fired while at least one operation was pending; distinct = distinct (base scenario, cut index, kind)",
};

fn base_scenario(seed: u64) -> Scenario {
    let mut rng = Rng64::new(mix(seed, 0xC8));
    let mut cfg = [streams::gen_cfg(&mut rng, Profile::Bytes), streams::gen_cfg(&mut rng, Profile::Bytes)];
    cfg[0].bind_buf = 4;
    cfg[1].bind_buf = 4;
    let mut plans = Vec::new();
    // ordinary streams in progress (sleeps keep them open over many messages)
    for sid in 1..=rng.range(1, 2) as u32 {
        let mut p = streams::gen_stream(&mut rng, sid, &cfg, Profile::Bytes, false);
        for s in p.sides.iter_mut() {
            s.read_limit = None;
            s.shutdown = true;
            let mut w = Vec::new();
            for op in s.writes.drain(..).take(8) {
                w.push(op);
                w.push(WOp::Sleep(rng.range(1, 4)));
            }
            s.writes = w;
        }
        plans.push(p);
    }
    // a writer of the endpoint under test blocked on credit (peer holds the stream without reading)
    let mut sides = [SidePlan::quiet(), SidePlan::quiet()];
    sides[0].writes = (0..(2 * cfg[1].rwnd as usize + 3)).map(|_| WOp::Write(64)).collect();
    sides[1].shutdown = false;
    sides[1].read_limit = Some(0);
    sides[1].hold_ms = 600_000;
    plans.push(StreamPlan { sid: 10, opener: rng.below(2) as u8, open_delay: 0, sides, awaited: [true, false], host_extra: vec![], port: 10 });
    // a reader of the endpoint under test starved of data (peer writes a little, then waits a long time)
    let mut sides = [SidePlan::quiet(), SidePlan::quiet()];
    sides[1].writes = vec![WOp::Write(7), WOp::Sleep(500_000), WOp::Write(3)];
    sides[0].style = RStyle::Read(64);
    plans.push(StreamPlan { sid: 11, opener: rng.below(2) as u8, open_delay: rng.below(3), sides, awaited: [true, false], host_extra: vec![], port: 11 });
    // a late open
    let mut p = streams::gen_stream(&mut rng, 12, &cfg, Profile::Bytes, false);
    p.open_delay = rng.range(3, 9);
    p.opener = 0;
    for s in p.sides.iter_mut() {
        s.read_limit = None;
        s.shutdown = true;
    }
    plans.push(p);
    let mut dgrams = streams::gen_dgrams(&mut rng, 4, 1);
    for d in dgrams.iter_mut() {
        d.host_len = d.host_len.min(40);
        d.payload_len = d.payload_len.min(64);
        d.pause_before = rng.range(1, 8);
    }
    let mut binds = c15::gen_binds(&mut rng, 3);
    for b in binds.iter_mut() {
        b.answer_delay = rng.range(2, 9);
        if b.answer == BindAnswer::Never {
            b.answer = BindAnswer::Accept;
        }
    }
    Scenario {
        seed,
        cfg,
        caps: [*rng.pick(&[2usize, 8, 0]), *rng.pick(&[2usize, 8, 0])],
        jitter: rng.below(4) as u8,
        ws_jitter: rng.chance(1, 2),
        flush_pending: [0, 0],
        streams: plans,
        dgrams,
        dg_recv: [Some((0, 0)), Some((0, 0))],
        faults: [None, None],
        drop_first: 0,
        binds,
        scripted_ids: [vec![], vec![]],
    }
}

fn count_msgs(log: &[Rec]) -> (usize, usize) {
    let r = log.iter().filter(|r| matches!(&r.ev, Ev::Dlv { ep: 0, .. })).count();
    let s = log.iter().filter(|r| matches!(&r.ev, Ev::Sent { ep: 0, .. })).count();
    (r, s)
}

/// Number of application operations of endpoint 0 that were pending when the fault fired.
fn pending_at_fault(log: &[Rec]) -> Option<usize> {
    let at = log.iter().position(|r| matches!(&r.ev, Ev::Fault { ep, .. } if *ep != 255))?;
    let mut open_calls = 0i64;
    let mut writes = 0i64;
    let mut binds = 0i64;
    let mut streams_held = 0i64;
    for r in &log[..at] {
        if let Ev::Api { ep: 0, op, .. } = &r.ev {
            match op {
                Api::OpenCall => open_calls += 1,
                Api::OpenRet { ok, .. } => {
                    open_calls -= 1;
                    if *ok {
                        streams_held += 1;
                    }
                }
                Api::Accepted { .. } => streams_held += 1,
                Api::DropStream => streams_held -= 1,
                Api::WriteCall { .. } => writes += 1,
                Api::WriteRet { .. } => writes -= 1,
                Api::BindCall { .. } => binds += 1,
                Api::BindRet { .. } => binds -= 1,
                _ => {}
            }
        }
    }
    Some((open_calls + writes + binds + streams_held).max(0) as usize)
}

fn faulted(st: &mut Stats, base: &Scenario, trigger: Trigger, kind: FaultKind, expect: &str, keepalive: bool) {
    let mut sc = base.clone();
    if keepalive {
        sc.cfg[0].keepalive = Some((1, 2));
    }
    sc.faults = [Some(FaultPlan { trigger: trigger.clone(), kind: kind.clone() }), None];
    // after the fault every actor of the endpoint under test must finish
    for p in sc.streams.iter_mut() {
        p.awaited[0] = true;
    }
    let meta = Meta { abnormal_end: true, dgram_cap: [sc.cfg[0].dgram_buf, sc.cfg[1].dgram_buf], sim: true, binds: c15::bind_meta(&sc), expect_task_ret: Some(expect.to_string()), ..Meta::default() };
    let origin = format!("{}@{:?}", kind.name(), match trigger { Trigger::RecvIdx(_) => "recv", Trigger::SendIdx(_) => "send" });
    st.evaluations += 1;
    st.engine("SIM", 1);
    let out = wl::run_general(&sc);
    let an = monitors::analyse(&out.log, SPEC.fams, &meta);
    let fired = pending_at_fault(&out.log);
    let replay = |at: usize| json!({"kind": "c08-fault", "base_seed": base.seed, "trigger": format!("{trigger:?}"), "fault": kind.name(), "keepalive": keepalive,
        "trace": sim::render(&out.log[at.saturating_sub(90)..at.min(out.log.len())], 90)});
    match fired {
        Some(pending) => {
            st.target("faults_fired", 1);
            if pending > 0 {
                st.target("faults_with_operations_pending", 1);
                st.nontrivial(mix(mix(base.seed, fnv(origin.as_bytes())), match trigger { Trigger::RecvIdx(k) | Trigger::SendIdx(k) => k as u64 }));
            }
        }
        None => st.count("fault_never_fired", 1),
    }
    st.cell("fault_kind", kind.name());
    if out.end == "stalled" && fired.is_some() {
        let pend: Vec<String> = pending_ops_at_end(&out.log);
        st.violation(Violation {
            signature: format!("still-pending|{origin}"),
            detail: format!("after the connection ended ({}) the system went idle with operations still pending on the endpoint: {:?}", kind.name(), pend),
            replay: replay(out.log.len()),
        });
    } else if out.end == "panicked" {
        st.inconclusive.push("harness panic in c08".into());
    }
    if fired.is_some() {
        for f in an.findings {
            st.violation(Violation { signature: format!("{}|{origin}", f.sig), detail: f.detail, replay: replay(f.at + 1) });
        }
    }
    for (k, v) in &an.counters.c {
        st.count(k, *v);
    }
}

fn pending_ops_at_end(log: &[Rec]) -> Vec<String> {
    let mut open: Vec<String> = Vec::new();
    for r in log {
        if let Ev::Api { ep: 0, sid, op } = &r.ev {
            match op {
                Api::OpenCall => open.push(format!("open s{sid}")),
                Api::OpenRet { .. } => open.retain(|x| x != &format!("open s{sid}")),
                Api::WriteCall { .. } => open.push(format!("write s{sid}")),
                Api::WriteRet { .. } => open.retain(|x| x != &format!("write s{sid}")),
                Api::BindCall { id } => open.push(format!("bind #{id}")),
                Api::BindRet { id, .. } => open.retain(|x| x != &format!("bind #{id}")),
                Api::Accepted { .. } | Api::OpenRet { ok: true, .. } => {}
                _ => {}
            }
        }
    }
    let done: Vec<u32> = log.iter().filter_map(|r| match &r.ev { Ev::Api { ep: 0, sid, op: Api::ActorDone } => Some(*sid), _ => None }).collect();
    let started: Vec<u32> = log.iter().filter_map(|r| match &r.ev { Ev::Api { ep: 0, sid, op: Api::Accepted { .. } | Api::OpenRet { ok: true, .. } } => Some(*sid), _ => None }).collect();
    for s in started {
        if !done.contains(&s) {
            open.push(format!("stream actor s{s} (reader or writer never released)"));
        }
    }
    open
}

/// Everything queued before `drop(mux)` must reach the peer, in order, before Close.
fn drop_flush_case(st: &mut Stats, seed: u64) {
    st.evaluations += 1;
    st.engine("SIM", 1);
    let mut rng = Rng64::new(mix(seed, 0xDF));
    let inbound_bind = rng.chance(1, 3);
    let cfg = [EpCfg { rwnd: 16, bind_buf: if inbound_bind { 4 } else { 0 }, ..EpCfg::default() }, EpCfg { rwnd: *rng.pick(&[4u32, 16]), thr: 2, bind_buf: 4, ..EpCfg::default() }];
    let sh = sim::Shared::new(mix(seed, 8), rng.below(4) as u8);
    let n_streams = rng.range(1, 4) as usize;
    let ops: Vec<(usize, u8, usize)> = (0..rng.range(2, 14)).map(|_| (rng.below(n_streams as u64) as usize, rng.below(8) as u8, *rng.pick(&[0usize, 1, 5, 64, 900]))).collect();
    let caps = [*rng.pick(&[1usize, 2, 0]), 0];
    // traffic from the peer that is on its way when the handle is dropped: datagrams and a stream request
    let inbound_dgrams = if rng.chance(1, 2) { rng.range(1, 3) } else { 0 };
    let inbound_connect = rng.chance(1, 4);
    let cfg2 = cfg.clone();
    let end = sim::run(&sh, move |sh| async move {
        let ([e0, e1], _net) = wl::connect(&sh, [&cfg2[0], &cfg2[1]], caps, [None, None], seed, true);
        // the peer application: accept streams and keep them (not reading much), keep the mux
        let m1 = e1.mux.clone();
        let m1b = e1.mux.clone();
        let peer = sim::spawn(&sh, 2001, async move {
            let mut kept = Vec::new();
            while let Ok(s) = m1.accept_stream_channel().await {
                kept.push(s);
            }
            kept.len()
        });
        let mux = e0.mux;
        let sh2 = sh.clone();
        // one task performs all operations and the drop without ever yielding in between
        let app = sim::spawn(&sh, 5001, async move {
            let mut streams = Vec::new();
            for i in 0..n_streams {
                let s = mux.new_stream_channel(format!("s{}.", i + 1).as_bytes(), i as u16).await.expect("open");
                streams.push(Some(s));
            }
            sim::quiesce().await;
            // queued at the peer now, transmitted while this task goes on without yielding
            for k in 0..inbound_dgrams {
                let d = Datagram { flow_id: 0xE000 + k as u32, target_host: "in".into(), target_port: k as u16, data: vec![7u8; 9].into() };
                m1b.send_datagram(d).await.ok();
            }
            let late_open = if inbound_connect {
                let m = m1b.clone();
                Some(tokio::spawn(async move {
                    let _ = tokio::time::timeout(std::time::Duration::from_millis(30), m.new_stream_channel(b"in.", 99)).await;
                }))
            } else {
                None
            };
            let late_bind = if inbound_bind {
                let m = m1b.clone();
                Some(tokio::spawn(async move {
                    let _ = tokio::time::timeout(std::time::Duration::from_millis(30), m.request_bind(b"in-bind", 98, penguin_mux::frame::BindType::Datagram)).await;
                }))
            } else {
                None
            };
            drop(m1b);
            let mut expected: Vec<(u32, String)> = Vec::new();
            let mut offs = vec![0u64; n_streams];
            let mut credit_left: Vec<u32> = streams.iter().map(|s| s.as_ref().map_or(0, |s| s.verif_send_credit())).collect();
            let mut shut = vec![false; n_streams];
            let mut dg = 0u64;
            for (si, what, len) in ops {
                match what {
                    0..=3 => {
                        if let Some(s) = streams[si].as_mut() {
                            if credit_left[si] == 0 || shut[si] {
                                continue; // would block or fail: not part of this scenario
                            }
                            let flow = s.verif_flow_id();
                            let data = prf_vec(mix(seed, si as u64), offs[si], len);
                            // credit is available, so this completes without yielding
                            if s.write(&data).await.is_ok() {
                                credit_left[si] -= 1;
                                offs[si] += len as u64;
                                expected.push((flow, format!("Push:{}:{:x}", len, fnv(&data))));
                            }
                        }
                    }
                    4 => {
                        if let Some(s) = streams[si].as_mut() {
                            if !shut[si] {
                                let flow = s.verif_flow_id();
                                s.shutdown().await.ok();
                                shut[si] = true;
                                expected.push((flow, "Finish".into()));
                            }
                        }
                    }
                    5 => {
                        if let Some(s) = streams[si].take() {
                            let flow = s.verif_flow_id();
                            if !shut[si] {
                                expected.push((flow, "Reset".into()));
                            }
                            drop(s);
                        }
                    }
                    _ => {
                        dg += 1;
                        let d = Datagram { flow_id: 0xD000 + dg as u32, target_host: "h".into(), target_port: dg as u16, data: prf_vec(mix(seed, 999), dg, len.min(200)).into() };
                        let flow = d.flow_id;
                        if mux.send_datagram(d).await.is_ok() {
                            expected.push((flow, format!("Dgram:{}", len.min(200))));
                        }
                    }
                }
            }
            sh2.api(0, 0, Api::MuxDrop);
            drop(mux);
            if let Some(h) = late_open {
                h.await.ok();
            }
            if let Some(h) = late_bind {
                h.await.ok();
            }
            // streams still held are dropped after the mux: nothing is demanded for them
            (expected, streams.into_iter().flatten().map(|s| s.verif_flow_id()).collect::<Vec<u32>>())
        });
        let r = app.await.ok().flatten();
        e0.task.await.ok();
        sim::quiesce().await;
        peer.abort();
        peer.await.ok();
        drop(e1.mux);
        e1.task.await.ok();
        r
    });
    let log = sh.take_log();
    let replay = json!({"kind": "c08-drop-flush", "run_seed": seed, "trace_tail": sim::render(&log, 90)});
    match end {
        sim::RunEnd::Finished(Some((expected, _held))) => {
            st.target("drop_flush_runs", 1);
            if inbound_dgrams > 0 || inbound_connect || inbound_bind {
                st.target("drop_flush_runs_with_inbound_traffic", 1);
            }
            st.target("frames_queued_before_drop", expected.len() as u64);
            let drop_at = log.iter().position(|r| matches!(&r.ev, Ev::Api { ep: 0, op: Api::MuxDrop, .. })).unwrap_or(log.len());
            // what the peer endpoint was delivered, per flow, up to Close
            let mut delivered: Vec<(u32, String)> = Vec::new();
            let mut close_seen = false;
            let mut after_close = 0;
            for r in &log {
                if let Ev::Dlv { ep: 1, m } = &r.ev {
                    if close_seen {
                        after_close += 1;
                        continue;
                    }
                    match m {
                        Wm::Push { id, len, hash } => delivered.push((*id, format!("Push:{len}:{hash:x}"))),
                        Wm::Finish { id } => delivered.push((*id, "Finish".into())),
                        Wm::Reset { id } => delivered.push((*id, "Reset".into())),
                        Wm::Dgram { id, len, .. } => delivered.push((*id, format!("Dgram:{len}"))),
                        Wm::Close => close_seen = true,
                        _ => {}
                    }
                }
            }
            let _ = (drop_at, after_close);
            if !close_seen {
                st.violation(Violation { signature: "drop-no-close".into(), detail: "after drop(mux) on a healthy transport the peer never received a Close".into(), replay: replay.clone() });
            }
            // per flow: expected must be a subsequence (in order) of delivered
            let mut flows: Vec<u32> = expected.iter().map(|(f, _)| *f).collect();
            flows.sort_unstable();
            flows.dedup();
            for f in flows {
                let exp: Vec<&String> = expected.iter().filter(|(x, _)| *x == f).map(|(_, s)| s).collect();
                let got: Vec<&String> = delivered.iter().filter(|(x, _)| *x == f).map(|(_, s)| s).collect();
                let mut gi = 0;
                for e in &exp {
                    match got[gi..].iter().position(|g| g == e) {
                        Some(p) => gi += p + 1,
                        None => {
                            let what = e.split(':').next().unwrap_or("frame").to_string();
                            st.violation(Violation {
                                signature: format!("drop-lost-frame|{what}"),
                                detail: format!("flow {f:x}: the application queued {exp:?} before drop(mux); the peer was delivered {got:?} before Close — `{e}` is missing or out of order"),
                                replay: replay.clone(),
                            });
                            break;
                        }
                    }
                }
            }
            st.nontrivial(mix(sh.hash(), expected.len() as u64));
        }
        sim::RunEnd::Finished(None) => st.inconclusive.push("c08 drop-flush: app task failed".into()),
        sim::RunEnd::Stalled => st.violation(Violation { signature: "stall|drop-flush".into(), detail: "after drop(mux) on a healthy transport the connection task never returned".into(), replay }),
        sim::RunEnd::Panicked(m) => st.inconclusive.push(format!("harness panic in c08 drop-flush: {m}")),
    }
    let an = monitors::analyse(&log, &[Fam::Panic], &Meta::default());
    for f in an.findings {
        st.violation(Violation { signature: format!("{}|drop-flush", f.sig), detail: f.detail, replay: json!({"kind": "c08-drop-flush", "run_seed": seed}) });
    }
}

/// The accept queue is full (the application is not accepting at the moment), the connection
/// ends on an error path and more Connect frames are still readable: everything must still resolve.
fn accept_queue_full_case(st: &mut Stats, seed: u64) {
    use crate::endops::{self, Pending};
    use crate::raw::Raw;
    use crate::refcodec::RefFrame;
    st.evaluations += 1;
    st.engine("SIM", 1);
    let mut rng = Rng64::new(mix(seed, 0xAF));
    let n = rng.range(1, 3) as usize;
    let garbage = rng.chance(1, 2);
    let extra_connects = rng.range(1, 3) as u32;
    let cfg = EpCfg { stream_buf: n, rwnd: 4, bind_buf: 4, ..EpCfg::default() };
    let sh = sim::Shared::new(mix(seed, 11), rng.below(4) as u8);
    let cause = if garbage { "invalid-frame" } else { "send-error" };
    let end = sim::run(&sh, move |sh| async move {
        let (w0, w1, net) = crate::memws::pair(&sh, [0, 0], [None, None], false);
        let e0 = wl::endpoint(&sh, 0, &cfg, w0, seed);
        let mut raw = Raw::new(w1);
        // an established stream opened by the endpoint (peer window 1): a reader and a blocked writer exist
        let m = e0.mux.clone();
        let opener = sim::spawn(&sh, 5001, async move { m.new_stream_channel(b"o.", 1).await.ok() });
        let m = e0.mux.clone();
        let opener2 = sim::spawn(&sh, 5002, async move { m.new_stream_channel(b"o2.", 2).await.ok() });
        for g in raw.drain().await {
            if let crate::raw::Got::Frame(RefFrame::Connect { id, .. }) = g {
                raw.send(&RefFrame::Ack { id, n: 1 }).await;
            }
        }
        let reader = opener.await.ok().flatten().flatten();
        let writer = opener2.await.ok().flatten().flatten();
        // fill the accept queue exactly; the application does not accept
        for i in 0..n as u32 {
            raw.send(&RefFrame::Connect { id: 0x100 + i, rwnd: 8, port: 9, host: b"q.".to_vec() }).await;
        }
        raw.drain().await;
        let pend = Pending::spawn_opt(&sh, &e0.mux, reader, writer, true, false);
        crate::sim::quiesce().await;
        if garbage {
            raw.send_bytes(vec![0x7f, 9, 9, 9, 9, 9]).await;
            for i in 0..extra_connects {
                raw.send(&RefFrame::Connect { id: 0x200 + i, rwnd: 8, port: 9, host: b"late.".to_vec() }).await;
            }
        } else {
            // the next message the endpoint tries to send fails; the read side stays usable
            let k = crate::memws::sent_count(&net, 0);
            crate::memws::arm_fault(&net, 0, FaultPlan { trigger: Trigger::SendIdx(k), kind: FaultKind::SendErrOnly });
            for i in 0..=extra_connects {
                raw.send(&RefFrame::Connect { id: 0x200 + i, rwnd: 8, port: 9, host: b"late.".to_vec() }).await;
            }
        }
        let mut task = e0.task;
        let returned = tokio::time::timeout(std::time::Duration::from_millis(5), &mut task).await.is_ok();
        let mut outs = pend.collect().await;
        if returned {
            outs.extend(endops::later(&e0.mux, true).await);
        }
        drop(e0.mux);
        (returned, outs)
    });
    let log = sh.take_log();
    let replay = json!({"kind": "c08-accept-queue-full", "run_seed": seed, "queue": n, "cause": cause, "extra_connects": extra_connects, "trace_tail": sim::render(&log, 60)});
    match end {
        sim::RunEnd::Finished((returned, outs)) => {
            st.target("accept_queue_full_runs", 1);
            st.nontrivial(mix(sh.hash(), n as u64 * 8 + u64::from(garbage)));
            if !returned {
                st.violation(Violation { signature: format!("task-never-returned|accept-queue-full|{cause}"), detail: format!("the accept queue ({n}) was full, the connection ended ({cause}) with {extra_connects} more Connect frame(s) readable: the connection task had not returned when the system went idle"), replay: replay.clone() });
            }
            for (sig, detail) in endops::judge(&outs, cause, false) {
                st.violation(Violation { signature: format!("{sig}|accept-queue-full"), detail, replay: replay.clone() });
            }
        }
        sim::RunEnd::Stalled => st.violation(Violation { signature: format!("stall|accept-queue-full|{cause}"), detail: "the run stalled".into(), replay }),
        sim::RunEnd::Panicked(m) => st.inconclusive.push(format!("harness panic in c08 accept-queue-full: {m}")),
    }
}

pub fn run(p: &Params) -> (Stats, &'static str) {
    std::panic::set_hook(Box::new(|_| {}));
    sim::install_observer();
    let mut st = Stats::new();
    let base_seed = p.shard_seed("C08");
    let n_base = p.share(if p.tier_thorough { SPEC.runs_thorough } else { SPEC.runs_quick * p.nshards }).max(1);
    for b in 0..n_base {
        let seed = mix(base_seed, b);
        let base = base_scenario(seed);
        // fault-free execution: learn M
        let out = wl::run_general(&base);
        let (m_recv, m_send) = count_msgs(&out.log);
        st.count("base_scenarios", 1);
        st.count("base_messages_received", m_recv as u64);
        st.count("base_messages_sent", m_send as u64);
        if out.end != "finished" {
            st.inconclusive.push(format!("c08 base scenario {seed} did not finish fault-free ({})", out.end));
            continue;
        }
        // keepalive variant has its own message count (pings/pongs)
        let step = if p.tier_thorough { 1 } else { 1 };
        for k in (0..=m_recv).step_by(step) {
            faulted(&mut st, &base, Trigger::RecvIdx(k), FaultKind::PeerClose, "Ok", false);
            faulted(&mut st, &base, Trigger::RecvIdx(k), FaultKind::RecvEof, "Ok", false);
            faulted(&mut st, &base, Trigger::RecvIdx(k), FaultKind::RecvErr, "Err(WebSocket)", false);
            faulted(&mut st, &base, Trigger::RecvIdx(k), FaultKind::Garbage(vec![0x7f, 1, 2, 3, 4, 5]), "Err(InvalidFrame)", false);
            faulted(&mut st, &base, Trigger::RecvIdx(k), FaultKind::Silent { close_ok: true }, "Err(KeepaliveTimeout)", true);
            faulted(&mut st, &base, Trigger::RecvIdx(k), FaultKind::Silent { close_ok: false }, "Err(KeepaliveTimeout)", true);
            faulted(&mut st, &base, Trigger::RecvIdx(k), FaultKind::SilentBlockedSink, "Err(KeepaliveTimeout)", true);
        }
        for k in (0..m_send).step_by(step) {
            faulted(&mut st, &base, Trigger::SendIdx(k), FaultKind::SendErr { silent_source: true }, "Err(WebSocket)", false);
            faulted(&mut st, &base, Trigger::SendIdx(k), FaultKind::SendErr { silent_source: false }, "Err(WebSocket)", false);
            faulted(&mut st, &base, Trigger::SendIdx(k), FaultKind::FlushErr { silent_source: true }, "Err(WebSocket)", false);
            faulted(&mut st, &base, Trigger::SendIdx(k), FaultKind::FlushErr { silent_source: false }, "Err(WebSocket)", false);
        }
        st.exhaustive.push("every cut index of every base scenario x 11 fault kinds".into());
        if st.samples.len() < 2 {
            st.sample(json!({"base": streams::describe(&base), "messages_received": m_recv, "messages_sent": m_send, "cut_points_x_kinds": (m_recv + 1) * 7 + m_send * 4}));
        }
        if st.too_many_violations() {
            break;
        }
    }
    // full accept queue at the moment the connection fails
    let n_aq = p.share(if p.tier_thorough { 1_000_000 } else { 2_000 });
    for i in 0..n_aq {
        accept_queue_full_case(&mut st, mix(base_seed, 0xAF_0000 + i));
        if st.too_many_violations() {
            break;
        }
    }
    // local drop with healthy transport
    let n_drop = p.share(if p.tier_thorough { 2_000_000 } else { 4_000 });
    for i in 0..n_drop {
        drop_flush_case(&mut st, mix(base_seed, 0xD0_0000 + i));
        if st.too_many_violations() {
            break;
        }
    }
    // local drop while the application keeps (and keeps reading) its streams: what the peer's frames had carried to this
    // endpoint before the connection ended is read before end-of-stream (the executions of C05's extra scenario)
    let n_held = p.share(if p.tier_thorough { 800_000 } else { 3_000 });
    for i in 0..n_held {
        crate::c05x::held_case(&mut st, mix(base_seed, 0xE1_0000 + i));
        if st.too_many_violations() {
            break;
        }
    }
    (st, SPEC.rule)
}
