//! Seeded scenario generator for the general stream workload and the runners
//! of the properties that are decided on it (C02, C03, C05; C04/C06 add their
//! own targeted scenarios in their modules).

use crate::monitors::{self, Fam, Meta};
use crate::sim;
use crate::util::{Params, Rng64, Stats, Violation, mix};
use crate::wl::{self, DgPlan, EpCfg, RStyle, Scenario, SidePlan, StreamPlan, WOp};
use serde_json::json;

#[derive(Clone, Copy, Debug, PartialEq, Eq)]
pub enum Profile {
    /// C02: data integrity — many sizes, many streams, both directions
    Bytes,
    /// C03: window edges — tiny windows, stalling readers, asymmetric settings
    Credit,
    /// C05: close orders, empty writes, writes after shutdown / abort
    Eos,
    /// C06: aborts with bystanders
    Abort,
    /// C04: bursts longer than the window, full option grid handled by the caller
    Progress,
    /// C11: datagrams with concurrent streams
    Dgram,
}

pub const RWNDS: [u32; 7] = [1, 2, 3, 4, 5, 8, 16];
pub const THRS: [u32; 6] = [1, 2, 3, 4, 8, 64];

pub fn gen_cfg(rng: &mut Rng64, profile: Profile) -> EpCfg {
    let rwnd = match profile {
        Profile::Credit => *rng.pick(&[1u32, 1, 2, 2, 3, 4]),
        _ => *rng.pick(&RWNDS),
    };
    EpCfg {
        rwnd,
        thr: *rng.pick(&THRS),
        stream_buf: *rng.pick(&[1usize, 2, 16]),
        dgram_buf: *rng.pick(&[1usize, 2, 16, 512]),
        bind_buf: 0,
        retries: 3,
        keepalive: None,
        keepalive_timeout_first: false,
    }
}

fn gen_writes(rng: &mut Rng64, profile: Profile, peer_rwnd: u32, big_ok: bool) -> Vec<WOp> {
    let mut v = Vec::new();
    let n_ops = match profile {
        Profile::Credit | Profile::Progress => rng.range(0, 3 * u64::from(peer_rwnd) + 6),
        Profile::Eos | Profile::Abort => rng.range(0, 8),
        _ => rng.range(0, 14),
    };
    let sizes: &[usize] = if big_ok { &[0, 1, 2, 7, 64, 1024, 65536] } else { &[0, 1, 2, 7, 64, 300] };
    for _ in 0..n_ops {
        match rng.below(20) {
            0 => v.push(WOp::Sleep(rng.range(1, 20))),
            1 => v.push(WOp::Yield),
            2..=5 => {
                let k = rng.below(5) as usize;
                let parts = (0..k).map(|_| if rng.chance(1, 3) { 0 } else { *rng.pick(&[1usize, 2, 7, 64, 1000]) }).collect();
                v.push(WOp::Vectored(parts));
            }
            6 if profile == Profile::Eos => v.push(WOp::Write(0)),
            _ => {
                let mut n = *rng.pick(sizes);
                if n == 65536 && !rng.chance(1, 4) {
                    n = 64;
                }
                if n == 0 && profile != Profile::Eos && !rng.chance(1, 3) {
                    n = 3;
                }
                v.push(WOp::Write(n));
            }
        }
    }
    // now and then one very large write (an application handing over a whole file): around and beyond 1 MiB, plain or vectored
    if big_ok && rng.chance(1, 120) {
        let at = rng.below(v.len() as u64 + 1) as usize;
        let op = match rng.below(4) {
            0 => WOp::Vectored(vec![700_000, 0, 700_001]),
            _ => WOp::Write(*rng.pick(&[1_048_576usize, 1_048_577, 2_500_000, 5_000_011])),
        };
        v.insert(at, op);
    }
    v
}

fn gen_reader(rng: &mut Rng64, plan: &mut SidePlan, profile: Profile) {
    plan.style = if rng.chance(1, 2) {
        RStyle::Read(*rng.pick(&[1usize, 3, 64, 4096, 100_000]))
    } else {
        RStyle::FillBuf(rng.below(3) as u8)
    };
    if matches!(profile, Profile::Credit | Profile::Progress) || rng.chance(1, 4) {
        // readers that stop for a while and then resume
        for _ in 0..rng.below(3) {
            plan.read_pauses.push((rng.below(400), rng.range(1, 30)));
        }
        plan.read_pauses.sort_unstable();
        if rng.chance(1, 3) {
            plan.read_delay = rng.range(1, 40);
        }
    }
}

/// Close patterns: 0 graceful, 1 side-0 aborts, 2 side-1 aborts
pub fn gen_stream(rng: &mut Rng64, sid: u32, cfg: &[EpCfg; 2], profile: Profile, big_ok: bool) -> StreamPlan {
    let mut sides = [SidePlan::quiet(), SidePlan::quiet()];
    for e in 0..2 {
        sides[e].writes = gen_writes(rng, profile, cfg[1 - e].rwnd, big_ok);
        gen_reader(rng, &mut sides[e], profile);
        if profile == Profile::Eos {
            sides[e].write_after_shutdown = rng.chance(1, 3);
            sides[e].retry_after_broken = rng.chance(1, 2);
        }
    }
    for e in 0..2 {
        // byte-at-a-time readers only on small transfers (keeps histories short)
        if sides[1 - e].total_bytes() > 2048 {
            sides[e].style = match sides[e].style.clone() {
                RStyle::Read(n) if n < 64 => RStyle::Read(977),
                RStyle::FillBuf(1) => RStyle::FillBuf(2),
                other => other,
            };
        }
    }
    let abort_rate = match profile {
        Profile::Abort => 2,
        Profile::Eos => 3,
        _ => 8,
    };
    if rng.chance(1, abort_rate) {
        let a = rng.below(2) as usize;
        let peer_total = sides[1 - a].total_bytes();
        // the aborter never finishes its own direction first: a finished-then-dropped stream sends no Reset,
        // and a peer writer blocked on credit is then (legitimately, C04: absent reader) never woken
        sides[a].shutdown = false;
        sides[a].read_limit = Some(if peer_total == 0 { 0 } else { rng.below(peer_total + 1) });
        sides[1 - a].retry_after_broken = rng.chance(1, 2);
    }
    let extra_len = rng.below(6) as usize;
    StreamPlan {
        sid,
        opener: rng.below(2) as u8,
        open_delay: if rng.chance(1, 3) { rng.range(1, 30) } else { 0 },
        sides,
        awaited: [true, true],
        host_extra: rng.bytes(extra_len),
        port: rng.next() as u16,
    }
}

pub fn gen_dgrams(rng: &mut Rng64, n: usize, base_id: u64) -> Vec<DgPlan> {
    (0..n).map(|i| {
        let id = base_id + i as u64;
        DgPlan {
            id,
            from: rng.below(2) as u8,
            // identity is carried by (flow_id, port): unique per datagram
            flow_id: match rng.below(6) {
                0 => 0,
                1 => 0xffff_ffff,
                _ => rng.next() as u32,
            } ^ 0,
            host_len: if rng.chance(1, 3) { *rng.pick(&[0usize, 1, 255, 256, 300]) } else { rng.below(40) as usize },
            port: id as u16,
            payload_len: if rng.chance(1, 2) { *rng.pick(&[0usize, 1, 2, 3, 4, 7, 8, 9]) } else if rng.chance(1, 12) { *rng.pick(&[65_535usize, 65_536, 20_000]) } else { rng.below(300) as usize },
            pause_before: if rng.chance(1, 5) { rng.range(1, 10) } else { 0 },
        }
    }).collect()
}

pub fn gen_scenario(seed: u64, profile: Profile) -> Scenario {
    let mut rng = Rng64::new(mix(seed, 0x9E4));
    let cfg = [gen_cfg(&mut rng, profile), gen_cfg(&mut rng, profile)];
    let n_streams = match profile {
        Profile::Dgram => rng.range(0, 3),
        Profile::Abort => rng.range(2, 6),
        _ => {
            if rng.chance(1, 3) { rng.range(3, 8) } else { rng.range(1, 3) }
        }
    } as u32;
    let big_ok = n_streams <= 2 && rng.chance(1, 3);
    let streams: Vec<StreamPlan> = (0..n_streams).map(|i| gen_stream(&mut rng, i + 1, &cfg, profile, big_ok)).collect();
    let n_dg = match profile {
        Profile::Dgram => rng.range(1, 40) as usize,
        Profile::Bytes | Profile::Progress => {
            if rng.chance(1, 4) { rng.range(1, 6) as usize } else { 0 }
        }
        _ => 0,
    };
    let mut dgrams = gen_dgrams(&mut rng, n_dg, 1);
    let mut dg_recv = [Some((0, 0)), Some((0, 0))];
    if profile == Profile::Dgram {
        // bursts of 0.5x, 1x, 3x the receiver's buffer; receivers prompt, slow or absent
        let e = rng.below(2) as usize;
        let cap = cfg[1 - e].dgram_buf.min(40);
        let burst = (cap * *rng.pick(&[1usize, 2, 6])).div_ceil(2).max(1);
        let mut more = gen_dgrams(&mut rng, burst, 1000);
        for d in more.iter_mut() {
            d.from = e as u8;
            d.pause_before = 0;
            d.payload_len = d.payload_len.min(64);
        }
        dgrams.extend(more);
        for r in dg_recv.iter_mut() {
            *r = match rng.below(5) {
                4 => Some((wl::DG_RECV_CANCELLING, 0)),
                0 => None,
                1 => Some((rng.range(1, 5), 0)),
                2 => Some((0, rng.range(1, 30))),
                _ => Some((0, 0)),
            };
        }
    }
    // (a generator that repeats an id in use is exercised by `dup_id_case`, where the first stream is known to be alive)
    let mut scripted_ids: [Vec<u32>; 2] = [vec![], vec![]];
    {
        let mut r2 = Rng64::new(mix(seed, 0x1D5));
        for e in 0..2u8 {
            let at_zero = {
                let v: &Vec<StreamPlan> = &streams;
                v.iter().filter(|p| p.opener == e && p.open_delay == 0).count()
            };
            if profile == Profile::Dgram {
                // datagram profile: predictable, distinct stream ids, so that datagrams can carry the flow id of a live stream
                scripted_ids[e as usize] = (0..at_zero).map(|_| (r2.next() as u32) | 1).collect();
            }
        }
        if profile == Profile::Dgram {
            let live: Vec<u32> = scripted_ids.iter().flatten().copied().collect();
            if !live.is_empty() {
                for d in dgrams.iter_mut() {
                    if r2.chance(1, 3) {
                        d.flow_id = *r2.pick(&live);
                    }
                }
            }
        }
    }
    Scenario {
        seed,
        cfg,
        caps: [*rng.pick(&[1usize, 2, 8, 0]), *rng.pick(&[1usize, 2, 8, 0])],
        jitter: rng.below(4) as u8,
        ws_jitter: rng.chance(1, 2),
        flush_pending: [if rng.chance(1, 4) { 3 } else { 0 }, if rng.chance(1, 4) { 3 } else { 0 }],
        streams,
        dgrams,
        dg_recv,
        faults: [None, None],
        drop_first: rng.below(3) as u8,
        binds: vec![],
        scripted_ids,
    }
}

pub fn describe(sc: &Scenario) -> serde_json::Value {
    json!({
        "seed": sc.seed,
        "ep0": sc.cfg[0].short(), "ep1": sc.cfg[1].short(),
        "link_caps": sc.caps, "jitter": sc.jitter, "ws_jitter": sc.ws_jitter,
        "streams": sc.streams.iter().map(|p| json!({
            "sid": p.sid, "opener": p.opener,
            "side0": format!("{} write ops ({}B) shutdown={} limit={:?} {:?}", p.sides[0].writes.len(), p.sides[0].total_bytes(), p.sides[0].shutdown, p.sides[0].read_limit, p.sides[0].style),
            "side1": format!("{} write ops ({}B) shutdown={} limit={:?} {:?}", p.sides[1].writes.len(), p.sides[1].total_bytes(), p.sides[1].shutdown, p.sides[1].read_limit, p.sides[1].style),
        })).collect::<Vec<_>>(),
        "datagrams": sc.dgrams.len(),
    })
}

#[derive(Clone, Copy)]
pub struct FamilySpec {
    pub property: &'static str,
    pub cmd: &'static str,
    pub profile: Profile,
    pub fams: &'static [Fam],
    /// a stalled run is a violation of this property (C04) rather than inconclusive
    pub stall_is_violation: bool,
    pub runs_quick: u64,
    pub runs_thorough: u64,
    pub rule: &'static str,
}

/// Execute one scenario, apply the monitors, record results. Returns the analysis counters.
pub fn execute(st: &mut Stats, spec: &FamilySpec, sc: &Scenario, meta: &Meta, origin: &str) -> monitors::Counters {
    st.evaluations += 1;
    let thr = !meta.sim;
    st.engine(if thr { "THR" } else { "SIM" }, 1);
    let out = if thr { wl::run_general_thr(sc, if origin == "hammer" { 0 } else { 30 }) } else { wl::run_general(sc) };
    let an = monitors::analyse(&out.log, spec.fams, meta);
    for (k, v) in &an.counters.c {
        st.count(k, *v);
    }
    st.count("log_events", out.log.len() as u64);
    let replay = |extra: serde_json::Value| {
        json!({"kind": "general", "cmd": spec.cmd, "origin": origin, "run_seed": sc.seed, "scenario": describe(sc), "extra": extra,
               "trace_tail": sim::render(&out.log, 120)})
    };
    match out.end {
        "finished" => {}
        "stalled" if thr => {
            // real time: a wall-clock timeout is never a verdict
            st.count("thr_timeouts", 1);
            if st.inconclusive.len() < 5 {
                st.inconclusive.push(format!("THR run {} hit the 10 s wall-clock limit", sc.seed));
            }
        }
        "stalled" => {
            st.count("stalled_runs", 1);
            if spec.stall_is_violation {
                st.violation(Violation {
                    signature: format!("stall|{origin}"),
                    detail: format!("the system went idle (virtual-time watchdog) with application operations still pending although every reader keeps reading; scenario {}", describe(sc)),
                    replay: replay(json!({"end": "stalled"})),
                });
            } else if st.inconclusive.len() < 5 {
                st.inconclusive.push(format!("run {} stalled (decided under C04, not here)", sc.seed));
            }
        }
        _ => {
            st.count("harness_panics", 1);
            st.inconclusive.push(format!("run {} panicked in the harness", sc.seed));
        }
    }
    for f in an.findings {
        let at = f.at.min(out.log.len());
        let lo = at.saturating_sub(60);
        st.violation(Violation {
            signature: format!("{}|{}", f.sig, origin),
            detail: format!("{} [log index {}]", f.detail, f.at),
            replay: json!({"kind": "general", "cmd": spec.cmd, "origin": origin, "run_seed": sc.seed, "scenario": describe(sc),
                "trace_before_violation": sim::render(&out.log[lo..at.min(out.log.len())], 60)}),
        });
    }
    let mut counters = an.counters;
    counters.run_hash = out.hash;
    counters
}

/// C02, no cross-talk: the opener's flow-id generator yields the id of a stream that is alive on both ends. The id must be
/// skipped; both streams then carry their own data, concurrently, to the end.
pub fn dup_id_case(st: &mut Stats, seed: u64) {
    use tokio::io::{AsyncReadExt, AsyncWriteExt};
    st.evaluations += 1;
    st.engine("SIM", 1);
    let mut rng = Rng64::new(mix(seed, 0xD0B));
    let cfg = [gen_cfg(&mut rng, Profile::Bytes), gen_cfg(&mut rng, Profile::Bytes)];
    let x = (rng.next() as u32) | 1;
    let copies = rng.range(1, 3) as usize;
    let n_bytes = [rng.range(1, 4000) as usize, rng.range(1, 4000) as usize];
    let chunk = *rng.pick(&[1usize, 7, 100, 1000]);
    let opener = rng.below(2) as usize;
    let caps = [*rng.pick(&[0usize, 1, 4]), *rng.pick(&[0usize, 1, 4])];
    let sh = sim::Shared::new(mix(seed, 13), rng.below(4) as u8);
    let cfg2 = cfg.clone();
    let end = sim::run(&sh, move |sh| async move {
        let (eps, _net) = wl::connect(&sh, [&cfg2[0], &cfg2[1]], caps, [None, None], seed, true);
        let (o, a) = (&eps[opener], &eps[1 - opener]);
        // stream A takes id x
        o.rng.push(&[x]);
        let a_o = o.mux.new_stream_channel(b"a.", 1).await.expect("open a");
        let a_a = a.mux.accept_stream_channel().await.expect("accept a");
        let id_a = a_o.verif_flow_id();
        sim::quiesce().await;
        // the generator repeats itself while A is alive on both ends
        o.rng.push(&vec![x; copies]);
        let b_o = o.mux.new_stream_channel(b"b.", 2).await;
        let b_a = tokio::time::timeout(std::time::Duration::from_millis(5), a.mux.accept_stream_channel()).await;
        let (Ok(b_o), Ok(Ok(b_a))) = (b_o, b_a) else {
            return Err("the second stream could not be opened".to_string());
        };
        let id_b = b_o.verif_flow_id();
        // both streams carry their own data from the opener to the acceptor, interleaved
        let mut res = Vec::new();
        let mut tasks = Vec::new();
        for (k, (mut w, mut r)) in [(a_o, a_a), (b_o, b_a)].into_iter().enumerate() {
            let key = mix(seed, 0xAB0 + k as u64);
            let n = n_bytes[k];
            tasks.push((sim::spawn(&sh, 5000 + k as u64, async move {
                let data = crate::util::prf_vec(key, 0, n);
                for c in data.chunks(chunk) {
                    if w.write_all(c).await.is_err() {
                        return false;
                    }
                }
                w.shutdown().await.is_ok()
            }), sim::spawn(&sh, 6000 + k as u64, async move {
                let mut got = Vec::new();
                let ok = r.read_to_end(&mut got).await.is_ok();
                (ok, got.len(), crate::util::prf_mismatch(key, 0, &got))
            })));
        }
        for (w, r) in tasks {
            let wr = w.await.ok().flatten().unwrap_or(false);
            let rd = r.await.ok().flatten().unwrap_or((false, 0, None));
            res.push((wr, rd));
        }
        let [e0, e1] = eps;
        sh.api(0, 0, sim::Api::MuxDrop);
        drop(e0.mux);
        e0.task.await.ok();
        drop(e1.mux);
        e1.task.await.ok();
        Ok((id_a, id_b, res))
    });
    let log = sh.take_log();
    let replay = |extra: String| json!({"kind": "c02-dup-id", "run_seed": seed, "note": extra, "trace_tail": sim::render(&log, 80)});
    match end {
        sim::RunEnd::Finished(Ok((id_a, id_b, res))) => {
            st.target("generator_repeats_live_id_runs", 1);
            st.nontrivial(mix(sh.hash(), u64::from(id_a)));
            if id_a == id_b {
                st.violation(Violation { signature: "live-id-proposed-again|dup-id".into(), detail: format!("the generator repeated id {id_a:x} while the stream using it was alive, and the second stream was given the same id"), replay: replay(String::new()) });
            }
            for (k, (wr, (rd_ok, got, bad))) in res.iter().enumerate() {
                let name = if k == 0 { "first (the id's owner)" } else { "second" };
                if !wr || !rd_ok || *got != n_bytes[k] || bad.is_some() {
                    st.violation(Violation {
                        signature: format!("cross-talk-or-loss|dup-id|stream{k}"),
                        detail: format!("two streams open at once, the generator had repeated the first one's id: the {name} stream's writer finished cleanly = {wr}, its reader got {got} of {} bytes (read ok = {rd_ok}), first wrong byte at {bad:?}", n_bytes[k]),
                        replay: replay(format!("{res:?}")),
                    });
                }
            }
        }
        sim::RunEnd::Finished(Err(e)) => st.violation(Violation { signature: "open-failed|dup-id".into(), detail: format!("the generator repeated the id of a live stream {copies} time(s) (retries allowed: 3): {e}"), replay: replay(e.clone()) }),
        sim::RunEnd::Stalled => st.violation(Violation { signature: "stall|dup-id".into(), detail: "two streams with a repeated id proposal: the run stalled".into(), replay: replay("stalled".into()) }),
        sim::RunEnd::Panicked(m) => st.inconclusive.push(format!("harness panic in c02 dup-id: {m}")),
    }
}

pub fn run_family(p: &Params, spec: &FamilySpec) -> (Stats, &'static str) {
    std::panic::set_hook(Box::new(|_| {}));
    sim::install_observer();
    let mut st = Stats::new();
    let thr = p.get("engine") == Some("thr");
    let base = mix(p.shard_seed(spec.property), u64::from(thr));
    let n = if thr { p.share(if p.tier_thorough { 100_000 } else { 1600 }) } else { p.share(if p.tier_thorough { spec.runs_thorough } else { spec.runs_quick }) };
    // THR: only the families whose rules are sound without a global execution order
    let thr_fams: Vec<Fam> = spec.fams.iter().copied().filter(|f| matches!(f, Fam::Bytes | Fam::Credit | Fam::Dgram | Fam::Panic)).collect();
    let thr_spec = FamilySpec { fams: Box::leak(thr_fams.into_boxed_slice()), ..*spec };
    let spec = if thr { &thr_spec } else { spec };
    for i in 0..n {
        let seed = mix(base, i);
        if !thr && spec.property == "C02" && i % 16 == 15 {
            dup_id_case(&mut st, seed);
            if st.too_many_violations() {
                break;
            }
            continue;
        }
        if !thr && spec.property == "C05" && i % 8 == 7 {
            crate::c05x::held_case(&mut st, seed);
            if st.too_many_violations() {
                break;
            }
            continue;
        }
        let mut sc = gen_scenario(seed, spec.profile);
        if thr {
            // keep real-time runs short: no long sleeps
            for s in sc.streams.iter_mut() {
                s.open_delay = s.open_delay.min(3);
                for side in s.sides.iter_mut() {
                    side.read_delay = side.read_delay.min(3);
                    for p in side.read_pauses.iter_mut() {
                        p.1 = p.1.min(2);
                    }
                    for w in side.writes.iter_mut() {
                        if let WOp::Sleep(ms) = w {
                            *ms = (*ms).min(2);
                        }
                    }
                }
            }
            for d in sc.dgrams.iter_mut() {
                d.pause_before = d.pause_before.min(2);
            }
        }
        let mut origin = "random";
        if thr && spec.property == "C03" && i % 16 == 0 {
            // "hammer": one stream, both directions, thousands of one-frame writes against a reader that acknowledges
            // every frame, nothing else on the connection: the writer's credit take races with the task applying
            // Acknowledge frames at the highest rate the machine gives (real threads, no injected delays)
            origin = "hammer";
            let mut r = Rng64::new(mix(seed, 0x4a3));
            sc.cfg[0].rwnd = *r.pick(&[4u32, 16, 64]);
            sc.cfg[1].rwnd = *r.pick(&[4u32, 16, 64]);
            sc.cfg[0].thr = 1;
            sc.cfg[1].thr = 1;
            sc.caps = [0, 0];
            sc.jitter = 0;
            sc.ws_jitter = false;
            sc.flush_pending = [0, 0];
            sc.dgrams.clear();
            sc.dg_recv = [None, None];
            sc.binds.clear();
            sc.faults = [None, None];
            let mut side = wl::SidePlan::quiet();
            side.writes = vec![WOp::Write(1); 6000];
            side.style = wl::RStyle::Read(4096);
            sc.streams = vec![wl::StreamPlan { sid: 1, opener: 0, open_delay: 0, sides: [side.clone(), side], awaited: [true, true], host_extra: vec![], port: 1 }];
            st.target("hammer_runs", 1);
        }
        let meta = Meta { abnormal_end: false, dgram_cap: [sc.cfg[0].dgram_buf, sc.cfg[1].dgram_buf], stream_is_bridge: false, sim: !thr, ..Meta::default() };
        let c = execute(&mut st, spec, &sc, &meta, origin);
        record_coverage(&mut st, &sc, &c, spec, seed);
        if st.too_many_violations() {
            break;
        }
        if thr && st.counters.get("thr_timeouts").copied().unwrap_or(0) >= 3 {
            // real-time runs that hit the wall-clock limit cost 10 s each: stop, the tier is inconclusive for THR
            break;
        }
    }
    (st, spec.rule)
}

pub fn record_coverage(st: &mut Stats, sc: &Scenario, c: &monitors::Counters, spec: &FamilySpec, hash_seed: u64) {
    st.cell("rwnd_pair", format!("{}/{}", sc.cfg[0].rwnd, sc.cfg[1].rwnd));
    st.cell("threshold_pair", format!("{}/{}", sc.cfg[0].thr, sc.cfg[1].thr));
    st.cell("link_capacity", format!("{}/{}", sc.caps[0], sc.caps[1]));
    st.cell("jitter_level", sc.jitter);
    st.cell("streams_per_run", sc.streams.len());
    let nontrivial = match spec.profile {
        Profile::Credit | Profile::Progress => {
            st.target("writer_blocked_at_zero", c.get("writer_blocked_at_zero"));
            st.target("ack_raced_write", c.get("ack_raced_write"));
            c.get("writer_blocked_at_zero") > 0 || c.get("ack_sent") > 0
        }
        Profile::Eos => {
            st.target("eof_seen", c.get("eof_seen"));
            st.target("zero_length_writes", c.get("zero_length_writes"));
            st.target("broken_pipe", c.get("broken_pipe"));
            c.get("eof_seen") > 0
        }
        Profile::Abort => {
            st.target("aborts", c.get("aborts"));
            st.target("leak_probes", c.get("leak_probes"));
            c.get("aborts") > 0
        }
        Profile::Dgram => {
            st.target("dgram_received", c.get("dgram_received"));
            st.target("dgram_arrived_at_full_buffer", c.get("dgram_arrived_at_full_buffer"));
            c.get("dgram_received") > 0
        }
        Profile::Bytes => {
            st.target("reads", c.get("reads"));
            st.target("eof_seen", c.get("eof_seen"));
            c.get("reads") > 0
        }
    };
    if nontrivial {
        // identity of the execution: scenario seed folded with nothing else is enough to be distinct,
        // the interleaving hash is folded in by the caller through the run output when available
        // identity of the execution = its interleaving hash (task-poll order + wire-message order) within its scenario
        st.nontrivial(mix(hash_seed, c.run_hash));
    }
    if st.samples.is_empty() {
        st.sample(describe(sc));
    }
}

pub const C02: FamilySpec = FamilySpec {
    property: "C02",
    cmd: "c02",
    profile: Profile::Bytes,
    fams: &[Fam::Bytes, Fam::Alive, Fam::Panic],
    stall_is_violation: false,
    runs_quick: 24_000,
    runs_thorough: 1_600_000,
    rule: "one case = one execution of a seeded two-endpoint scenario (1-8 multiplexed streams, both directions, plain/vectored/empty writes, read and fill_buf/consume readers, \
independent (rwnd, threshold) per side, link capacity 1/2/8/unbounded, flush back-pressure, schedule jitter at poll boundaries) on the real Multiplexor over the in-memory WebSocket; \
every byte is position-addressed so each read is checked to be the exact continuation of its own stream; non-trivial = at least one read returned data; distinct = distinct (scenario, interleaving hash) pairs, the hash covering task-poll order and wire-message order",
};

pub const C03: FamilySpec = FamilySpec {
    property: "C03",
    cmd: "c03",
    profile: Profile::Credit,
    fams: &[Fam::Credit, Fam::Alive, Fam::Panic],
    stall_is_violation: false,
    runs_quick: 24_000,
    runs_thorough: 1_600_000,
    rule: "one case = one execution of a seeded two-endpoint scenario biased to window edges (rwnd 1-4, thresholds 1-64, readers that pause and resume, bursts of 3*rwnd writes); \
credit rules R1-R5 are evaluated online over the wire tap and the CreditTaken/FrameConsumed/WindowOverrun hooks; non-trivial = a writer blocked at zero credit or a credit-returning Acknowledge was sent",
};

pub const C05: FamilySpec = FamilySpec {
    property: "C05",
    cmd: "c05",
    profile: Profile::Eos,
    fams: &[Fam::Eos, Fam::Alive, Fam::Panic],
    stall_is_violation: false,
    runs_quick: 72_000,
    runs_thorough: 6_400_000,
    rule: "one case = one execution of a seeded scenario of writes (including zero-length and all-empty vectored ones), shutdowns, drops and reads on both ends of 1-8 streams; \
the history is checked against a pipe-with-half-close model (EOF only after the peer finished/aborted/connection end and after all bytes written before a clean shutdown; writes after local shutdown or delivered peer Reset must fail with BrokenPipe); \
non-trivial = a reader observed end-of-stream",
};

pub fn spec_by_cmd(cmd: &str) -> Option<&'static FamilySpec> {
    [&C02, &C03, &C05, &C11].into_iter().find(|s| s.cmd == cmd)
}

/// Re-execute one generated scenario and print its trace (replay support).
pub fn rerun(cmd: &str, seed: u64, tail: usize) {
    std::panic::set_hook(Box::new(|_| {}));
    sim::install_observer();
    let Some(spec) = spec_by_cmd(cmd) else {
        eprintln!("no general-workload spec for {cmd}");
        return;
    };
    let sc = gen_scenario(seed, spec.profile);
    println!("{}", serde_json::to_string_pretty(&describe(&sc)).unwrap_or_default());
    let out = wl::run_general(&sc);
    println!("end = {}", out.end);
    for l in sim::render(&out.log, tail) {
        println!("{l}");
    }
    let meta = Meta { abnormal_end: false, dgram_cap: [sc.cfg[0].dgram_buf, sc.cfg[1].dgram_buf], stream_is_bridge: false, sim: true, ..Meta::default() };
    let an = monitors::analyse(&out.log, &[Fam::Bytes, Fam::Credit, Fam::Eos, Fam::Abort, Fam::Open, Fam::Progress, Fam::Dgram, Fam::Panic], &meta);
    for f in an.findings {
        println!("FINDING {:?} {} :: {} (at {})", f.fam, f.sig, f.detail, f.at);
    }
}

pub const C11: FamilySpec = FamilySpec {
    property: "C11",
    cmd: "c11",
    profile: Profile::Dgram,
    fams: &[Fam::Dgram, Fam::Alive, Fam::Bytes, Fam::Panic],
    stall_is_violation: true,
    runs_quick: 24_000,
    runs_thorough: 1_600_000,
    rule: "one case = one execution of a seeded scenario with 1-40 datagrams plus a burst of 0.5x/1x/3x the receiver's datagram buffer (buffer 1/2/16/512), host length 0..300, payload 0..64 KiB incl. 0-3 bytes, flow ids incl. 0 and 2^32-1, \
receivers prompt / slow / late / absent, and 0-3 streams transferring concurrently; oracle D1-D3: fields identical, each send received at most once and in send order, losses bounded by arrivals at a full buffer, \
host > 255 refused with no trace on the wire, connection task alive, streams uncorrupted, no stall; non-trivial = at least one datagram was received",
};
