//! C18 — SOCKS4/4a/5 message readers and writers against an independent
//! reference grammar (RFC 1928, SOCKS4, SOCKS4a). PURE engine.

use crate::util::{Params, Rng64, Stats, Violation, fnv, hex, mix};
use bytes::Bytes;
use penguin_socks::{v4, v5};
use serde_json::json;
use std::future::Future;
use std::net::{IpAddr, Ipv4Addr, Ipv6Addr, SocketAddr};
use std::panic::{AssertUnwindSafe, catch_unwind};
use std::pin::Pin;
use std::task::{Context, Poll};
use tokio::io::{AsyncRead, AsyncReadExt, AsyncWrite, BufReader, ReadBuf};

const RULE: &str = "cases = SOCKS4 / SOCKS4a / SOCKS5 requests generated over every address type, domain length 0..255, user-id and domain strings \
with and without terminators, all command bytes, unknown versions/types; each well-formed request is fed whole (followed by sentinel bytes) and truncated at \
every position, through a reader that delivers 1..k bytes per poll with Pending in between; reply writers for every reply code x address; UDP relay header \
round trips. Non-trivial = the request reaches the address field; distinct = distinct request bytes (bottom-k hash union)";

/// In-memory duplex: reads from a script in chunks, records writes.
struct ScriptIo {
    data: Vec<u8>,
    pos: usize,
    chunk: usize,
    pend: bool,
    toggle: bool,
    eof_is_pending: bool,
    written: Vec<u8>,
}

impl AsyncRead for ScriptIo {
    fn poll_read(mut self: Pin<&mut Self>, cx: &mut Context<'_>, buf: &mut ReadBuf<'_>) -> Poll<std::io::Result<()>> {
        if self.pend {
            self.toggle = !self.toggle;
            if self.toggle {
                cx.waker().wake_by_ref();
                return Poll::Pending;
            }
        }
        if self.pos >= self.data.len() {
            if self.eof_is_pending {
                return Poll::Pending; // an idle connection: no more bytes, no EOF
            }
            return Poll::Ready(Ok(()));
        }
        let n = self.chunk.min(self.data.len() - self.pos).min(buf.remaining());
        let p = self.pos;
        buf.put_slice(&self.data[p..p + n]);
        self.pos += n;
        Poll::Ready(Ok(()))
    }
}

impl AsyncWrite for ScriptIo {
    fn poll_write(mut self: Pin<&mut Self>, _cx: &mut Context<'_>, buf: &[u8]) -> Poll<std::io::Result<usize>> {
        let n = buf.len().min(self.chunk.max(1));
        self.written.extend_from_slice(&buf[..n]);
        Poll::Ready(Ok(n))
    }
    fn poll_flush(self: Pin<&mut Self>, _cx: &mut Context<'_>) -> Poll<std::io::Result<()>> {
        Poll::Ready(Ok(()))
    }
    fn poll_shutdown(self: Pin<&mut Self>, _cx: &mut Context<'_>) -> Poll<std::io::Result<()>> {
        Poll::Ready(Ok(()))
    }
}

enum Ran<T> {
    Done(T),
    Hung,
    Panicked(String),
}

struct FlagWaker(std::sync::atomic::AtomicBool);
impl std::task::Wake for FlagWaker {
    fn wake(self: std::sync::Arc<Self>) {
        self.0.store(true, std::sync::atomic::Ordering::SeqCst);
    }
}

/// Poll to completion. `Hung` is exact: the future returned `Pending` without
/// having woken its waker, and nothing else exists that could wake it.
fn drive<T>(fut: impl Future<Output = T>) -> Ran<T> {
    let flag = std::sync::Arc::new(FlagWaker(std::sync::atomic::AtomicBool::new(false)));
    let waker = std::task::Waker::from(flag.clone());
    let mut cx = Context::from_waker(&waker);
    let mut fut = Box::pin(fut);
    let r = catch_unwind(AssertUnwindSafe(|| {
        for _ in 0..2_000_000 {
            flag.0.store(false, std::sync::atomic::Ordering::SeqCst);
            if let Poll::Ready(v) = fut.as_mut().poll(&mut cx) {
                return Some(v);
            }
            if !flag.0.load(std::sync::atomic::Ordering::SeqCst) {
                return None;
            }
        }
        None
    }));
    match r {
        Ok(Some(v)) => Ran::Done(v),
        Ok(None) => Ran::Hung,
        Err(p) => Ran::Panicked(p.downcast_ref::<String>().cloned().or_else(|| p.downcast_ref::<&str>().map(|s| (*s).to_string())).unwrap_or_default()),
    }
}

// ---------------------------------------------------------------- reference grammar

#[derive(Clone, Debug, PartialEq, Eq)]
struct Req {
    cmd: u8,
    addr: Vec<u8>,
    port: u16,
}

#[derive(Clone, Debug)]
enum Addr {
    V4([u8; 4]),
    V6([u8; 16]),
    Domain(Vec<u8>),
}

impl Addr {
    fn text(&self) -> Vec<u8> {
        match self {
            Self::V4(a) => Ipv4Addr::from(*a).to_string().into_bytes(),
            Self::V6(a) => Ipv6Addr::from(*a).to_string().into_bytes(),
            Self::Domain(d) => d.clone(),
        }
    }
    fn socks5(&self) -> Vec<u8> {
        match self {
            Self::V4(a) => [&[1u8][..], a].concat(),
            Self::V6(a) => [&[4u8][..], a].concat(),
            Self::Domain(d) => [&[3u8, d.len() as u8][..], d].concat(),
        }
    }
}

/// RFC 1928 section 4 request, complete with the version byte.
fn ref_socks5_request(cmd: u8, rsv: u8, a: &Addr, port: u16) -> Vec<u8> {
    let mut v = vec![5, cmd, rsv];
    v.extend(a.socks5());
    v.extend(port.to_be_bytes());
    v
}

/// SOCKS4 / SOCKS4a request *after* the version byte (that is what the reader is given).
fn ref_socks4_request(cmd: u8, port: u16, ip: [u8; 4], user: &[u8], domain: Option<&[u8]>) -> Vec<u8> {
    let mut v = vec![cmd];
    v.extend(port.to_be_bytes());
    v.extend(ip);
    v.extend(user);
    v.push(0);
    if let Some(d) = domain {
        v.extend(d);
        v.push(0);
    }
    v
}

/// Reference parser of the RFC 1928 UDP request header.
fn ref_parse_udp(b: &[u8]) -> Result<(Vec<u8>, u16, Vec<u8>), &'static str> {
    if b.len() < 4 {
        return Err("short");
    }
    if b[0] != 0 || b[1] != 0 {
        return Err("rsv");
    }
    if b[2] != 0 {
        return Err("frag");
    }
    let (addr, rest): (Vec<u8>, &[u8]) = match b[3] {
        1 => {
            if b.len() < 4 + 4 + 2 {
                return Err("short");
            }
            (Ipv4Addr::new(b[4], b[5], b[6], b[7]).to_string().into_bytes(), &b[8..])
        }
        4 => {
            if b.len() < 4 + 16 + 2 {
                return Err("short");
            }
            let mut a = [0u8; 16];
            a.copy_from_slice(&b[4..20]);
            (Ipv6Addr::from(a).to_string().into_bytes(), &b[20..])
        }
        3 => {
            if b.len() < 5 {
                return Err("short");
            }
            let l = b[4] as usize;
            if b.len() < 5 + l + 2 {
                return Err("short");
            }
            (b[5..5 + l].to_vec(), &b[5 + l..])
        }
        _ => return Err("atyp"),
    };
    Ok((addr, u16::from_be_bytes([rest[0], rest[1]]), rest[2..].to_vec()))
}

// ---------------------------------------------------------------- checks

const SENTINEL: &[u8] = b"\x05SENTINEL-after-request\x00\x01";

fn fail(st: &mut Stats, sig: &str, detail: String, input: &[u8]) {
    st.violation(Violation { signature: sig.to_string(), detail, replay: json!({"kind": "c18", "input_hex": hex(input)}) });
}

fn io_for(rng: &mut Rng64, data: Vec<u8>, eof_is_pending: bool) -> ScriptIo {
    ScriptIo { data, pos: 0, chunk: *rng.pick(&[1usize, 1, 2, 3, 7, 64, 4096]), pend: rng.chance(1, 2), toggle: false, eof_is_pending, written: vec![] }
}

/// v4::read_request on a whole request followed by a sentinel, and on every truncation.
fn check_v4(st: &mut Stats, rng: &mut Rng64, body: &[u8], want: &Req, kind: &str) {
    st.evaluations += 1;
    st.count("v4_requests", 1);
    st.nontrivial(mix(fnv(body), 4));
    // whole
    let mut data = body.to_vec();
    data.extend_from_slice(SENTINEL);
    let cap = *rng.pick(&[1usize, 2, 8, 64, 8192]);
    let io = io_for(rng, data, false);
    let r = drive(async move {
        let mut br = BufReader::with_capacity(cap, io);
        let res = v4::read_request(&mut br).await;
        let mut rest = Vec::new();
        br.read_to_end(&mut rest).await.ok();
        (res.map_err(|e| e.to_string()), rest)
    });
    match r {
        Ran::Done((Ok((cmd, addr, port)), rest)) => {
            let got = Req { cmd, addr, port };
            if got != *want {
                fail(st, &format!("v4-wrong-fields|{kind}"), format!("v4::read_request({}) = {got:?}, SOCKS4/4a assigns {want:?}", hex(body)), body);
            } else if rest != SENTINEL {
                fail(st, &format!("v4-consumed|{kind}"), format!("v4::read_request consumed {} bytes beyond/short of the request ({} left, {} expected)", body.len(), rest.len(), SENTINEL.len()), body);
            }
        }
        Ran::Done((Err(e), _)) => fail(st, &format!("v4-rejects-wellformed|{kind}"), format!("v4::read_request({}) fails: {e}", hex(body)), body),
        Ran::Hung => fail(st, &format!("v4-hang|{kind}"), format!("v4::read_request never completes on a complete request {}", hex(body)), body),
        Ran::Panicked(m) => fail(st, &format!("v4-panic|{kind}"), format!("v4::read_request panicked on {}: {m}", hex(body)), body),
    }
    // every truncation point: EOF inside the request => Err; idle connection => keeps waiting
    for cut in 0..body.len() {
        st.count("v4_truncations", 1);
        let idle = rng.chance(1, 4);
        let io = io_for(rng, body[..cut].to_vec(), idle);
        let r = drive(async move {
            let mut br = BufReader::with_capacity(cap, io);
            v4::read_request(&mut br).await.map_err(|e| e.to_string())
        });
        // which field was cut
        let field = if cut < 1 { "command" } else if cut < 3 { "port" } else if cut < 7 { "ip" } else { "userid-or-domain" };
        match r {
            Ran::Done(Ok(got)) => fail(st, &format!("v4-accepts-truncated|{field}"),
                format!("v4::read_request returns Ok({:?}) for a request cut after {cut} of {} bytes ({}): a missing terminator / short field must be an error", (got.0, String::from_utf8_lossy(&got.1).to_string(), got.2), body.len(), hex(&body[..cut])), &body[..cut]),
            Ran::Done(Err(_)) => {
                if idle {
                    fail(st, &format!("v4-error-while-waiting|{field}"), "reader failed although the connection was only idle".into(), &body[..cut]);
                }
            }
            Ran::Hung => {
                if !idle {
                    fail(st, &format!("v4-hang-truncated|{field}"), format!("v4::read_request never completes after EOF at {cut}"), &body[..cut]);
                }
            }
            Ran::Panicked(m) => fail(st, &format!("v4-panic|{field}"), format!("v4::read_request panicked on truncated input: {m}"), &body[..cut]),
        }
    }
}

fn check_v5_request(st: &mut Stats, rng: &mut Rng64, full: &[u8], want: Result<&Req, &str>, kind: &str) {
    st.evaluations += 1;
    st.count("v5_requests", 1);
    st.nontrivial(mix(fnv(full), 5));
    let mut data = full.to_vec();
    data.extend_from_slice(SENTINEL);
    let io = io_for(rng, data, false);
    let r = drive(async move {
        let mut io = io;
        let res = v5::read_request(&mut io).await;
        let mut rest = Vec::new();
        io.read_to_end(&mut rest).await.ok();
        (res.map_err(|e| format!("{e:?}")), rest, io.written.clone())
    });
    match (r, want) {
        (Ran::Done((Ok((cmd, addr, port)), rest, written)), Ok(w)) => {
            let got = Req { cmd, addr, port };
            if got != *w {
                fail(st, &format!("v5-wrong-fields|{kind}"), format!("v5::read_request({}) = {got:?}, RFC 1928 assigns {w:?}", hex(full)), full);
            } else if rest != SENTINEL {
                fail(st, &format!("v5-consumed|{kind}"), format!("v5::read_request left {} bytes unread, expected {}", rest.len(), SENTINEL.len()), full);
            } else if !written.is_empty() {
                fail(st, &format!("v5-unexpected-write|{kind}"), format!("v5::read_request wrote {} while reading a valid request", hex(&written)), full);
            }
        }
        (Ran::Done((Err(e), _, _)), Ok(_)) => fail(st, &format!("v5-rejects-wellformed|{kind}"), format!("v5::read_request({}) fails: {e}", hex(full)), full),
        (Ran::Done((Ok(g), _, _)), Err(why)) => fail(st, &format!("v5-accepts-malformed|{why}"), format!("v5::read_request({}) = Ok({g:?}) but the request is malformed ({why})", hex(full)), full),
        (Ran::Done((Err(_), _, written)), Err(why)) => {
            if why == "atyp" {
                // RFC 1928 section 6: reply X'08' address type not supported, well-formed reply
                let want_reply = [5u8, 8, 0, 1, 0, 0, 0, 0, 0, 0];
                if written != want_reply {
                    fail(st, "v5-atyp-reply", format!("reply to an unsupported address type is {} instead of {}", hex(&written), hex(&want_reply)), full);
                }
            }
        }
        (Ran::Hung, _) => fail(st, &format!("v5-hang|{kind}"), "v5::read_request never completes on a complete request".into(), full),
        (Ran::Panicked(m), _) => fail(st, &format!("v5-panic|{kind}"), format!("v5::read_request panicked: {m}"), full),
    }
    if want.is_ok() {
        for cut in 0..full.len() {
            st.count("v5_truncations", 1);
            let idle = rng.chance(1, 4);
            let io = io_for(rng, full[..cut].to_vec(), idle);
            let r = drive(async move {
                let mut io = io;
                v5::read_request(&mut io).await.map_err(|e| e.to_string())
            });
            match r {
                Ran::Done(Ok(g)) => fail(st, "v5-accepts-truncated", format!("v5::read_request returns Ok({g:?}) for a request cut after {cut} of {} bytes", full.len()), &full[..cut]),
                Ran::Done(Err(_)) if idle => fail(st, "v5-error-while-waiting", "reader failed although the connection was only idle".into(), &full[..cut]),
                Ran::Done(Err(_)) => {}
                Ran::Hung if !idle => fail(st, "v5-hang-truncated", format!("never completes after EOF at {cut}"), &full[..cut]),
                Ran::Hung => {}
                Ran::Panicked(m) => fail(st, "v5-panic-truncated", format!("panicked on truncated input: {m}"), &full[..cut]),
            }
        }
    }
}

fn check_auth(st: &mut Stats, rng: &mut Rng64) {
    st.evaluations += 1;
    st.count("v5_auth", 1);
    let n = if rng.chance(1, 3) { *rng.pick(&[0usize, 1, 255]) } else { rng.below(256) as usize };
    let methods = rng.bytes(n);
    let mut msg = vec![n as u8];
    msg.extend(&methods);
    st.nontrivial(mix(fnv(&msg), 6));
    let mut data = msg.clone();
    data.extend_from_slice(SENTINEL);
    let io = io_for(rng, data, false);
    let r = drive(async move {
        let mut io = io;
        let res = v5::read_auth_methods(&mut io).await.map_err(|e| e.to_string());
        let mut rest = Vec::new();
        io.read_to_end(&mut rest).await.ok();
        (res, rest)
    });
    match r {
        Ran::Done((Ok(m), rest)) if m == methods && rest == SENTINEL => {}
        Ran::Done((got, rest)) => fail(st, "v5-auth-methods", format!("read_auth_methods({}) = {got:?} leaving {} bytes", hex(&msg), rest.len()), &msg),
        Ran::Hung => fail(st, "v5-auth-hang", "read_auth_methods hangs".into(), &msg),
        Ran::Panicked(m) => fail(st, "v5-auth-panic", m, &msg),
    }
    if n > 0 {
        let cut = rng.below(msg.len() as u64) as usize;
        let io = io_for(rng, msg[..cut].to_vec(), false);
        if let Ran::Done(Ok(m)) = drive(async move {
            let mut io = io;
            v5::read_auth_methods(&mut io).await.map_err(|e| e.to_string())
        }) {
            fail(st, "v5-auth-accepts-truncated", format!("read_auth_methods returns Ok({m:?}) on truncated input"), &msg[..cut]);
        }
    }
    // write_auth_method
    let method = rng.next() as u8;
    let io = io_for(rng, vec![], false);
    if let Ran::Done(w) = drive(async move {
        let mut io = io;
        v5::write_auth_method(&mut io, method).await.ok();
        io.written
    }) {
        if w != [5, method] {
            fail(st, "v5-write-auth", format!("write_auth_method({method}) wrote {}", hex(&w)), &[method]);
        }
    }
}

fn rand_sockaddr(rng: &mut Rng64) -> SocketAddr {
    let port = if rng.chance(1, 2) { *rng.pick(&[0u16, 1, 255, 256, 258, 65535]) } else { rng.next() as u16 };
    if rng.chance(1, 2) {
        let a = if rng.chance(1, 3) { *rng.pick(&[[0u8; 4], [255; 4], [1, 2, 3, 4], [127, 0, 0, 1], [1, 1, 3, 4], [4, 4, 4, 4], [3, 3, 3, 3]]) } else { (rng.next() as u32).to_be_bytes() };
        SocketAddr::new(IpAddr::V4(Ipv4Addr::from(a)), port)
    } else {
        // special forms matter: IPv4-mapped / IPv4-compatible / NAT64 / 6to4 / loopback / unspecified / multicast
        let mut a = [0u8; 16];
        match rng.below(10) {
            0 => {
                a[10] = 0xff;
                a[11] = 0xff;
                a[12..].copy_from_slice(&(rng.next() as u32).to_be_bytes());
            }
            1 => a[12..].copy_from_slice(&(rng.next() as u32).to_be_bytes()),
            2 => {
                a[..4].copy_from_slice(&[0, 0x64, 0xff, 0x9b]);
                a[12..].copy_from_slice(&(rng.next() as u32).to_be_bytes());
            }
            3 => {
                a[0] = 0x20;
                a[1] = 0x02;
                a[2..6].copy_from_slice(&(rng.next() as u32).to_be_bytes());
            }
            4 => a[15] = 1,
            5 => {}
            6 => {
                a[0] = 0xff;
                a[1] = 0x02;
                a[15] = 1;
            }
            _ => a.copy_from_slice(&rng.bytes(16)),
        }
        SocketAddr::new(IpAddr::V6(Ipv6Addr::from(a)), port)
    }
}

fn check_writers(st: &mut Stats, rng: &mut Rng64, code: u8) {
    st.evaluations += 1;
    st.count("reply_writers", 1);
    let sa = rand_sockaddr(rng);
    st.nontrivial(mix(fnv(sa.to_string().as_bytes()), u64::from(code)));
    let mut want = vec![5u8, code, 0];
    match sa.ip() {
        IpAddr::V4(a) => {
            want.push(1);
            want.extend(a.octets());
        }
        IpAddr::V6(a) => {
            want.push(4);
            want.extend(a.octets());
        }
    }
    want.extend(sa.port().to_be_bytes());
    let io = io_for(rng, vec![], false);
    match drive(async move {
        let mut io = io;
        let r = v5::write_response(&mut io, code, sa).await.map_err(|e| e.to_string());
        (r, io.written)
    }) {
        Ran::Done((Ok(()), w)) if w == want => {}
        Ran::Done((r, w)) => fail(st, "v5-write-response", format!("write_response({code}, {sa}) = {r:?} wrote {} instead of {}", hex(&w), hex(&want)), &want),
        _ => fail(st, "v5-write-response-hang-or-panic", format!("write_response({code}, {sa})"), &want),
    }
    let io = io_for(rng, vec![], false);
    if let Ran::Done(w) = drive(async move {
        let mut io = io;
        v5::write_response_unspecified(&mut io, code).await.ok();
        io.written
    }) {
        if w != [5, code, 0, 1, 0, 0, 0, 0, 0, 0] {
            fail(st, "v5-write-response-unspecified", format!("wrote {}", hex(&w)), &[code]);
        }
    }
    let io = io_for(rng, vec![], false);
    if let Ran::Done(w) = drive(async move {
        let mut io = io;
        v4::write_response(&mut io, code).await.ok();
        io.written
    }) {
        if w != [0, code, 0, 0, 0, 0, 0, 0] {
            fail(st, "v4-write-response", format!("v4::write_response({code}) wrote {}", hex(&w)), &[code]);
        }
    }
}

fn check_udp(st: &mut Stats, rng: &mut Rng64) {
    st.evaluations += 1;
    st.count("udp_headers", 1);
    // (1) response builder parsed by the reference parser
    let sa = rand_sockaddr(rng);
    let plen = if rng.chance(1, 2) { *rng.pick(&[0usize, 1, 2, 3, 4, 5, 6, 7, 18, 19, 1400]) } else { rng.below(64) as usize };
    let payload = rng.bytes(plen);
    let built = match catch_unwind(AssertUnwindSafe(|| v5::udp_relay_response(sa, &payload))) {
        Ok(b) => b,
        Err(_) => {
            fail(st, "udp-response-panic", format!("udp_relay_response({sa}) panicked"), &payload);
            return;
        }
    };
    st.nontrivial(mix(fnv(&built), 7));
    let fam = if sa.is_ipv4() { "v4" } else { "v6" };
    match ref_parse_udp(&built) {
        Ok((a, p, d)) if a == sa.ip().to_string().into_bytes() && p == sa.port() && d == payload => {}
        Ok((a, p, d)) => fail(st, &format!("udp-response-roundtrip|{fam}"),
            format!("udp_relay_response({sa}, {} payload bytes) = {} parses (RFC 1928 section 7) to addr={} port={p} data={} instead of the original", payload.len(), hex(&built), String::from_utf8_lossy(&a), hex(&d)), &built),
        Err(e) => fail(st, &format!("udp-response-unparseable|{fam}"),
            format!("udp_relay_response({sa}, {} payload bytes) = {} is not a well-formed RFC 1928 UDP header ({e})", payload.len(), hex(&built)), &built),
    }
    // (2) request parser on reference-built headers, whole and truncated, plus mutations
    let addr = rand_addr(rng);
    let port = rng.next() as u16;
    let mut hdr = vec![0u8, 0, 0];
    hdr.extend(addr.socks5());
    hdr.extend(port.to_be_bytes());
    let hl = hdr.len();
    hdr.extend(&payload);
    let mut cases: Vec<Vec<u8>> = vec![hdr.clone()];
    for _ in 0..3 {
        cases.push(hdr[..rng.below(hl as u64 + 1) as usize].to_vec());
    }
    let mut m = hdr.clone();
    m[2] = rng.range(1, 255) as u8;
    cases.push(m);
    let mut m = hdr.clone();
    m[3] = *rng.pick(&[0u8, 2, 5, 255]);
    cases.push(m);
    for c in cases {
        let want = ref_parse_udp(&c);
        let got = catch_unwind(AssertUnwindSafe(|| v5::parse_udp_relay_header(Bytes::from(c.clone()))));
        match (got, want) {
            (Err(_), _) => fail(st, "udp-parse-panic", format!("parse_udp_relay_header panicked on {}", hex(&c)), &c),
            (Ok(Ok((a, p, d))), Ok((wa, wp, wd))) => {
                if a.as_ref() != wa.as_slice() || p != wp || d.as_ref() != wd.as_slice() {
                    fail(st, "udp-parse-fields", format!("parse_udp_relay_header({}) gives addr={} port={p}", hex(&c), String::from_utf8_lossy(&a)), &c);
                }
            }
            (Ok(Err(e)), Ok(_)) => fail(st, "udp-parse-rejects-valid", format!("parse_udp_relay_header({}) fails: {e}", hex(&c)), &c),
            // the reserved field is not examined by the implementation; RFC says X'0000' but tolerating is harmless: only structural errors are demanded
            (Ok(Ok(_)), Err(why)) if why != "rsv" => fail(st, &format!("udp-parse-accepts-malformed|{why}"), format!("parse_udp_relay_header accepts {} ({why})", hex(&c)), &c),
            _ => {}
        }
    }
}

fn rand_domain(rng: &mut Rng64, len: usize, no_nul: bool) -> Vec<u8> {
    (0..len).map(|_| {
        let b = if rng.chance(3, 4) { *rng.pick(b"abcxyz.-09") } else { rng.next() as u8 };
        if no_nul && b == 0 { 1 } else { b }
    }).collect()
}

fn rand_addr(rng: &mut Rng64) -> Addr {
    match rng.below(3) {
        0 => Addr::V4(if rng.chance(1, 3) { *rng.pick(&[[0u8; 4], [255; 4], [0, 0, 0, 1], [10, 0, 0, 1]]) } else { (rng.next() as u32).to_be_bytes() }),
        1 => {
            let mut a = [0u8; 16];
            if rng.chance(2, 3) {
                a.copy_from_slice(&rng.bytes(16));
            } else {
                a[15] = rng.below(2) as u8;
            }
            Addr::V6(a)
        }
        _ => {
            let l = if rng.chance(1, 3) { *rng.pick(&[0usize, 1, 254, 255]) } else { rng.below(256) as usize };
            Addr::Domain(rand_domain(rng, l, false))
        }
    }
}

pub fn run(p: &Params) -> (Stats, &'static str) {
    std::panic::set_hook(Box::new(|_| {}));
    let mut st = Stats::new();
    let mut rng = Rng64::new(p.shard_seed("C18"));
    st.engine("PURE", 1);
    let n = p.share(if p.tier_thorough { 40_000_000 } else { 12_000 });
    // systematic: every domain length 0..=255 for SOCKS5 and SOCKS4a
    for l in 0..=255usize {
        if l as u64 % p.nshards != p.shard {
            continue;
        }
        st.cell("domain_len", l);
        let d = rand_domain(&mut rng, l, true);
        let port = rng.next() as u16;
        let full = ref_socks5_request(1, 0, &Addr::Domain(d.clone()), port);
        check_v5_request(&mut st, &mut rng, &full, Ok(&Req { cmd: 1, addr: d.clone(), port }), "domain");
        let body = ref_socks4_request(1, port, [0, 0, 0, 7], b"user", Some(&d));
        check_v4(&mut st, &mut rng, &body, &Req { cmd: 1, addr: d, port }, "4a");
    }
    // every command byte and reply code
    for c in 0..=255u8 {
        if u64::from(c) % p.nshards != p.shard {
            continue;
        }
        st.cell("command_or_reply_code", c);
        let a = rand_addr(&mut rng);
        let port = rng.next() as u16;
        let full = ref_socks5_request(c, rng.next() as u8, &a, port);
        check_v5_request(&mut st, &mut rng, &full, Ok(&Req { cmd: c, addr: a.text(), port }), "cmd");
        let ip = [rng.range(1, 255) as u8, rng.next() as u8, rng.next() as u8, rng.next() as u8];
        let body = ref_socks4_request(c, port, ip, b"", None);
        check_v4(&mut st, &mut rng, &body, &Req { cmd: c, addr: Ipv4Addr::from(ip).to_string().into_bytes(), port }, "4");
        check_writers(&mut st, &mut rng, c);
    }
    for _ in 0..n {
        match rng.below(10) {
            0..=2 => {
                // SOCKS5 request
                let a = rand_addr(&mut rng);
                let port = if rng.chance(1, 2) { *rng.pick(&[0u16, 1, 80, 255, 256, 65535]) } else { rng.next() as u16 };
                let cmd = if rng.chance(2, 3) { rng.range(1, 3) as u8 } else { rng.next() as u8 };
                let full = ref_socks5_request(cmd, if rng.chance(3, 4) { 0 } else { rng.next() as u8 }, &a, port);
                st.cell("atyp", full[3]);
                check_v5_request(&mut st, &mut rng, &full, Ok(&Req { cmd, addr: a.text(), port }), "rand");
            }
            3 => {
                // malformed SOCKS5: version or address type
                let a = rand_addr(&mut rng);
                let mut full = ref_socks5_request(1, 0, &a, 80);
                if rng.chance(1, 2) {
                    full[0] = *rng.pick(&[0u8, 4, 6, 255]);
                    check_v5_request(&mut st, &mut rng, &full, Err("version"), "badver");
                } else {
                    full[3] = *rng.pick(&[0u8, 2, 5, 6, 255]);
                    check_v5_request(&mut st, &mut rng, &full, Err("atyp"), "badatyp");
                }
            }
            4..=6 => {
                // SOCKS4 / 4a
                let cmd = if rng.chance(2, 3) { rng.range(1, 2) as u8 } else { rng.next() as u8 };
                let port = rng.next() as u16;
                let ul = if rng.chance(1, 3) { 0 } else { rng.below(40) as usize };
                let user = rand_domain(&mut rng, ul, true);
                if rng.chance(1, 2) {
                    let ip = [rng.range(1, 255) as u8, rng.next() as u8, rng.next() as u8, rng.next() as u8];
                    let body = ref_socks4_request(cmd, port, ip, &user, None);
                    check_v4(&mut st, &mut rng, &body, &Req { cmd, addr: Ipv4Addr::from(ip).to_string().into_bytes(), port }, "4");
                } else {
                    let dl = if rng.chance(1, 4) { *rng.pick(&[0usize, 1, 255, 300]) } else { rng.below(64) as usize };
                    let d = rand_domain(&mut rng, dl, true);
                    let ip = [0, 0, 0, rng.range(1, 255) as u8];
                    let body = ref_socks4_request(cmd, port, ip, &user, Some(&d));
                    check_v4(&mut st, &mut rng, &body, &Req { cmd, addr: d, port }, "4a");
                }
            }
            7 => check_auth(&mut st, &mut rng),
            8 => {
                let c = rng.next() as u8;
                check_writers(&mut st, &mut rng, c);
            }
            _ => check_udp(&mut st, &mut rng),
        }
    }
    // unspecified cells (executed, recorded, no verdict): SOCKS4 with DSTIP 0.0.0.0 or 0.a.b.c
    st.notes.push("SOCKS4 requests with DSTIP 0.0.0.0 or 0.a.b.c (a|b != 0) are outside both SOCKS4 and the 4a convention and carry no verdict".into());
    st.sample(json!({"socks5": hex(&ref_socks5_request(1, 0, &Addr::Domain(b"example.com".to_vec()), 443)), "socks4a_after_version": hex(&ref_socks4_request(1, 80, [0, 0, 0, 1], b"me", Some(b"ex.c"))),
        "checked": "fields == reference, sentinel bytes after the request still unread, every truncation => Err (EOF) or still waiting (idle)"}));
    let _ = std::panic::take_hook();
    (st, RULE)
}
