//! C15 — bind requests resolve exactly once with the peer's decision.
//! SIM engine: (a) general scenarios with 1-8 concurrent requests from either
//! side and every kind/order of answer, (b) flow-id re-use right after a
//! request resolved (scripted RNG), immediately and at a quiescent point.

use crate::monitors::{self, BindMeta, Fam, Meta};
use crate::sim::{self, Api};
use crate::streams::{self, FamilySpec, Profile};
use crate::util::{Params, Rng64, Stats, Violation, mix};
use crate::wl::{self, BindAnswer, BindPlan, EpCfg, Scenario};
use serde_json::json;
use std::sync::Arc;
use std::time::Duration;

pub const SPEC: FamilySpec = FamilySpec {
    property: "C15",
    cmd: "c15",
    profile: Profile::Bytes,
    fams: &[Fam::Bind, Fam::Alive, Fam::Panic],
    stall_is_violation: true,
    runs_quick: 48_000,
    runs_thorough: 6_400_000,
    rule: "one case = one execution of (a) a seeded scenario with 1-8 concurrent bind requests from either side (both bind types, hosts of 0..40 bytes, answers accept / reject / drop / never with seeded delays so that answers arrive in every order, \
responder with binds enabled or disabled) interleaved with 0-3 streams and datagrams; (b) a re-use run: the requester's RNG is scripted to hand out the id of a request that has just resolved for the next request or stream, immediately or after a quiescent point. \
Oracle: each request's result equals the decision the peer application took for that very request (matched by its unique port), no result while the peer has neither answered nor dropped it, type/host/port/flow id shown to the peer equal the request, \
no stall with an answered request pending. Non-trivial = at least one request was answered by the peer application",
};

fn ans_name(a: BindAnswer) -> &'static str {
    match a {
        BindAnswer::Accept => "accept",
        BindAnswer::Reject => "reject",
        BindAnswer::Drop => "drop",
        BindAnswer::Never => "never",
    }
}

pub fn gen_binds(rng: &mut Rng64, n: usize) -> Vec<BindPlan> {
    (0..n).map(|i| BindPlan {
        id: 1 + i as u64,
        from: rng.below(2) as u8,
        datagram_type: rng.chance(1, 2),
        host_len: if rng.chance(1, 4) { 0 } else { rng.below(40) as usize },
        port: 100 + i as u16,
        answer: *rng.pick(&[BindAnswer::Accept, BindAnswer::Accept, BindAnswer::Reject, BindAnswer::Drop, BindAnswer::Never]),
        answer_delay: if rng.chance(1, 2) { rng.range(1, 20) } else { 0 },
        call_delay: if rng.chance(1, 3) { rng.range(1, 10) } else { 0 },
    }).collect()
}

pub fn bind_meta(sc: &Scenario) -> Vec<BindMeta> {
    sc.binds.iter().map(|b| BindMeta { id: b.id, from: b.from, port: b.port, answer: ans_name(b.answer), responder_enabled: sc.cfg[1 - b.from as usize].bind_buf > 0 }).collect()
}

fn general_case(st: &mut Stats, seed: u64) {
    let mut rng = Rng64::new(mix(seed, 0x15));
    let mut sc = streams::gen_scenario(seed, Profile::Bytes);
    sc.streams.truncate(rng.below(4) as usize);
    for c in sc.cfg.iter_mut() {
        c.bind_buf = *rng.pick(&[0usize, 1, 4, 16, 16]);
    }
    let n = rng.range(1, 8) as usize;
    sc.binds = gen_binds(&mut rng, n);
    let meta = Meta { dgram_cap: [sc.cfg[0].dgram_buf, sc.cfg[1].dgram_buf], sim: true, binds: bind_meta(&sc), ..Meta::default() };
    let c = streams::execute(st, &SPEC, &sc, &meta, "general");
    st.target("bind_resolved", c.get("bind_resolved"));
    st.target("bind_accepted", c.get("bind_accepted"));
    st.target("bind_seen", c.get("bind_seen"));
    st.cell("concurrent_binds", n);
    if c.get("bind_seen") > 0 {
        st.nontrivial(mix(seed, c.get("bind_resolved") * 16 + c.get("bind_accepted")));
    }
    if st.samples.is_empty() {
        st.sample(json!({"scenario": streams::describe(&sc), "binds": sc.binds.iter().map(|b| format!("#{} from ep{} port {} {} after {}ms", b.id, b.from, b.port, ans_name(b.answer), b.answer_delay)).collect::<Vec<_>>()}));
    }
}

/// (b) the id of a just-resolved request is handed out again.
fn reuse_case(st: &mut Stats, seed: u64) {
    st.evaluations += 1;
    st.engine("SIM", 1);
    let mut rng = Rng64::new(mix(seed, 0x51));
    let at_quiescent_point = rng.chance(1, 2);
    let first_answer = *rng.pick(&[BindAnswer::Accept, BindAnswer::Accept, BindAnswer::Reject, BindAnswer::Drop]);
    let second_answer = *rng.pick(&[BindAnswer::Accept, BindAnswer::Accept, BindAnswer::Reject]);
    let second_is_stream = rng.chance(1, 4);
    let cfg = [EpCfg { bind_buf: 0, ..EpCfg::default() }, EpCfg { bind_buf: 4, ..EpCfg::default() }];
    let x: u32 = rng.next() as u32 | 1;
    let plans = vec![
        BindPlan { id: 1, from: 0, datagram_type: rng.chance(1, 2), host_len: 5, port: 101, answer: first_answer, answer_delay: rng.below(3), call_delay: 0 },
        BindPlan { id: 2, from: 0, datagram_type: rng.chance(1, 2), host_len: 7, port: 102, answer: second_answer, answer_delay: rng.range(5, 20), call_delay: 0 },
    ];
    let sh = sim::Shared::new(mix(seed, 6), rng.below(4) as u8);
    let plans2 = plans.clone();
    let cfg2 = cfg.clone();
    let end = sim::run(&sh, move |sh| async move {
        let ([e0, e1], _net) = wl::connect(&sh, [&cfg2[0], &cfg2[1]], [0, 0], [None, None], seed, true);
        let all = Arc::new(plans2.clone());
        let resp = sim::spawn(&sh, 8501, wl::bind_responder(sh.clone(), e1.mux.clone(), 1, seed, all));
        let acc_mux = e1.mux.clone();
        let acc = sim::spawn(&sh, 2001, async move {
            // accept (and immediately finish) whatever stream the re-used id produces
            while let Ok(s) = acc_mux.accept_stream_channel().await {
                drop(s);
            }
        });
        // the requester is an ordinary task (FIFO-scheduled with the connection tasks), not the root future
        let (sh3, mux3, rng3, plans3) = (sh.clone(), e0.mux.clone(), e0.rng.clone(), plans2.clone());
        let requester = sim::spawn(&sh, 8601, async move {
            rng3.push(&[x]);
            wl::bind_requester(sh3.clone(), mux3.clone(), 0, seed, plans3[0].clone()).await;
            if at_quiescent_point {
                sim::quiesce().await;
            }
            rng3.push(&[x]);
            if second_is_stream {
                sh3.api(0, 77, Api::OpenCall);
                let r = mux3.new_stream_channel(b"s77.", 5).await;
                Some(r.as_ref().map(|s| s.verif_flow_id()).map_err(wl::err_name))
            } else {
                wl::bind_requester(sh3.clone(), mux3.clone(), 0, seed, plans3[1].clone()).await;
                None
            }
        });
        let stream_ok = requester.await.ok().flatten().flatten();
        sim::quiesce().await;
        let leftover = e0.mux.verif_flow_ids();
        sh.api(0, 0, Api::Teardown);
        resp.abort();
        acc.abort();
        resp.await.ok();
        acc.await.ok();
        let (m0, t0, m1, t1) = (e0.mux, e0.task, e1.mux, e1.task);
        sh.api(0, 0, Api::MuxDrop);
        drop(m0);
        t0.await.ok();
        drop(m1);
        t1.await.ok();
        (stream_ok, leftover)
    });
    let log = sh.take_log();
    let metas: Vec<BindMeta> = plans.iter().map(|b| BindMeta { id: b.id, from: 0, port: b.port, answer: ans_name(b.answer), responder_enabled: true }).collect();
    let meta = Meta { sim: true, binds: metas, dgram_cap: [16, 16], ..Meta::default() };
    let an = monitors::analyse(&log, SPEC.fams, &meta);
    let how = if at_quiescent_point { "quiescent" } else { "immediate" };
    let replay = |at: usize| json!({"kind": "c15-reuse", "run_seed": seed, "reuse": how, "first_answer": ans_name(first_answer), "second": if second_is_stream { "stream" } else { ans_name(second_answer) },
        "trace": sim::render(&log[..at.min(log.len())], 70)});
    match end {
        sim::RunEnd::Finished((stream_ok, leftover)) => {
            st.target("id_reuse_runs", 1);
            st.target(if at_quiescent_point { "reuse_at_quiescent_point" } else { "reuse_immediately" }, 1);
            if let Some(r) = stream_ok {
                match r {
                    Ok(id) if id == x => {}
                    Ok(id) => st.count("reuse_stream_other_id", u64::from(id != x)),
                    Err(e) => st.violation(Violation { signature: format!("reused-id-open-failed|{e}|{how}"), detail: format!("after bind request #1 resolved, a stream request that re-used its flow id {x:x} failed with {e}"), replay: replay(log.len()) }),
                }
            }
            if !leftover.is_empty() {
                st.violation(Violation { signature: format!("bind-id-not-released|{how}"), detail: format!("after all bind requests resolved the requester's flow table still holds {leftover:x?}"), replay: replay(log.len()) });
            }
            st.nontrivial(mix(sh.hash(), u64::from(x)));
        }
        sim::RunEnd::Stalled => st.violation(Violation { signature: format!("stall|reuse-{how}"), detail: "a bind request on a re-used flow id never resolved although the peer answered it".into(), replay: replay(log.len()) }),
        sim::RunEnd::Panicked(m) => st.inconclusive.push(format!("harness panic in c15 reuse: {m}")),
    }
    for f in an.findings {
        st.violation(Violation { signature: format!("{}|reuse-{how}", f.sig), detail: f.detail, replay: replay(f.at + 1) });
    }
    for (k, v) in &an.counters.c {
        st.count(k, *v);
    }
}

/// (e) a request whose future the application drops before the answer (a time-out around `request_bind`, a cancelled task):
/// its answer is still on its way. A request issued afterwards - whatever id the generator offers it, the abandoned one
/// included - must resolve with the decision taken for that very request, never with the late answer to the abandoned one.
fn cancel_case(st: &mut Stats, seed: u64) {
    st.evaluations += 1;
    st.engine("SIM", 1);
    let mut rng = Rng64::new(mix(seed, 0xCA));
    let first_answer = *rng.pick(&[BindAnswer::Accept, BindAnswer::Reject, BindAnswer::Drop]);
    // the opposite decision for the second request, so that a misdirected answer cannot go unnoticed
    let second_answer = if first_answer == BindAnswer::Accept { BindAnswer::Reject } else { BindAnswer::Accept };
    let cancel_after = rng.range(1, 6);
    let first_delay = cancel_after + rng.range(4, 15);
    let second_delay = first_delay + rng.range(10, 30);
    let gap_quiescent = rng.chance(1, 3);
    let second_is_stream = rng.chance(1, 5);
    let cfg = [EpCfg { bind_buf: 0, ..EpCfg::default() }, EpCfg { bind_buf: 4, ..EpCfg::default() }];
    let x: u32 = rng.next() as u32 | 1;
    let y: u32 = (rng.next() as u32 | 1) ^ 0x10;
    let plans = vec![
        BindPlan { id: 1, from: 0, datagram_type: rng.chance(1, 2), host_len: 5, port: 201, answer: first_answer, answer_delay: first_delay, call_delay: 0 },
        BindPlan { id: 2, from: 0, datagram_type: rng.chance(1, 2), host_len: 7, port: 202, answer: second_answer, answer_delay: second_delay, call_delay: 0 },
    ];
    let sh = sim::Shared::new(mix(seed, 7), rng.below(4) as u8);
    let plans2 = plans.clone();
    let cfg2 = cfg.clone();
    let end = sim::run(&sh, move |sh| async move {
        let ([e0, e1], _net) = wl::connect(&sh, [&cfg2[0], &cfg2[1]], [0, 0], [None, None], seed, true);
        let all = Arc::new(plans2.clone());
        let resp = sim::spawn(&sh, 8501, wl::bind_responder(sh.clone(), e1.mux.clone(), 1, seed, all));
        let acc_mux = e1.mux.clone();
        let acc = sim::spawn(&sh, 2001, async move {
            while let Ok(s) = acc_mux.accept_stream_channel().await {
                drop(s);
            }
        });
        let (sh3, mux3, rng3, plans3) = (sh.clone(), e0.mux.clone(), e0.rng.clone(), plans2.clone());
        let requester = sim::spawn(&sh, 8601, async move {
            rng3.push(&[x]);
            // request #1 runs as its own task and is abandoned after its Bind frame has left
            let first = sim::spawn(&sh3, 8602, wl::bind_requester(sh3.clone(), mux3.clone(), 0, seed, plans3[0].clone()));
            tokio::time::sleep(Duration::from_millis(cancel_after)).await;
            sh3.api(0, 0, Api::Note("bind-request-1-abandoned".into()));
            first.abort();
            first.await.ok();
            if gap_quiescent {
                sim::quiesce().await;
            }
            // the generator offers the abandoned id first, then a fresh one
            rng3.push(&[x, y]);
            if second_is_stream {
                sh3.api(0, 77, Api::OpenCall);
                let r = mux3.new_stream_channel(b"s77.", 5).await;
                Some(r.as_ref().map(|s| s.verif_flow_id()).map_err(wl::err_name))
            } else {
                wl::bind_requester(sh3.clone(), mux3.clone(), 0, seed, plans3[1].clone()).await;
                None
            }
        });
        let stream_ok = requester.await.ok().flatten().flatten();
        // let the late answer to the abandoned request arrive as well
        tokio::time::sleep(Duration::from_millis(80)).await;
        sim::quiesce().await;
        let leftover = e0.mux.verif_flow_ids();
        sh.api(0, 0, Api::Teardown);
        resp.abort();
        acc.abort();
        resp.await.ok();
        acc.await.ok();
        let (m0, t0, m1, t1) = (e0.mux, e0.task, e1.mux, e1.task);
        sh.api(0, 0, Api::MuxDrop);
        drop(m0);
        t0.await.ok();
        drop(m1);
        t1.await.ok();
        (stream_ok, leftover)
    });
    let log = sh.take_log();
    let metas: Vec<BindMeta> = plans.iter().map(|b| BindMeta { id: b.id, from: 0, port: b.port, answer: ans_name(b.answer), responder_enabled: true }).collect();
    let meta = Meta { sim: true, binds: metas, dgram_cap: [16, 16], ..Meta::default() };
    let an = monitors::analyse(&log, SPEC.fams, &meta);
    let how = if gap_quiescent { "cancel-then-quiescent" } else { "cancel-then-immediate" };
    let replay = |at: usize| json!({"kind": "c15-cancel", "run_seed": seed, "how": how, "first_answer": ans_name(first_answer), "second": if second_is_stream { "stream" } else { ans_name(second_answer) },
        "cancel_after_ms": cancel_after, "first_answer_after_ms": first_delay, "trace": sim::render(&log[..at.min(log.len())], 70)});
    match end {
        sim::RunEnd::Finished((stream_ok, leftover)) => {
            st.target("abandoned_bind_request_runs", 1);
            if let Some(Err(e)) = &stream_ok {
                st.violation(Violation { signature: format!("open-after-abandoned-bind-failed|{e}|{how}"), detail: format!("bind request #1 was abandoned by its caller; a stream request issued afterwards (the generator offered the abandoned id {x:x}, then {y:x}) failed with {e}"), replay: replay(log.len()) });
            }
            if !leftover.is_empty() {
                st.violation(Violation { signature: format!("bind-id-not-released|{how}"), detail: format!("80 ms after the peer had answered both requests the requester's flow table still holds {leftover:x?}"), replay: replay(log.len()) });
            }
            st.nontrivial(mix(sh.hash(), u64::from(x)));
        }
        sim::RunEnd::Stalled => st.violation(Violation { signature: format!("stall|{how}"), detail: "a request issued after an abandoned bind request never resolved although the peer answered it".into(), replay: replay(log.len()) }),
        sim::RunEnd::Panicked(m) => st.inconclusive.push(format!("harness panic in c15 cancel: {m}")),
    }
    for f in an.findings {
        st.violation(Violation { signature: format!("{}|{how}", f.sig), detail: f.detail, replay: replay(f.at + 1) });
    }
    for (k, v) in &an.counters.c {
        st.count(k, *v);
    }
}

/// (f) both endpoints ask at the same moment and their generators hand out the same flow id (and, in a second variant, the
/// requester's id is one the responder is using for a live stream of its own): a Bind request is shown to the peer application
/// whatever the responder's own table holds under that id, and each request gets the answer given to that very request.
fn crossing_case(st: &mut Stats, seed: u64) {
    st.evaluations += 1;
    st.engine("SIM", 1);
    let mut rng = Rng64::new(mix(seed, 0xCB));
    let answers = [*rng.pick(&[BindAnswer::Accept, BindAnswer::Reject, BindAnswer::Drop]), *rng.pick(&[BindAnswer::Accept, BindAnswer::Reject, BindAnswer::Drop])];
    let with_live_stream = rng.chance(1, 2);
    let cfg = [EpCfg { bind_buf: 4, ..EpCfg::default() }, EpCfg { bind_buf: 4, ..EpCfg::default() }];
    let x: u32 = rng.next() as u32 | 1;
    let plans = vec![
        BindPlan { id: 1, from: 0, datagram_type: rng.chance(1, 2), host_len: 5, port: 301, answer: answers[0], answer_delay: rng.below(12), call_delay: 0 },
        BindPlan { id: 2, from: 1, datagram_type: rng.chance(1, 2), host_len: 9, port: 302, answer: answers[1], answer_delay: rng.below(12), call_delay: 0 },
    ];
    let sh = sim::Shared::new(mix(seed, 8), rng.below(4) as u8);
    let plans2 = plans.clone();
    let cfg2 = cfg.clone();
    let end = sim::run(&sh, move |sh| async move {
        let ([e0, e1], _net) = wl::connect(&sh, [&cfg2[0], &cfg2[1]], [0, 0], [None, None], seed, true);
        let all = Arc::new(plans2.clone());
        let resp: Vec<_> = [(&e0, 0u8), (&e1, 1u8)].iter().map(|(e, ep)| sim::spawn(&sh, 8500 + u64::from(*ep), wl::bind_responder(sh.clone(), e.mux.clone(), *ep, seed, all.clone()))).collect();
        // variant: endpoint 1 still holds its end of a stream that endpoint 0 opened under id x, finished and let go of; endpoint 0's
        // table no longer has x, endpoint 1's does - and endpoint 0 now uses x for its bind request
        let acc_mux = e1.mux.clone();
        let acc = sim::spawn(&sh, 2001, async move {
            let mut keep = Vec::new();
            while let Ok(s) = acc_mux.accept_stream_channel().await {
                keep.push(s);
            }
        });
        if with_live_stream {
            e0.rng.push(&[x]);
            sh.api(0, 78, Api::OpenCall);
            if let Ok(mut s) = e0.mux.new_stream_channel(b"s78.", 5).await {
                use tokio::io::AsyncWriteExt;
                s.shutdown().await.ok();
                drop(s);
            }
            sim::quiesce().await;
        }
        e0.rng.push(&[x]);
        let mut hs = Vec::new();
        if with_live_stream {
            hs.push(sim::spawn(&sh, 8601, wl::bind_requester(sh.clone(), e0.mux.clone(), 0, seed, plans2[0].clone())));
        } else {
            e1.rng.push(&[x]);
            hs.push(sim::spawn(&sh, 8601, wl::bind_requester(sh.clone(), e0.mux.clone(), 0, seed, plans2[0].clone())));
            hs.push(sim::spawn(&sh, 8602, wl::bind_requester(sh.clone(), e1.mux.clone(), 1, seed, plans2[1].clone())));
        }
        for h in hs {
            h.await.ok();
        }
        sim::quiesce().await;
        sh.api(0, 0, Api::Teardown);
        for r in &resp {
            r.abort();
        }
        acc.abort();
        for r in resp {
            r.await.ok();
        }
        acc.await.ok();
        let (m0, t0, m1, t1) = (e0.mux, e0.task, e1.mux, e1.task);
        sh.api(0, 0, Api::MuxDrop);
        drop(m0);
        t0.await.ok();
        drop(m1);
        t1.await.ok();
    });
    let log = sh.take_log();
    let metas: Vec<BindMeta> = plans.iter().filter(|b| !with_live_stream || b.from == 0).map(|b| BindMeta { id: b.id, from: b.from, port: b.port, answer: ans_name(b.answer), responder_enabled: true }).collect();
    let meta = Meta { sim: true, binds: metas, dgram_cap: [16, 16], ..Meta::default() };
    let an = monitors::analyse(&log, SPEC.fams, &meta);
    let how = if with_live_stream { "id-of-responders-live-stream" } else { "crossing-same-id" };
    let replay = |at: usize| json!({"kind": "c15-crossing", "run_seed": seed, "how": how, "answers": format!("{:?}", [ans_name(answers[0]), ans_name(answers[1])]), "trace": sim::render(&log[..at.min(log.len())], 70)});
    match end {
        sim::RunEnd::Finished(()) => {
            st.target("same_id_bind_runs", 1);
            st.nontrivial(mix(sh.hash(), u64::from(x)));
        }
        sim::RunEnd::Stalled => st.violation(Violation { signature: format!("stall|{how}"), detail: "a bind request whose flow id the responder also uses never resolved although the peer application answered it (or was never shown it)".into(), replay: replay(log.len()) }),
        sim::RunEnd::Panicked(m) => st.inconclusive.push(format!("harness panic in c15 crossing: {m}")),
    }
    for f in an.findings {
        st.violation(Violation { signature: format!("{}|{how}", f.sig), detail: f.detail, replay: replay(f.at + 1) });
    }
    for (k, v) in &an.counters.c {
        st.count(k, *v);
    }
}

/// A peer that is not this crate picks its own flow ids (0 included: Bind ids are not kept in the flow table). Whatever the
/// id, the request is answered exactly once: Finish when the application accepts, Reset when it rejects or just drops it.
fn raw_bind_case(st: &mut Stats, seed: u64) {
    use crate::raw::{Got, Raw};
    use crate::refcodec::RefFrame;
    st.evaluations += 1;
    st.engine("SIM", 1);
    let mut rng = Rng64::new(mix(seed, 0x15B));
    let cfg = EpCfg { bind_buf: 4, ..EpCfg::default() };
    let n = rng.range(1, 4) as usize;
    let reqs: Vec<(u32, u8, usize)> = (0..n).map(|i| {
        let id = if rng.chance(1, 3) { 0 } else { (rng.next() as u32) | 1 };
        (id, rng.below(3) as u8, i)
    }).collect();
    let sh = sim::Shared::new(mix(seed, 16), rng.below(4) as u8);
    let reqs2 = reqs.clone();
    let end = sim::run(&sh, move |sh| async move {
        let (w0, w1, _net) = crate::memws::pair(&sh, [0, 0], [None, None], true);
        let e0 = wl::endpoint(&sh, 0, &cfg, w0, seed);
        let mut raw = Raw::new(w1);
        let mut answers = Vec::new();
        for (id, decision, i) in &reqs2 {
            raw.send(&RefFrame::Bind { id: *id, btype: 1 + (*i as u8 % 2) * 2, port: 700 + *i as u16, host: format!("b{i}").into_bytes() }).await;
            let seen = match tokio::time::timeout(Duration::from_millis(5), e0.mux.next_bind_request()).await {
                Ok(Ok(r)) => {
                    let ok = r.host() == format!("b{i}").as_bytes();
                    match decision {
                        0 => {
                            r.reply(true).ok();
                        }
                        1 => {
                            r.reply(false).ok();
                        }
                        _ => {}
                    }
                    drop(r);
                    ok
                }
                _ => false,
            };
            let frames = raw.drain().await;
            answers.push((seen, frames));
        }
        sh.api(0, 0, Api::MuxDrop);
        drop(e0.mux);
        raw.drain().await;
        raw.close().await;
        e0.task.await.ok();
        answers
    });
    let log = sh.take_log();
    let replay = |extra: String| json!({"kind": "c15-raw-bind", "run_seed": seed, "requests": format!("{reqs:?}"), "observed": extra, "trace_tail": sim::render(&log, 50)});
    match end {
        sim::RunEnd::Finished(answers) => {
            st.target("raw_bind_requests", answers.len() as u64);
            st.nontrivial(mix(sh.hash(), answers.len() as u64));
            for ((id, decision, i), (seen, frames)) in reqs.iter().zip(&answers) {
                let fins = frames.iter().filter(|g| matches!(g, Got::Frame(RefFrame::Finish { id: x }) if x == id)).count();
                let rsts = frames.iter().filter(|g| matches!(g, Got::Frame(RefFrame::Reset { id: x }) if x == id)).count();
                let (want_f, want_r) = if *decision == 0 { (1, 0) } else { (0, 1) };
                let what = ["accepted", "rejected", "dropped without a reply"][*decision as usize];
                if !*seen {
                    st.violation(Violation { signature: format!("raw-bind-not-shown|id_zero={}", *id == 0), detail: format!("Bind #{i} with flow id {id:x} was not shown to the application with its host"), replay: replay(format!("{frames:?}")) });
                } else if fins != want_f || rsts != want_r {
                    st.violation(Violation { signature: format!("raw-bind-answer|{}|id_zero={}", what.split(' ').next().unwrap_or(""), *id == 0), detail: format!("Bind #{i} with flow id {id:x} was {what} by the application: {fins} Finish / {rsts} Reset frames were sent in answer (expected {want_f} / {want_r})"), replay: replay(format!("{frames:?}")) });
                }
            }
        }
        sim::RunEnd::Stalled => st.violation(Violation { signature: "stall|raw-bind".into(), detail: "raw Bind requests: the run stalled".into(), replay: replay("stalled".into()) }),
        sim::RunEnd::Panicked(m) => st.inconclusive.push(format!("harness panic in c15 raw-bind: {m}")),
    }
}

/// A bind requested when the connection has just ended, or while it is ending, resolves (Closed or `false`): the slot it
/// inserted after the task's final clean-up must not wait for an answer that can never come.
fn after_end_case(st: &mut Stats, seed: u64) {
    use penguin_mux::frame::BindType;
    st.evaluations += 1;
    st.engine("SIM", 1);
    let mut rng = Rng64::new(mix(seed, 0x15E));
    let cfg = [EpCfg { bind_buf: 0, ..EpCfg::default() }, EpCfg { bind_buf: *rng.pick(&[0usize, 4]), ..EpCfg::default() }];
    let how = *rng.pick(&["peer-dropped", "local-task-gone"]);
    let racing = rng.range(0, 3) as usize;
    let sh = sim::Shared::new(mix(seed, 14), rng.below(4) as u8);
    let cfg2 = cfg.clone();
    let end = sim::run(&sh, move |sh| async move {
        let ([e0, e1], _net) = wl::connect(&sh, [&cfg2[0], &cfg2[1]], [0, 0], [None, None], seed, true);
        sim::quiesce().await;
        // requests issued while the connection is going down
        let mut race = Vec::new();
        let peer_mux = e1.mux;
        sh.api(1, 0, Api::MuxDrop);
        drop(peer_mux);
        for k in 0..racing {
            let m = e0.mux.clone();
            race.push(sim::spawn(&sh, 9100 + k as u64, async move { m.request_bind(b"racing", 10 + k as u16, BindType::Stream).await.map_err(|e| wl::err_name(&e)) }));
            if how == "local-task-gone" {
                sim::jitter_yield(&sh).await;
            }
        }
        // the local task returns once the peer's Close has been answered
        e0.task.await.ok();
        e1.task.await.ok();
        let mut results = Vec::new();
        for h in race {
            results.push(match tokio::time::timeout(std::time::Duration::from_millis(5), h).await {
                Ok(Ok(Some(Ok(b)))) => format!("ok:{b}"),
                Ok(Ok(Some(Err(e)))) => format!("err:{e}"),
                Ok(_) => "task-failed".into(),
                Err(_) => "pending".into(),
            });
        }
        // requests issued after the end
        for k in 0..2u16 {
            let r = tokio::time::timeout(std::time::Duration::from_millis(5), e0.mux.request_bind(b"late", 20 + k, BindType::Datagram)).await;
            results.push(match r {
                Ok(Ok(b)) => format!("ok:{b}"),
                Ok(Err(e)) => format!("err:{}", wl::err_name(&e)),
                Err(_) => "pending".into(),
            });
        }
        let left = e0.mux.verif_flow_ids();
        drop(e0.mux);
        (results, left)
    });
    let log = sh.take_log();
    let replay = |extra: String| json!({"kind": "c15-after-end", "run_seed": seed, "how": how, "racing": racing, "observed": extra, "trace_tail": sim::render(&log, 60)});
    match end {
        sim::RunEnd::Finished((results, left)) => {
            st.target("binds_requested_around_connection_end", results.len() as u64);
            st.nontrivial(mix(sh.hash(), results.len() as u64));
            for (i, r) in results.iter().enumerate() {
                let ok = r == "err:Closed" || r == "ok:false";
                if !ok {
                    let which = if i < racing { "while the connection was ending" } else { "after the connection had ended" };
                    st.violation(Violation { signature: format!("bind-around-end|{}", if r == "pending" { "never-resolved" } else { "wrong-answer" }), detail: format!("a bind requested {which} resolved `{r}` (expected Closed or false); all results {results:?}"), replay: replay(format!("{results:?}")) });
                    break;
                }
            }
            // (a slot left in the table of a dead connection is not demanded to be removed: the table goes with the Multiplexor)
            st.count("slots_left_in_dead_table", left.len() as u64);
        }
        sim::RunEnd::Stalled => st.violation(Violation { signature: "stall|after-end".into(), detail: "bind requests around the end of the connection: the run stalled".into(), replay: replay("stalled".into()) }),
        sim::RunEnd::Panicked(m) => st.inconclusive.push(format!("harness panic in c15 after-end: {m}")),
    }
}

pub fn run(p: &Params) -> (Stats, &'static str) {
    std::panic::set_hook(Box::new(|_| {}));
    sim::install_observer();
    let mut st = Stats::new();
    let base = p.shard_seed("C15");
    let n = p.share(if p.tier_thorough { SPEC.runs_thorough } else { SPEC.runs_quick });
    for i in 0..n {
        let seed = mix(base, i);
        if i % 8 == 1 {
            raw_bind_case(&mut st, seed);
        } else if i % 8 == 5 {
            after_end_case(&mut st, seed);
        } else if i % 16 == 11 {
            // a Connect carrying the id of the endpoint's own unanswered bind request (C07's raw-peer case): the request stays
            // pending and resolves with the peer's later answer
            crate::c07::raw_bad_connect_case(&mut st, seed);
        } else if i % 16 == 7 {
            cancel_case(&mut st, seed);
        } else if i % 16 == 15 {
            crossing_case(&mut st, seed);
        } else if i % 4 == 3 {
            reuse_case(&mut st, seed);
        } else {
            general_case(&mut st, seed);
        }
        if st.too_many_violations() {
            break;
        }
    }
    (st, SPEC.rule)
}
