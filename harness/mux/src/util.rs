//! Small deterministic utilities shared by all engines: PRNG, PRF payloads,
//! hashing, and the per-shard result accumulator that `check` merges.

use serde_json::{Value, json};
use std::collections::{BTreeMap, BTreeSet};

/// SplitMix64 — deterministic, seedable, no dependencies.
#[derive(Clone, Debug)]
pub struct Rng64(pub u64);

impl Rng64 {
    pub fn new(seed: u64) -> Self {
        Self(seed ^ 0x9E37_79B9_7F4A_7C15)
    }
    #[inline]
    pub fn next(&mut self) -> u64 {
        self.0 = self.0.wrapping_add(0x9E37_79B9_7F4A_7C15);
        let mut z = self.0;
        z = (z ^ (z >> 30)).wrapping_mul(0xBF58_476D_1CE4_E5B9);
        z = (z ^ (z >> 27)).wrapping_mul(0x94D0_49BB_1331_11EB);
        z ^ (z >> 31)
    }
    /// uniform in 0..n (n > 0)
    #[inline]
    pub fn below(&mut self, n: u64) -> u64 {
        self.next() % n
    }
    #[inline]
    pub fn range(&mut self, lo: u64, hi_incl: u64) -> u64 {
        lo + self.below(hi_incl - lo + 1)
    }
    #[inline]
    pub fn chance(&mut self, num: u64, den: u64) -> bool {
        self.below(den) < num
    }
    pub fn pick<'a, T>(&mut self, xs: &'a [T]) -> &'a T {
        &xs[self.below(xs.len() as u64) as usize]
    }
    pub fn fork(&mut self) -> Self {
        Self::new(self.next())
    }
    pub fn bytes(&mut self, n: usize) -> Vec<u8> {
        (0..n).map(|_| self.next() as u8).collect()
    }
}

#[inline]
pub fn mix(a: u64, b: u64) -> u64 {
    let mut z = a ^ b.wrapping_mul(0x9E37_79B9_7F4A_7C15) ^ 0xD6E8_FEB8_6659_FD93;
    z = (z ^ (z >> 32)).wrapping_mul(0xD6E8_FEB8_6659_FD93);
    z = (z ^ (z >> 32)).wrapping_mul(0xD6E8_FEB8_6659_FD93);
    z ^ (z >> 32)
}

/// Position-addressed payload: byte `i` of the stream identified by `key`.
#[inline]
pub fn prf_byte(key: u64, i: u64) -> u8 {
    let block = mix(key, i >> 3);
    (block >> ((i & 7) * 8)) as u8
}

pub fn prf_fill(key: u64, offset: u64, buf: &mut [u8]) {
    for (j, b) in buf.iter_mut().enumerate() {
        *b = prf_byte(key, offset + j as u64);
    }
}

pub fn prf_vec(key: u64, offset: u64, len: usize) -> Vec<u8> {
    let mut v = vec![0u8; len];
    prf_fill(key, offset, &mut v);
    v
}

/// First offset at which `data` differs from the PRF stream, if any.
pub fn prf_mismatch(key: u64, offset: u64, data: &[u8]) -> Option<usize> {
    data.iter()
        .enumerate()
        .find(|(j, b)| **b != prf_byte(key, offset + *j as u64))
        .map(|(j, _)| j)
}

pub fn fnv(data: &[u8]) -> u64 {
    let mut h = 0xcbf2_9ce4_8422_2325u64;
    for b in data {
        h ^= u64::from(*b);
        h = h.wrapping_mul(0x0100_0000_01b3);
    }
    h
}

pub fn hex(data: &[u8]) -> String {
    let mut s = String::with_capacity(data.len() * 2);
    for b in data.iter().take(96) {
        s.push_str(&format!("{b:02x}"));
    }
    if data.len() > 96 {
        s.push_str(&format!("..(+{})", data.len() - 96));
    }
    s
}

/// A violation found by a monitor.
#[derive(Clone, Debug)]
pub struct Violation {
    /// Stable identification of *what* failed (used for known-findings matching)
    pub signature: String,
    /// Human-readable description
    pub detail: String,
    /// Everything needed to re-execute: scenario kind, parameters, seed, witness trace
    pub replay: Value,
}

/// Per-shard result accumulator.
#[derive(Default, Debug)]
pub struct Stats {
    pub evaluations: u64,
    pub hashes: BTreeSet<u64>,
    pub counters: BTreeMap<String, u64>,
    pub targeted: BTreeMap<String, u64>,
    pub cells: BTreeMap<String, BTreeSet<String>>,
    pub engines: BTreeMap<String, u64>,
    pub samples: Vec<Value>,
    pub violations: Vec<Violation>,
    pub inconclusive: Vec<String>,
    pub exhaustive: Vec<String>,
    pub notes: Vec<String>,
    pub max_violations: usize,
}

impl Stats {
    pub fn new() -> Self {
        Self {
            max_violations: 40,
            ..Default::default()
        }
    }
    pub fn count(&mut self, k: &str, n: u64) {
        *self.counters.entry(k.to_string()).or_default() += n;
    }
    pub fn target(&mut self, k: &str, n: u64) {
        *self.targeted.entry(k.to_string()).or_default() += n;
    }
    pub fn cell(&mut self, dim: &str, v: impl ToString) {
        let set = self.cells.entry(dim.to_string()).or_default();
        if set.len() < 4096 {
            set.insert(v.to_string());
        }
    }
    pub fn engine(&mut self, k: &str, n: u64) {
        *self.engines.entry(k.to_string()).or_default() += n;
    }
    pub fn sample(&mut self, v: Value) {
        if self.samples.len() < 4 {
            self.samples.push(v);
        }
    }
    /// Record a distinct non-trivial case. Only the 50 000 smallest hashes are
    /// kept (bottom-k), so the merged count is a conservative lower bound.
    pub fn nontrivial(&mut self, h: u64) {
        self.hashes.insert(h);
        if self.hashes.len() > 50_000 {
            self.hashes.pop_last();
        }
    }
    pub fn violation(&mut self, v: Violation) {
        // keep one witness per signature, count the rest
        self.count("violations_total", 1);
        if self.violations.iter().any(|x| x.signature == v.signature) {
            return;
        }
        if self.violations.len() < self.max_violations {
            self.violations.push(v);
        }
    }
    pub fn too_many_violations(&self) -> bool {
        self.violations.len() >= self.max_violations
    }
    pub fn to_json(&self, property: &str, rule: &str) -> Value {
        json!({
            "property": property,
            "rule": rule,
            "evaluations": self.evaluations,
            "hashes": self.hashes.iter().map(|h| format!("{h:016x}")).collect::<Vec<_>>(),
            "counters": self.counters,
            "targeted": self.targeted,
            "cells": self.cells.iter().map(|(k, v)| (k.clone(), v.iter().cloned().collect::<Vec<_>>())).collect::<BTreeMap<_, _>>(),
            "engines": self.engines,
            "samples": self.samples,
            "violations": self.violations.iter().map(|v| json!({
                "signature": v.signature, "detail": v.detail, "replay": v.replay,
            })).collect::<Vec<_>>(),
            "inconclusive": self.inconclusive,
            "exhaustive": self.exhaustive,
            "notes": self.notes,
        })
    }
}

/// Command-line parameters common to all sub-commands.
#[derive(Clone, Debug)]
pub struct Params {
    pub tier_thorough: bool,
    pub seed: u64,
    pub shard: u64,
    pub nshards: u64,
    pub out: Option<String>,
    pub replay: Option<String>,
    pub scale: f64,
    pub extra: BTreeMap<String, String>,
}

impl Params {
    pub fn shard_seed(&self, property: &str) -> u64 {
        mix(mix(self.seed, fnv(property.as_bytes())), self.shard)
    }
    /// number of runs this shard should do, given the total for the tier
    pub fn share(&self, total: u64) -> u64 {
        let total = ((total as f64) * self.scale).ceil() as u64;
        let base = total / self.nshards;
        let rem = total % self.nshards;
        base + u64::from(self.shard < rem)
    }
    pub fn get(&self, k: &str) -> Option<&str> {
        self.extra.get(k).map(String::as_str)
    }
}

// ------------------------------------------------------------------ blocked-executor watchdog
//
// In the SIM / PURE / MICRO engines nothing ever sleeps in real time (the clock is paused, there is no I/O),
// so a harness process all of whose threads are asleep and consume no CPU for many seconds has an executor
// thread blocked inside a poll (e.g. a lock taken twice by the connection task). That is an observation about
// the code under test, with a /proc witness, not a wall-clock deadline: a loaded machine makes threads
// runnable, never asleep.

static CURRENT: std::sync::Mutex<String> = std::sync::Mutex::new(String::new());

/// Describe what the process is executing right now (shown in the watchdog's replay record).
pub fn set_current(s: String) {
    if let Ok(mut g) = CURRENT.lock() {
        *g = s;
    }
}

pub fn own_tid() -> i64 {
    std::fs::read_link("/proc/thread-self").ok().and_then(|p| p.file_name().map(|f| f.to_string_lossy().to_string())).and_then(|s| s.parse().ok()).unwrap_or(-1)
}

/// CPU ticks (utime + stime) consumed so far by one thread of this process.
pub fn thread_cpu_ticks(tid: i64) -> Option<u64> {
    let stat = std::fs::read_to_string(format!("/proc/self/task/{tid}/stat")).ok()?;
    let after = stat.rsplit_once(')')?.1;
    let f: Vec<&str> = after.split_whitespace().collect();
    Some(f.get(11)?.parse::<u64>().ok()? + f.get(12)?.parse::<u64>().ok()?)
}

/// (every other thread asleep, their total CPU ticks, their number)
fn threads_snapshot(me: i64) -> Option<(bool, u64, usize)> {
    let mut all_sleeping = true;
    let mut cpu = 0u64;
    let mut n = 0usize;
    for e in std::fs::read_dir("/proc/self/task").ok()? {
        let e = e.ok()?;
        let tid: i64 = e.file_name().to_string_lossy().parse().ok()?;
        if tid == me {
            continue;
        }
        let Ok(stat) = std::fs::read_to_string(e.path().join("stat")) else { continue };
        let after = stat.rsplit_once(')')?.1;
        let f: Vec<&str> = after.split_whitespace().collect();
        let state = *f.first()?;
        let ut: u64 = f.get(11)?.parse().ok()?;
        let stime: u64 = f.get(12)?.parse().ok()?;
        cpu += ut + stime;
        n += 1;
        if state != "S" {
            all_sleeping = false;
        }
    }
    Some((all_sleeping, cpu, n))
}

/// Start the watchdog thread. `quiet_secs` consecutive one-second samples with every thread asleep and no CPU
/// time consumed => write a result file carrying one violation and end the process.
pub fn start_block_watchdog(property: String, out: Option<String>, shard: u64, quiet_secs: u32) {
    if cfg!(miri) {
        return;
    }
    std::thread::spawn(move || {
        let me = own_tid();
        let mut quiet = 0u32;
        let mut last_cpu = u64::MAX;
        loop {
            std::thread::sleep(std::time::Duration::from_secs(1));
            match threads_snapshot(me) {
                Some((true, cpu, n)) if n > 0 && cpu == last_cpu => quiet += 1,
                Some((_, cpu, _)) => {
                    quiet = 0;
                    last_cpu = cpu;
                }
                None => quiet = 0,
            }
            if quiet >= quiet_secs {
                let what = CURRENT.lock().map(|g| g.clone()).unwrap_or_default();
                let mut st = Stats::new();
                st.evaluations = 1;
                st.violation(Violation {
                    signature: "executor-thread-blocked".into(),
                    detail: format!("every thread of the harness process was asleep and consumed no CPU time for {quiet_secs} s while executing [{what}]; nothing sleeps in real time in this engine, so the thread polling the connection task is blocked inside a poll (self-deadlock): the endpoint stopped serving and never ends"),
                    replay: json!({"kind": "blocked-executor", "executing": what, "witness": format!("/proc/self/task: all threads in state S, utime+stime unchanged over {quiet_secs} consecutive 1 s samples")}),
                });
                let mut v = st.to_json(&property, "blocked-executor watchdog (see DESIGN.md 7.7)");
                v["shard"] = json!(shard);
                v["wall_s"] = json!(0.0);
                let text = serde_json::to_string(&v).unwrap_or_default();
                match &out {
                    Some(path) => {
                        let _ = std::fs::write(path, text);
                    }
                    None => println!("{text}"),
                }
                std::process::exit(0);
            }
        }
    });
}
