//! A bundle of application operations that are all *pending* on one endpoint
//! (reader, blocked writer, open, accept, datagram receive, bind request, next
//! bind request). After the connection ends every one of them must resolve
//! before the next quiescent point, with a result from DESIGN.md appendix A.3.

use crate::sim::{self, Sh};
use crate::wl::{self, Mux};
use penguin_mux::MuxStream;
use penguin_mux::frame::BindType;
use std::sync::Arc;
use std::time::Duration;
use tokio::io::{AsyncReadExt, AsyncWriteExt};
use tokio::task::JoinHandle;

pub struct Pending {
    pub handles: Vec<(&'static str, JoinHandle<Option<String>>)>,
}

/// Outcome of one operation: its name and what it returned (None = still pending at quiescence).
pub type Outcome = (&'static str, Option<String>);

impl Pending {
    /// `reader`: a stream on which nothing more will arrive; `writer`: a stream whose credit is exhausted.
    pub fn spawn(sh: &Sh, mux: &Arc<Mux>, reader: Option<MuxStream>, writer: Option<MuxStream>, binds_enabled: bool) -> Self {
        Self::spawn_opt(sh, mux, reader, writer, binds_enabled, true)
    }

    /// `with_accept = false`: leave the accept queue alone (scenarios that need it to stay full)
    pub fn spawn_opt(sh: &Sh, mux: &Arc<Mux>, reader: Option<MuxStream>, writer: Option<MuxStream>, binds_enabled: bool, with_accept: bool) -> Self {
        let mut handles: Vec<(&'static str, JoinHandle<Option<String>>)> = Vec::new();
        if let Some(mut s) = reader {
            handles.push(("read", sim::spawn(sh, 9001, async move {
                let mut total = 0usize;
                let mut buf = [0u8; 256];
                loop {
                    match s.read(&mut buf).await {
                        Ok(0) => return format!("eof-after-{total}"),
                        Ok(n) => total += n,
                        Err(e) => return format!("err:{}", e.kind()),
                    }
                }
            })));
        }
        if let Some(mut s) = writer {
            handles.push(("blocked-write", sim::spawn(sh, 9002, async move {
                // keep writing until the stream refuses
                let mut n = 0usize;
                loop {
                    match s.write(b"w").await {
                        Ok(_) => n += 1,
                        Err(e) => return format!("err:{:?}-after-{n}", e.kind()),
                    }
                    if n > 100_000 {
                        return "never-blocked".into();
                    }
                }
            })));
        }
        let m = mux.clone();
        handles.push(("open", sim::spawn(sh, 9003, async move {
            match m.new_stream_channel(b"pending-open", 1).await {
                Ok(_) => "ok".to_string(),
                Err(e) => format!("err:{}", wl::err_name(&e)),
            }
        })));
        let m = mux.clone();
        if with_accept {
        handles.push(("accept", sim::spawn(sh, 9004, async move {
            let mut n = 0;
            loop {
                match m.accept_stream_channel().await {
                    Ok(_) => n += 1,
                    Err(e) => return format!("err:{}-after-{n}", wl::err_name(&e)),
                }
            }
        })));
        }
        let m = mux.clone();
        handles.push(("get_datagram", sim::spawn(sh, 9005, async move {
            let mut n = 0;
            loop {
                match m.get_datagram().await {
                    Ok(_) => n += 1,
                    Err(e) => return format!("err:{}-after-{n}", wl::err_name(&e)),
                }
            }
        })));
        let m = mux.clone();
        handles.push(("request_bind", sim::spawn(sh, 9006, async move {
            match m.request_bind(b"pending-bind", 2, BindType::Stream).await {
                Ok(b) => format!("ok:{b}"),
                Err(e) => format!("err:{}", wl::err_name(&e)),
            }
        })));
        if binds_enabled {
            let m = mux.clone();
            handles.push(("next_bind_request", sim::spawn(sh, 9007, async move {
                let mut n = 0;
                loop {
                    match m.next_bind_request().await {
                        Ok(r) => {
                            // hold it unanswered; dropping answers `false`
                            std::mem::forget(r);
                            n += 1;
                        }
                        Err(e) => return format!("err:{}-after-{n}", wl::err_name(&e)),
                    }
                }
            })));
        }
        Self { handles }
    }

    /// Wait until quiescence (virtual 5 ms) and report what every operation returned.
    pub async fn collect(self) -> Vec<Outcome> {
        let mut out = Vec::new();
        let deadline = tokio::time::Instant::now() + Duration::from_millis(5);
        for (name, mut h) in self.handles {
            match tokio::time::timeout_at(deadline, &mut h).await {
                Ok(Ok(Some(s))) => out.push((name, Some(s))),
                Ok(Ok(None)) => out.push((name, Some("panicked".into()))),
                Ok(Err(_)) => out.push((name, Some("join-error".into()))),
                Err(_) => {
                    h.abort();
                    out.push((name, None));
                }
            }
        }
        out
    }
}

/// Operations issued *after* the connection task has returned: each must resolve at once (Closed), none may wait.
pub async fn later(mux: &Arc<Mux>, binds_enabled: bool) -> Vec<Outcome> {
    let mut out: Vec<Outcome> = Vec::new();
    let t = Duration::from_millis(5);
    out.push(("later-open", tokio::time::timeout(t, mux.new_stream_channel(b"later-open", 1)).await.ok().map(|r| match r {
        Ok(_) => "ok".to_string(),
        Err(e) => format!("err:{}", wl::err_name(&e)),
    })));
    out.push(("later-request_bind", tokio::time::timeout(t, mux.request_bind(b"later-bind", 2, BindType::Stream)).await.ok().map(|r| match r {
        Ok(b) => format!("ok:{b}"),
        Err(e) => format!("err:{}", wl::err_name(&e)),
    })));
    out.push(("later-get_datagram", tokio::time::timeout(t, async {
        // whatever had been queued may still be handed out; then Closed
        loop {
            match mux.get_datagram().await {
                Ok(_) => {}
                Err(e) => return format!("err:{}", wl::err_name(&e)),
            }
        }
    }).await.ok()));
    out.push(("later-accept", tokio::time::timeout(t, async {
        loop {
            match mux.accept_stream_channel().await {
                Ok(_) => {}
                Err(e) => return format!("err:{}", wl::err_name(&e)),
            }
        }
    }).await.ok()));
    if binds_enabled {
        out.push(("later-next_bind_request", tokio::time::timeout(t, async {
            loop {
                match mux.next_bind_request().await {
                    Ok(r) => std::mem::forget(r),
                    Err(e) => return format!("err:{}", wl::err_name(&e)),
                }
            }
        }).await.ok()));
    }
    let d = penguin_mux::Datagram { flow_id: 0x1A7E, target_host: "later".into(), target_port: 1, data: vec![1u8, 2, 3].into() };
    out.push(("later-send_datagram", tokio::time::timeout(t, mux.send_datagram(d)).await.ok().map(|r| match r {
        Ok(()) => "ok".to_string(),
        Err(e) => format!("err:{}", wl::err_name(&e)),
    })));
    out
}

/// Check outcomes against appendix A.3. Returns (signature, detail) per problem.
pub fn judge(outcomes: &[Outcome], cause: &str, peer_may_have_answered: bool) -> Vec<(String, String)> {
    let mut bad = Vec::new();
    for (name, res) in outcomes {
        match res {
            None => bad.push((format!("still-pending|{name}|{cause}"), format!("after the connection ended ({cause}) the {} `{name}` had not resolved when the system went idle", if name.starts_with("later-") { "operation issued afterwards" } else { "pending" }))),
            Some(r) => {
                let ok = match *name {
                    "read" => r.starts_with("eof-after-"),
                    "blocked-write" => r.starts_with("err:BrokenPipe"),
                    "open" => r == "err:Closed" || (peer_may_have_answered && r == "ok"),
                    "accept" => r.starts_with("err:Closed"),
                    "get_datagram" => r.starts_with("err:Closed"),
                    "request_bind" => r == "err:Closed" || r == "ok:false" || (peer_may_have_answered && r == "ok:true"),
                    "next_bind_request" => r.starts_with("err:Closed"),
                    "later-open" | "later-get_datagram" | "later-accept" | "later-next_bind_request" | "later-send_datagram" => r == "err:Closed",
                    "later-request_bind" => r == "err:Closed" || r == "ok:false",
                    _ => true,
                };
                if !ok {
                    bad.push((format!("wrong-outcome|{name}|{cause}"), format!("after the connection ended ({cause}) the pending `{name}` resolved with `{r}`")));
                }
            }
        }
    }
    bad
}
