//! C16 — keepalive: ping schedule, bounded detection of a dead peer, never a
//! live one. SIM engine, virtual time, raw peer with scripted pongs.

use crate::endops::{self, Pending};
use crate::memws;
use crate::raw::{Got, Raw};
use crate::refcodec::RefFrame;
use crate::sim::{self, Ev, Rec, Wm};
use crate::util::{Params, Rng64, Stats, Violation, mix};
use crate::wl::{self, EpCfg};
use penguin_mux::ws::Message;
use serde_json::json;
use std::time::Duration;

const RULE: &str = "one case = one execution in virtual time of a real endpoint with keepalive (I, T) from {1,2,3,5,10,60}^2 s (incl. T<I clamped, T=I) or keepalive disabled, against a raw peer whose pong script is: \
always answer after d in [0,T'], answer k rounds then go silent, never answer, answer late (> T'), always answer with a different delay in [0,T'] per Ping, always answer while the executor is busy until just after the next tick (Pong and tick handled in the same poll); and never / k rounds / always again with a peer that sends Pings of its own every I/2..T' (they are not answers). Oracle K1-K5 on the tap's virtual timestamps: k-th Ping at exactly k*I; a KeepaliveTimeout at tau requires tau - last_pong >= T'; \
a silent peer is detected by last_pong + T' + I; answered-in-time and disabled cases run to a horizon of 2000 intervals without returning; after the timeout every pending application operation resolves before quiescence. \
The (I,T) grid x script kinds is enumerated completely; delays are seeded. Non-trivial = at least two Pings were observed or keepalive was disabled";

#[derive(Clone, Debug)]
enum Script {
    Always { d_ms: u64 },
    Rounds { k: u32, d_ms: u64 },
    Never,
    Late { d_ms: u64 },
    /// every Ping is answered after `d_ms`, but right after some Pongs were put on the wire the executor is
    /// "busy" (the clock jumps, nothing is polled) until just after the next keepalive tick: the Pong and the
    /// tick are then handled in the same poll of the connection task
    AlwaysBusy { d_ms: u64, every: u32 },
    /// every Ping is answered within T', each with its own delay (jitter): delays_ms[k % len]
    AlwaysVar { delays_ms: Vec<u64> },
}

struct Obs {
    pings: Vec<u64>,
    pongs: Vec<u64>,
    ret: Option<(u64, String)>,
}

fn observe(log: &[Rec]) -> Obs {
    let mut o = Obs { pings: vec![], pongs: vec![], ret: None };
    for r in log {
        match &r.ev {
            Ev::Sent { ep: 0, m: Wm::Ping } => o.pings.push(r.t),
            Ev::Dlv { ep: 0, m: Wm::Pong } => o.pongs.push(r.t),
            Ev::TaskRet { ep: 0, res } => o.ret = Some((r.t, res.clone())),
            _ => {}
        }
    }
    o
}

fn one(st: &mut Stats, seed: u64, i_s: u64, t_s: u64, script: Script, reverse_order: bool, peer_ping_ms: u64) {
    one_ms(st, seed, i_s * 1000, t_s * 1000, script, reverse_order, peer_ping_ms);
}

/// interval and timeout in milliseconds (0 = disabled)
fn one_ms(st: &mut Stats, seed: u64, i_ms: u64, t_ms: u64, script: Script, reverse_order: bool, peer_ping_ms: u64) {
    st.evaluations += 1;
    st.engine("SIM", 1);
    let mut rng = Rng64::new(mix(seed, 0x16));
    let cfg = EpCfg { keepalive: Some((i_ms, t_ms)), keepalive_timeout_first: reverse_order, rwnd: 4, bind_buf: 4, ..EpCfg::default() };
    let tp_ms = if t_ms == 0 { u64::MAX } else { t_ms.max(i_ms) };
    let sh = sim::Shared::new(mix(seed, 5), rng.below(3) as u8);
    let horizon_ms = if i_ms == 0 { 3_000_000 } else { 2000 * i_ms };
    let script2 = script.clone();
    let expect_timeout = i_ms > 0 && t_ms > 0 && !reverse_order && matches!(script, Script::Rounds { .. } | Script::Never);
    let kind = format!("{}{}", format!("{script:?}").split(|c| c == ' ' || c == '{').next().unwrap_or(""), if peer_ping_ms > 0 { "+peer-pings" } else { "" });
    let end = sim::run_with_watchdog(&sh, Duration::from_millis(horizon_ms + 10_000_000), move |sh| async move {
        let (w0, w1, _net) = memws::pair(&sh, [0, 0], [None, None], false);
        let e0 = wl::endpoint(&sh, 0, &cfg, w0, seed);
        let mut raw = Raw::new(w1);
        // one established stream (peer window 1, never acknowledged) so that a reader and a blocked writer exist
        raw.send(&RefFrame::Connect { id: 0x51, rwnd: 1, port: 1, host: b"s1.".to_vec() }).await;
        raw.send(&RefFrame::Connect { id: 0x52, rwnd: 1, port: 2, host: b"s2.".to_vec() }).await;
        let reader = e0.mux.accept_stream_channel().await.ok();
        let writer = e0.mux.accept_stream_channel().await.ok();
        let pend = Pending::spawn(&sh, &e0.mux, reader, writer, true);
        // pong script
        let mut answered = 0u32;
        let mut pongs_sent = 0u32;
        let mut pings_seen = 0u32;
        let t_start = tokio::time::Instant::now();
        let mut due: Vec<tokio::time::Instant> = Vec::new();
        let t_end = tokio::time::Instant::now() + Duration::from_millis(horizon_ms);
        let mut task = e0.task;
        let mut returned = false;
        // the peer may run keepalive of its own: its Pings keep arriving whether or not it answers ours
        let mut next_peer_ping = tokio::time::Instant::now() + Duration::from_millis(peer_ping_ms.max(1));
        loop {
            let next_due = due.iter().min().copied();
            tokio::select! {
                biased;
                r = &mut task, if !returned => { let _ = r; returned = true; break; }
                () = tokio::time::sleep_until(next_peer_ping), if peer_ping_ms > 0 => {
                    raw.send_msg(Message::Ping).await;
                    next_peer_ping += Duration::from_millis(peer_ping_ms);
                }
                () = async { match next_due { Some(t) => tokio::time::sleep_until(t).await, None => std::future::pending().await } } => {
                    let now = tokio::time::Instant::now();
                    let n = due.iter().filter(|t| **t <= now).count();
                    due.retain(|t| *t > now);
                    for _ in 0..n {
                        pongs_sent += 1;
                        let busy = matches!(&script2, Script::AlwaysBusy { every, .. } if pongs_sent % *every == 0 && i_ms > 0);
                        if busy {
                            // the Pong reaches the socket, but the endpoint's executor is busy: nobody is woken
                            raw.ws.send_without_wake(Message::Pong);
                        } else {
                            raw.send_msg(Message::Pong).await;
                        }
                        if let Script::AlwaysBusy { every, .. } = &script2 {
                            if pongs_sent % *every == 0 && i_ms > 0 {
                                let t = now.duration_since(t_start).as_millis() as u64;
                                let next_tick = (t / i_ms + 1) * i_ms;
                                // no yield between the send above and this jump: the Pong is in the socket, unread
                                tokio::time::advance(Duration::from_millis(next_tick - t + 1)).await;
                            }
                        }
                    }
                }
                g = raw.recv() => {
                    match g {
                        Got::Ping => {
                            let now = tokio::time::Instant::now();
                            match &script2 {
                                Script::Always { d_ms } | Script::Late { d_ms } | Script::AlwaysBusy { d_ms, .. } => due.push(now + Duration::from_millis(*d_ms)),
                                Script::AlwaysVar { delays_ms } => {
                                    due.push(now + Duration::from_millis(delays_ms[pings_seen as usize % delays_ms.len()]));
                                    pings_seen += 1;
                                }
                                Script::Rounds { k, d_ms } => {
                                    if answered < *k {
                                        answered += 1;
                                        due.push(now + Duration::from_millis(*d_ms));
                                    }
                                }
                                Script::Never => {}
                            }
                        }
                        Got::End | Got::Err => break,
                        _ => {}
                    }
                }
                () = tokio::time::sleep_until(t_end) => break,
            }
        }
        let outcomes = if returned {
            let mut o = pend.collect().await;
            o.extend(endops::later(&e0.mux, true).await);
            Some(o)
        } else {
            None
        };
        drop(e0.mux);
        (returned, outcomes)
    });
    let log = sh.take_log();
    let o = observe(&log);
    let cfgs = format!("I={i_ms}ms T={t_ms}ms{}", if reverse_order { " (timeout set before interval)" } else { "" });
    let mut fail = |st: &mut Stats, sig: String, detail: String| {
        st.violation(Violation { signature: sig, detail: format!("{detail} [{cfgs}, script {script:?}{}]", if peer_ping_ms > 0 { format!(", peer sends its own Ping every {peer_ping_ms} ms") } else { String::new() }),
            replay: json!({"kind": "c16", "run_seed": seed, "I_ms": i_ms, "T_ms": t_ms, "script": format!("{script:?}"), "reverse_order": reverse_order, "peer_ping_every_ms": peer_ping_ms,
                "pings_ms": o.pings.iter().take(12).map(|t| t / 1000).collect::<Vec<_>>(), "pongs_ms": o.pongs.iter().take(12).map(|t| t / 1000).collect::<Vec<_>>(),
                "task_return": o.ret.as_ref().map(|(t, r)| format!("{r} at {} ms", t / 1000)), "trace_tail": sim::render(&log, 40)}) });
    };
    let (returned, outcomes) = match end {
        sim::RunEnd::Finished(x) => x,
        sim::RunEnd::Stalled => {
            fail(st, format!("stall|{kind}"), "the run did not finish within the horizon".into());
            return;
        }
        sim::RunEnd::Panicked(m) => {
            st.inconclusive.push(format!("harness panic in c16: {m}"));
            return;
        }
    };
    st.count("pings_observed", o.pings.len() as u64);
    st.count("pongs_delivered", o.pongs.len() as u64);
    if reverse_order {
        // probe only: the statement presupposes the clamp of the client's builder order
        st.count("reverse_order_probe_runs", 1);
        if returned {
            st.count("reverse_order_probe_timeouts", 1);
        }
        return;
    }
    // K4 disabled
    if i_ms == 0 {
        st.target("disabled_runs", 1);
        if !o.pings.is_empty() {
            fail(st, "ping-while-disabled".into(), format!("{} Pings were sent with keepalive disabled", o.pings.len()));
        }
        if returned {
            fail(st, "timeout-while-disabled".into(), format!("the task returned {:?} with keepalive disabled", o.ret));
        }
        st.nontrivial(mix(seed, 0));
        return;
    }
    // K1 schedule (not for the busy-executor script: its ticks are late by construction)
    for (k, t) in o.pings.iter().enumerate() {
        if matches!(script, Script::AlwaysBusy { .. }) {
            break;
        }
        let want = k as u64 * i_ms * 1000;
        if *t != want {
            fail(st, "ping-schedule".into(), format!("Ping #{k} was sent at {} us, expected exactly {} us", t, want));
            break;
        }
    }
    if o.pings.len() >= 2 {
        st.nontrivial(mix(seed, o.pings.len() as u64));
    }
    let last_pong_before = |tau: u64| o.pongs.iter().filter(|p| **p <= tau).max().copied().unwrap_or(0);
    match &o.ret {
        Some((tau, res)) => {
            st.target("timeouts_observed", 1);
            if res != "Err(KeepaliveTimeout)" {
                fail(st, format!("task-returned|{res}"), format!("the connection task returned {res} at {} ms", tau / 1000));
            } else {
                let p = last_pong_before(*tau);
                // K-safety: never earlier than T' after the last pong received
                if tp_ms != u64::MAX && tau - p < tp_ms * 1000 && !matches!(script, Script::AlwaysBusy { .. }) {
                    fail(st, format!("timeout-too-early|{kind}"), format!("KeepaliveTimeout at {} ms but the last Pong arrived at {} ms: only {} ms of silence with T' = {} ms", tau / 1000, p / 1000, (tau - p) / 1000, tp_ms));
                }
                if tp_ms == u64::MAX {
                    fail(st, "timeout-with-timeout-disabled".into(), "KeepaliveTimeout although the timeout is disabled".into());
                }
                if matches!(script, Script::AlwaysBusy { .. }) {
                    fail(st, "live-peer-timed-out|busy-executor".into(), format!("every Ping was answered (the Pong was in the socket) within T' = {tp_ms} ms, the executor was merely late in reading it, but the endpoint timed out at {} ms", tau / 1000));
                }
                if let Script::AlwaysVar { delays_ms } = &script {
                    // how long had the endpoint heard nothing when it gave up?
                    let silence = (tau - p) / 1000;
                    let class = if silence > tp_ms { "silence-exceeded-T" } else { "silence-within-T" };
                    fail(st, format!("live-peer-timed-out|variable-delay|{class}"), format!("every Ping was answered within T' = {tp_ms} ms (per-ping delays {delays_ms:?} ms) but the endpoint timed out at {} ms, {silence} ms after the last Pong", tau / 1000));
                }
                if matches!(script, Script::Always { .. }) {
                    fail(st, "live-peer-timed-out".into(), format!("every Ping was answered within T' = {tp_ms} ms but the endpoint timed out at {} ms (last pong {} ms)", tau / 1000, p / 1000));
                }
                // K2 upper bound for a silent peer
                if expect_timeout && tau - p > (tp_ms + i_ms) * 1000 {
                    fail(st, "timeout-too-late".into(), format!("peer silent since {} ms, KeepaliveTimeout only at {} ms (bound T'+I = {} ms)", p / 1000, tau / 1000, tp_ms + i_ms));
                }
                // no Ping at or after tau
                if o.pings.iter().any(|t| *t >= *tau) {
                    fail(st, "ping-after-timeout".into(), "a Ping was sent at or after the timeout".into());
                }
            }
            // K5: everything pending resolves
            if let Some(out) = &outcomes {
                st.target("pending_ops_checked", out.len() as u64);
                for (sig, detail) in endops::judge(out, "keepalive-timeout", false) {
                    fail(st, sig, detail);
                }
            }
        }
        None => {
            if expect_timeout {
                let p = o.pongs.iter().max().copied().unwrap_or(0);
                fail(st, format!("dead-peer-not-detected|{kind}"), format!("the peer has been silent since {} ms; no KeepaliveTimeout within the horizon of {} ms (bound T'+I = {} ms after the last pong)", p / 1000, horizon_ms, tp_ms.saturating_add(i_ms)));
            } else {
                st.target("live_runs_to_horizon", 1);
            }
        }
    }
    if st.samples.len() < 3 {
        st.sample(json!({"I_ms": i_ms, "T_ms": t_ms, "script": format!("{script:?}"), "pings_ms": o.pings.iter().take(6).map(|t| t / 1000).collect::<Vec<_>>(),
            "pongs_ms": o.pongs.iter().take(6).map(|t| t / 1000).collect::<Vec<_>>(), "task_return": o.ret.as_ref().map(|(t, r)| format!("{r} at {} ms", t / 1000)), "pending_ops": outcomes.map(|v| v.into_iter().map(|(n, r)| format!("{n}={r:?}")).collect::<Vec<_>>())}));
    }
}

/// A peer that dies behind a connection whose send buffer is (or becomes) full: it answers `k` Pings at once and is never heard of
/// again, and from that moment the endpoint's sink never becomes ready, cannot be flushed and cannot be closed. The endpoint must
/// still give up within [T', T'+I] after the last Pong and release everything that was pending.
fn blocked_sink_case(st: &mut Stats, seed: u64, i_ms: u64, t_ms: u64, k: u32) {
    use crate::memws::{FaultKind, FaultPlan, Trigger};
    st.evaluations += 1;
    st.engine("SIM", 1);
    let mut rng = Rng64::new(mix(seed, 0x16B));
    let cfg = EpCfg { keepalive: Some((i_ms, t_ms)), rwnd: 4, bind_buf: 4, ..EpCfg::default() };
    let tp_ms = t_ms.max(i_ms);
    let sh = sim::Shared::new(mix(seed, 5), rng.below(3) as u8);
    let horizon_ms = 2000 * i_ms;
    let end = sim::run_with_watchdog(&sh, Duration::from_millis(horizon_ms + 10_000_000), move |sh| async move {
        let (w0, w1, net) = memws::pair(&sh, [0, 0], [None, None], false);
        let e0 = wl::endpoint(&sh, 0, &cfg, w0, seed);
        let mut raw = Raw::new(w1);
        raw.send(&RefFrame::Connect { id: 0x51, rwnd: 1, port: 1, host: b"s1.".to_vec() }).await;
        raw.send(&RefFrame::Connect { id: 0x52, rwnd: 1, port: 2, host: b"s2.".to_vec() }).await;
        let reader = e0.mux.accept_stream_channel().await.ok();
        let writer = e0.mux.accept_stream_channel().await.ok();
        let pend = Pending::spawn(&sh, &e0.mux, reader, writer, true);
        let t_end = tokio::time::Instant::now() + Duration::from_millis(horizon_ms);
        let mut task = e0.task;
        let mut returned = false;
        let mut answered = 0u32;
        let mut dead = false;
        loop {
            tokio::select! {
                biased;
                r = &mut task, if !returned => { let _ = r; returned = true; break; }
                g = raw.recv(), if !dead => {
                    if let Got::Ping = g {
                        if answered < k {
                            answered += 1;
                            raw.send_msg(Message::Pong).await;
                        }
                        if answered >= k {
                            // the next thing the endpoint tries to send finds the sink blocked for good
                            let sent = net.lock().unwrap().sent(0);
                            memws::arm_fault(&net, 0, FaultPlan { trigger: Trigger::SendIdx(sent), kind: FaultKind::SilentBlockedSink });
                            dead = true;
                        }
                    } else if matches!(g, Got::End | Got::Err) {
                        dead = true;
                    }
                }
                () = tokio::time::sleep_until(t_end) => break,
            }
        }
        let outcomes = if returned {
            let mut o = pend.collect().await;
            o.extend(endops::later(&e0.mux, true).await);
            Some(o)
        } else {
            None
        };
        drop(e0.mux);
        (returned, outcomes)
    });
    let log = sh.take_log();
    let o = observe(&log);
    let cfgs = format!("I={i_ms}ms T={t_ms}ms, peer answers {k} Ping(s) and dies, sink blocked from then on");
    let mut fail = |st: &mut Stats, sig: String, detail: String| {
        st.violation(Violation { signature: sig, detail: format!("{detail} [{cfgs}]"),
            replay: json!({"kind": "c16-blocked-sink", "run_seed": seed, "I_ms": i_ms, "T_ms": t_ms, "answered": k,
                "pongs_ms": o.pongs.iter().take(12).map(|t| t / 1000).collect::<Vec<_>>(), "task_return": o.ret.as_ref().map(|(t, r)| format!("{r} at {} ms", t / 1000)), "trace_tail": sim::render(&log, 40)}) });
    };
    let (returned, outcomes) = match end {
        sim::RunEnd::Finished(x) => x,
        sim::RunEnd::Stalled => {
            fail(st, "stall|blocked-sink".into(), "the run did not finish within the horizon".into());
            return;
        }
        sim::RunEnd::Panicked(m) => {
            st.inconclusive.push(format!("harness panic in c16 blocked sink: {m}"));
            return;
        }
    };
    st.target("dead_peer_with_blocked_sink_runs", 1);
    let p = o.pongs.iter().max().copied().unwrap_or(0);
    match (&o.ret, returned) {
        (Some((tau, res)), _) => {
            st.target("timeouts_observed", 1);
            if res != "Err(KeepaliveTimeout)" {
                fail(st, format!("task-returned|{res}|blocked-sink"), format!("the connection task returned {res} at {} ms", tau / 1000));
            } else {
                if tau - p < tp_ms * 1000 {
                    fail(st, "timeout-too-early|blocked-sink".into(), format!("KeepaliveTimeout at {} ms, last Pong at {} ms, T' = {tp_ms} ms", tau / 1000, p / 1000));
                }
                if tau - p > (tp_ms + i_ms) * 1000 {
                    fail(st, "timeout-too-late|blocked-sink".into(), format!("peer silent since {} ms, KeepaliveTimeout only at {} ms (bound T'+I = {} ms)", p / 1000, tau / 1000, tp_ms + i_ms));
                }
            }
            if let Some(out) = &outcomes {
                st.target("pending_ops_checked", out.len() as u64);
                for (sig, detail) in endops::judge(out, "keepalive-timeout", false) {
                    fail(st, format!("{sig}|blocked-sink"), detail);
                }
            }
        }
        (None, _) => fail(st, "dead-peer-not-detected|blocked-sink".into(), format!("the peer has been silent since {} ms and nothing can be sent; the connection task has not returned within {} ms (bound T'+I = {} ms after the last pong): the connection is never terminated and every pending operation hangs", p / 1000, horizon_ms, tp_ms + i_ms)),
    }
    st.nontrivial(mix(seed, u64::from(k) + 77));
}

/// A live peer behind a slow link, with an application that keeps the outbound queue busy (a closed loop of a few datagrams in
/// flight): Pings wait their turn in the queue like everything else, reach the peer, are answered at once - the endpoint never
/// times out, and the peer sees (about) one Ping per interval.
fn busy_link_case(st: &mut Stats, seed: u64, i_ms: u64, t_ms: u64) {
    st.evaluations += 1;
    st.engine("SIM", 1);
    let mut rng = Rng64::new(mix(seed, 0x16C));
    let cfg = EpCfg { keepalive: Some((i_ms, t_ms)), rwnd: 4, dgram_buf: 64, ..EpCfg::default() };
    let tp_ms = t_ms.max(i_ms);
    let sh = sim::Shared::new(mix(seed, 5), rng.below(3) as u8);
    let horizon_ms = 12 * tp_ms;
    let window = rng.range(2, 5) as usize;
    let read_every_ms = rng.range(1, 4);
    let end = sim::run_with_watchdog(&sh, Duration::from_millis(horizon_ms + 10_000_000), move |sh| async move {
        // the endpoint's outgoing link holds one message at a time: the peer's reading pace is the link's pace
        let (w0, w1, _net) = memws::pair(&sh, [1, 0], [None, None], false);
        let e0 = wl::endpoint(&sh, 0, &cfg, w0, seed);
        let mut raw = Raw::new(w1);
        let mux = e0.mux.clone();
        let app = sim::spawn(&sh, 7301, async move {
            let mk = |k: u32| penguin_mux::Datagram { flow_id: k, target_host: bytes::Bytes::from_static(b"busy."), target_port: 9, data: bytes::Bytes::from(vec![7u8; 40]) };
            let mut k = 0u32;
            for _ in 0..window {
                k += 1;
                if mux.send_datagram(mk(k)).await.is_err() {
                    return;
                }
            }
            while mux.get_datagram().await.is_ok() {
                k += 1;
                if mux.send_datagram(mk(k)).await.is_err() {
                    return;
                }
            }
        });
        let t_end = tokio::time::Instant::now() + Duration::from_millis(horizon_ms);
        let mut task = e0.task;
        let mut returned = false;
        let mut pings = 0u64;
        let mut dgrams = 0u64;
        loop {
            tokio::select! {
                biased;
                r = &mut task, if !returned => { let _ = r; returned = true; break; }
                () = tokio::time::sleep_until(t_end) => break,
                g = async { tokio::time::sleep(Duration::from_millis(read_every_ms)).await; raw.recv().await } => {
                    match g {
                        Got::Ping => { pings += 1; raw.send_msg(Message::Pong).await; }
                        Got::Frame(RefFrame::Datagram { id, .. }) => {
                            dgrams += 1;
                            raw.send(&RefFrame::Datagram { id, port: 9, host: b"echo.".to_vec(), data: vec![1, 2, 3] }).await;
                        }
                        Got::End | Got::Err | Got::Close => break,
                        _ => {}
                    }
                }
            }
        }
        app.abort();
        app.await.ok();
        drop(e0.mux);
        (returned, pings, dgrams)
    });
    let log = sh.take_log();
    let o = observe(&log);
    let cfgs = format!("I={i_ms}ms T={t_ms}ms, {window} datagrams kept in flight by the application, the peer reads one message every {read_every_ms} ms and answers every Ping at once");
    let mut fail = |st: &mut Stats, sig: String, detail: String| {
        st.violation(Violation { signature: sig, detail: format!("{detail} [{cfgs}]"),
            replay: json!({"kind": "c16-busy-link", "run_seed": seed, "I_ms": i_ms, "T_ms": t_ms, "window": window, "read_every_ms": read_every_ms,
                "task_return": o.ret.as_ref().map(|(t, r)| format!("{r} at {} ms", t / 1000)), "trace_tail": sim::render(&log, 40)}) });
    };
    match end {
        sim::RunEnd::Finished((returned, pings, dgrams)) => {
            st.target("busy_link_runs", 1);
            st.count("busy_link_datagrams_relayed", dgrams);
            st.count("busy_link_pings_seen_by_peer", pings);
            st.nontrivial(mix(seed, 0xB5 + pings));
            if dgrams < 20 {
                st.inconclusive.push(format!("c16 busy link: only {dgrams} datagrams went through"));
                return;
            }
            if returned {
                fail(st, "live-peer-timed-out|busy-link".into(), format!("the connection task returned {:?} although the peer answered every Ping it was sent at once; it saw {pings} Pings in {horizon_ms} ms", o.ret));
            } else if pings * 2 * i_ms < horizon_ms {
                fail(st, "pings-not-sent|busy-link".into(), format!("in {horizon_ms} ms the peer saw {pings} Pings (one per interval would be about {})", horizon_ms / i_ms));
            }
        }
        sim::RunEnd::Stalled => fail(st, "stall|busy-link".into(), "the run did not finish within the horizon".into()),
        sim::RunEnd::Panicked(m) => st.inconclusive.push(format!("harness panic in c16 busy link: {m}")),
    }
}

pub fn run(p: &Params) -> (Stats, &'static str) {
    std::panic::set_hook(Box::new(|_| {}));
    sim::install_observer();
    let mut st = Stats::new();
    let base = p.shard_seed("C16");
    let vals = [1u64, 2, 3, 5, 10, 60];
    let reps = if p.tier_thorough { 600 } else { 1 };
    let mut idx = 0u64;
    for rep in 0..reps {
        for i_s in vals {
            for t_s in vals {
                for kind in 0..12 {
                    idx += 1;
                    if idx % p.nshards != p.shard {
                        continue;
                    }
                    let seed = mix(base, idx);
                    let mut rng = Rng64::new(seed);
                    let tp = t_s.max(i_s) * 1000;
                    // kinds 9-11: the peer also sends Pings of its own (which are no answers to ours)
                        let peer_ping_ms = if kind >= 9 { (*rng.pick(&[i_s * 500, i_s * 1000, tp / 2, tp])).max(1) } else { 0 };
                    let script = match kind {
                        9 => Script::Never,
                        10 => Script::Rounds { k: rng.range(1, 4) as u32, d_ms: rng.range(0, tp) },
                        11 => Script::Always { d_ms: rng.range(0, tp) },
                        0 => Script::Always { d_ms: *rng.pick(&[0, 1, tp / 2, tp - 1, tp]) },
                        1 => Script::Always { d_ms: rng.range(0, tp) },
                        2 => Script::Rounds { k: rng.range(1, 5) as u32, d_ms: rng.range(0, tp) },
                        3 => Script::Rounds { k: rng.range(1, 3) as u32, d_ms: *rng.pick(&[0, tp]) },
                        4 => Script::Never,
                        8 => Script::AlwaysVar { delays_ms: vec![0, tp] },
                        7 => {
                            let n = rng.range(2, 5) as usize;
                            Script::AlwaysVar { delays_ms: (0..n).map(|_| if rng.chance(1, 3) { *rng.pick(&[0, tp]) } else { rng.range(0, tp) }).collect() }
                        }
                        6 => Script::AlwaysBusy { d_ms: *rng.pick(&[1, i_s * 250, i_s * 500]), every: rng.range(2, 3) as u32 },
                        _ => Script::Late { d_ms: tp + rng.range(1, 3 * i_s * 1000) },
                    };
                    one(&mut st, seed, i_s, t_s, script, false, peer_ping_ms);
                    st.cell("I_T", format!("{i_s}/{t_s}"));
                    let _ = rep;
                }
            }
        }
    }
    // intervals and timeouts that are not whole seconds (the clamp T' = max(T, I) compares full durations)
    let sub: [(u64, u64); 12] = [(500, 1000), (1500, 2000), (900, 1100), (250, 1750), (2500, 3000), (700, 700), (1200, 800), (999, 1001), (1001, 1999), (100, 60_000), (1900, 1100), (750, 2250)];
    let sub_reps = if p.tier_thorough { 100 } else { 1 };
    for rep in 0..sub_reps {
        for (i_ms, t_ms) in sub {
            for kind in [0u32, 2, 4, 7] {
                idx += 1;
                if idx % p.nshards != p.shard {
                    continue;
                }
                let seed = mix(base, mix(0x5B5, idx));
                let mut rng = Rng64::new(seed);
                let tp = t_ms.max(i_ms);
                let script = match kind {
                    0 => Script::Always { d_ms: *rng.pick(&[0, 1, tp / 2, tp - 1, tp]) },
                    2 => Script::Rounds { k: rng.range(1, 5) as u32, d_ms: rng.range(0, tp) },
                    4 => Script::Never,
                    _ => Script::AlwaysVar { delays_ms: vec![0, tp] },
                };
                one_ms(&mut st, seed, i_ms, t_ms, script, false, 0);
                st.cell("I_T", format!("{i_ms}ms/{t_ms}ms"));
                st.target("sub_second_runs", 1);
                let _ = rep;
            }
        }
    }
    // a live peer behind a slow link while the application keeps the outbound queue busy
    for (j, (i_ms, t_ms)) in [(500u64, 1000u64), (1000, 1000), (700, 2100), (2000, 5000)].into_iter().enumerate() {
        idx += 1;
        if idx % p.nshards != p.shard {
            continue;
        }
        busy_link_case(&mut st, mix(base, 0xB5B5 + j as u64), i_ms, t_ms);
    }
    // a peer that dies behind a full send buffer: nothing can be sent, flushed or closed any more
    for (j, (i_ms, t_ms)) in [(1000u64, 1000u64), (1000, 3000), (2000, 5000), (5000, 2000), (700, 700), (250, 1750)].into_iter().enumerate() {
        for k in 0..3u32 {
            idx += 1;
            if idx % p.nshards != p.shard {
                continue;
            }
            blocked_sink_case(&mut st, mix(base, 0xB10C + (j as u64) * 8 + u64::from(k)), i_ms, t_ms, k);
        }
    }
    st.exhaustive.push("(I,T) in {1,2,3,5,10,60}^2 x 12 pong-script kinds (delays seeded); 12 (I,T) pairs that are not whole seconds x 4 kinds".into());
    // disabled keepalive, timeout disabled, reverse builder order (probe)
    if p.shard == 0 {
        for (j, t_s) in [0u64, 5, 60].into_iter().enumerate() {
            one(&mut st, mix(base, 900 + j as u64), 0, t_s, Script::Never, false, if j == 2 { 1500 } else { 0 });
        }
        // interval on, timeout switched off: a Ping every I, never a timeout, whatever the peer does
        for (j, i_s) in [1u64, 5].into_iter().enumerate() {
            for (k, script) in [Script::Never, Script::Always { d_ms: i_s * 1500 }, Script::Rounds { k: 2, d_ms: 10 }].into_iter().enumerate() {
                one(&mut st, mix(base, 920 + (j * 3 + k) as u64), i_s, 0, script, false, 0);
                st.target("timeout_disabled_runs", 1);
            }
        }
        for (j, (i_s, t_s)) in [(5u64, 2u64), (2, 5), (10, 1)].into_iter().enumerate() {
            one(&mut st, mix(base, 950 + j as u64), i_s, t_s, Script::Never, true, 0);
        }
        st.notes.push("probe: with the builder called as keepalive_timeout(T) before keepalive_interval(I) the clamp max(T, NONE) disables the timeout altogether; recorded, no verdict (the client sets the interval first)".into());
    }
    (st, RULE)
}


pub fn debug(i_s: u64, t_s: u64, d_ms: u64, every: u32) {
    std::panic::set_hook(Box::new(|_| {}));
    sim::install_observer();
    let mut st = Stats::new();
    if every == 0 {
        one(&mut st, 42, i_s, t_s, Script::AlwaysVar { delays_ms: vec![0, d_ms] }, false, 0);
    } else {
        one(&mut st, 42, i_s, t_s, Script::AlwaysBusy { d_ms, every }, false, 0);
    }
    for v in &st.violations {
        println!("VIOL {} :: {}", v.signature, v.detail);
    }
    println!("{}", serde_json::to_string(&st.samples).unwrap_or_default());
}
