//! In-memory WebSocket pair implementing `penguin_mux::ws::WebSocket`, with a
//! wire tap (every message is logged when a sink accepts it and when a source
//! returns it), bounded queues (back-pressure), seeded delivery jitter, and a
//! fault plan that triggers at a message index.

use crate::sim::{Ev, Sh, Wm};
use penguin_mux::Error;
use penguin_mux::ws::{Message, WebSocket};
use std::collections::VecDeque;
use std::sync::{Arc, Mutex};
use std::task::{Context, Poll, Waker};

#[derive(Clone, Debug, PartialEq, Eq)]
pub enum FaultKind {
    /// deliver `Close`, then end of stream
    PeerClose,
    /// source returns `None`
    RecvEof,
    /// source returns `Some(Err)`, then `None`
    RecvErr,
    /// sink fails from now on; the source stays silent (`true`) or fails too (`false`)
    SendErr { silent_source: bool },
    /// black hole: source pending forever without a wake-up, sink accepts into the void;
    /// `close_ok` = whether `poll_close` completes
    Silent { close_ok: bool },
    /// a buffering sink (like tungstenite's): messages are still accepted, the failure of the transport only shows when they are
    /// flushed; the source stays silent (`true`) or fails too (`false`)
    FlushErr { silent_source: bool },
    /// black hole whose send buffer is full: source pending forever, the sink never becomes ready again, nothing can be
    /// flushed or closed (a dead peer behind a TCP connection with a full send queue)
    SilentBlockedSink,
    /// deliver a Binary message that is not a valid frame (peer stays connected)
    Garbage(Vec<u8>),
    /// only the write side fails; what the peer sent (and sends) can still be read
    SendErrOnly,
}

impl FaultKind {
    pub fn name(&self) -> String {
        match self {
            Self::PeerClose => "PeerClose".into(),
            Self::RecvEof => "RecvEof".into(),
            Self::RecvErr => "RecvErr".into(),
            Self::SendErr { silent_source } => format!("SendErr(silent_source={silent_source})"),
            Self::Silent { close_ok } => format!("Silent(close_ok={close_ok})"),
            Self::SilentBlockedSink => "SilentBlockedSink".into(),
            Self::FlushErr { silent_source } => format!("FlushErr(silent_source={silent_source})"),
            Self::Garbage(b) => format!("Garbage({}B)", b.len()),
            Self::SendErrOnly => "SendErrOnly".into(),
        }
    }
}

#[derive(Clone, Debug, PartialEq, Eq)]
pub enum Trigger {
    /// before the endpoint receives its k-th message (0-based)
    RecvIdx(usize),
    /// when the endpoint sends its k-th message (which is not transmitted)
    SendIdx(usize),
}

#[derive(Clone, Debug)]
pub struct FaultPlan {
    pub trigger: Trigger,
    pub kind: FaultKind,
}

#[derive(Clone, Copy, Debug, PartialEq, Eq)]
enum Src {
    Normal,
    Eof,
    ErrThenEof,
    CloseThenEof,
    Silent,
}

#[derive(Clone, Copy, Debug, PartialEq, Eq)]
enum Sink {
    Normal,
    Err,
    Void,
    /// never ready, never flushed, never closed (and never woken)
    Blocked,
    /// accepts messages (into the void), fails when flushed or closed
    FlushErr,
}

struct Link {
    q: VecDeque<Message>,
    cap: usize,
    rx_waker: Option<Waker>,
    tx_waker: Option<Waker>,
    sent: usize,
    delivered: usize,
    close_queued: bool,
    close_consumed: bool,
    sender_gone: bool,
}

struct EpState {
    src: Src,
    sink: Sink,
    close_never_completes: bool,
    fault: Option<FaultPlan>,
    fired: bool,
    flush_pending_left: u8,
}

pub struct Net {
    /// links[d]: messages travelling from endpoint d to endpoint 1-d
    links: [Link; 2],
    eps: [EpState; 2],
}

pub type NetRef = Arc<Mutex<Net>>;

pub struct MemWs {
    pub ep: u8,
    net: NetRef,
    sh: Sh,
    /// 0 = no delivery jitter
    jitter: bool,
    /// answer `Ping` with `Pong` automatically, as WebSocket implementations do
    pub auto_pong: bool,
}

fn new_link(cap: usize) -> Link {
    Link { q: VecDeque::new(), cap, rx_waker: None, tx_waker: None, sent: 0, delivered: 0, close_queued: false, close_consumed: false, sender_gone: false }
}

/// Create a connected pair. `caps[d]` bounds the queue from endpoint d to its peer (0 = unbounded).
pub fn pair(sh: &Sh, caps: [usize; 2], faults: [Option<FaultPlan>; 2], jitter: bool) -> (MemWs, MemWs, NetRef) {
    let [f0, f1] = faults;
    let net = Arc::new(Mutex::new(Net {
        links: [new_link(caps[0]), new_link(caps[1])],
        eps: [
            EpState { src: Src::Normal, sink: Sink::Normal, close_never_completes: false, fault: f0, fired: false, flush_pending_left: 0 },
            EpState { src: Src::Normal, sink: Sink::Normal, close_never_completes: false, fault: f1, fired: false, flush_pending_left: 0 },
        ],
    }));
    (MemWs { ep: 0, net: net.clone(), sh: sh.clone(), jitter, auto_pong: true }, MemWs { ep: 1, net: net.clone(), sh: sh.clone(), jitter, auto_pong: true }, net)
}

fn io_err(what: &str) -> Error {
    Error::WebSocket(Box::new(std::io::Error::new(std::io::ErrorKind::ConnectionReset, what.to_string())))
}

impl Net {
    fn fire(&mut self, e: usize, sh: &Sh) {
        let Some(plan) = self.eps[e].fault.clone() else { return };
        self.eps[e].fired = true;
        sh.log(Ev::Fault { ep: e as u8, what: format!("{:?} {}", plan.trigger, plan.kind.name()) });
        let p = 1 - e;
        let mut cut_peer = true;
        match plan.kind {
            FaultKind::PeerClose => self.eps[e].src = Src::CloseThenEof,
            FaultKind::RecvEof => self.eps[e].src = Src::Eof,
            FaultKind::RecvErr => self.eps[e].src = Src::ErrThenEof,
            FaultKind::SendErr { silent_source } => {
                self.eps[e].sink = Sink::Err;
                self.eps[e].src = if silent_source { Src::Silent } else { Src::ErrThenEof };
            }
            FaultKind::Silent { close_ok } => {
                self.eps[e].src = Src::Silent;
                self.eps[e].sink = Sink::Void;
                self.eps[e].close_never_completes = !close_ok;
            }
            FaultKind::FlushErr { silent_source } => {
                self.eps[e].sink = Sink::FlushErr;
                self.eps[e].src = if silent_source { Src::Silent } else { Src::ErrThenEof };
            }
            FaultKind::SilentBlockedSink => {
                self.eps[e].src = Src::Silent;
                self.eps[e].sink = Sink::Blocked;
                self.eps[e].close_never_completes = true;
            }
            FaultKind::Garbage(bytes) => {
                self.links[p].q.push_front(Message::Binary(bytes.into()));
                cut_peer = false;
            }
            FaultKind::SendErrOnly => {
                self.eps[e].sink = Sink::Err;
                cut_peer = false;
            }
        }
        if cut_peer {
            // the peer sees the transport end and talks into the void
            self.eps[p].src = Src::Eof;
            self.eps[p].sink = Sink::Void;
            self.links[e].q.clear();
            self.links[p].q.clear();
            if let Some(w) = self.links[e].rx_waker.take() {
                w.wake();
            }
            if let Some(w) = self.links[p].tx_waker.take() {
                w.wake();
            }
            if let Some(w) = self.links[e].tx_waker.take() {
                w.wake();
            }
            // wake the faulted endpoint's own reader unless its source is now silent
            if self.eps[e].src != Src::Silent {
                if let Some(w) = self.links[p].rx_waker.take() {
                    w.wake();
                }
            }
        }
    }

    /// Sever both directions now (used by scenarios for time-triggered cuts).
    pub fn delivered(&self, ep: usize) -> usize {
        self.links[1 - ep].delivered
    }
    pub fn sent(&self, ep: usize) -> usize {
        self.links[ep].sent
    }
}

/// Arm (or replace) the fault plan of an endpoint while the run is in progress.
pub fn arm_fault(net: &NetRef, ep: usize, plan: FaultPlan) {
    let mut n = net.lock().unwrap();
    n.eps[ep].fault = Some(plan);
    n.eps[ep].fired = false;
}

pub fn sent_count(net: &NetRef, ep: usize) -> usize {
    net.lock().unwrap().sent(ep)
}

pub fn set_flush_pending(net: &NetRef, ep: usize, n: u8) {
    net.lock().unwrap().eps[ep].flush_pending_left = n;
}

impl MemWs {
    /// Put a message on the wire without waking the receiver: the bytes sit in the socket and are only
    /// noticed when the receiving task is polled for another reason (an executor that was busy).
    pub fn send_without_wake(&mut self, item: Message) {
        let e = self.ep as usize;
        let mut n = self.net.lock().unwrap();
        self.sh.log(Ev::Sent { ep: self.ep, m: Wm::of(&item) });
        let l = &mut n.links[e];
        l.q.push_back(item);
        l.sent += 1;
    }

    fn jit(&self, cx: &mut Context<'_>) -> bool {
        if self.jitter && self.sh.skip() {
            cx.waker().wake_by_ref();
            true
        } else {
            false
        }
    }
}

impl WebSocket for MemWs {
    fn poll_ready_unpin(&mut self, cx: &mut Context<'_>) -> Poll<Result<(), Error>> {
        if self.jit(cx) {
            return Poll::Pending;
        }
        let e = self.ep as usize;
        let mut n = self.net.lock().unwrap();
        match n.eps[e].sink {
            Sink::Err => Poll::Ready(Err(io_err("sink failed"))),
            Sink::Void | Sink::FlushErr => Poll::Ready(Ok(())),
            Sink::Blocked => Poll::Pending,
            Sink::Normal => {
                let l = &mut n.links[e];
                if l.cap > 0 && l.q.len() >= l.cap {
                    l.tx_waker = Some(cx.waker().clone());
                    Poll::Pending
                } else {
                    Poll::Ready(Ok(()))
                }
            }
        }
    }

    fn start_send_unpin(&mut self, item: Message) -> Result<(), Error> {
        let e = self.ep as usize;
        let mut n = self.net.lock().unwrap();
        if !n.eps[e].fired {
            if let Some(FaultPlan { trigger: Trigger::SendIdx(k), .. }) = &n.eps[e].fault {
                if n.links[e].sent == *k {
                    n.fire(e, &self.sh);
                }
            }
        }
        match n.eps[e].sink {
            Sink::Err => Err(io_err("sink failed")),
            Sink::Void | Sink::Blocked | Sink::FlushErr => Ok(()),
            Sink::Normal => {
                if n.links[e].close_queued {
                    return Err(io_err("send after close"));
                }
                self.sh.log(Ev::Sent { ep: self.ep, m: Wm::of(&item) });
                let l = &mut n.links[e];
                l.q.push_back(item);
                l.sent += 1;
                if let Some(w) = l.rx_waker.take() {
                    w.wake();
                }
                Ok(())
            }
        }
    }

    fn poll_flush_unpin(&mut self, cx: &mut Context<'_>) -> Poll<Result<(), Error>> {
        let e = self.ep as usize;
        let mut n = self.net.lock().unwrap();
        if n.eps[e].sink == Sink::Err || n.eps[e].sink == Sink::FlushErr {
            return Poll::Ready(Err(io_err("sink failed")));
        }
        if n.eps[e].sink == Sink::Blocked {
            return Poll::Pending;
        }
        if n.eps[e].flush_pending_left > 0 && n.eps[e].sink == Sink::Normal {
            n.eps[e].flush_pending_left -= 1;
            cx.waker().wake_by_ref();
            return Poll::Pending;
        }
        drop(n);
        if self.jit(cx) {
            return Poll::Pending;
        }
        Poll::Ready(Ok(()))
    }

    fn poll_close_unpin(&mut self, _cx: &mut Context<'_>) -> Poll<Result<(), Error>> {
        let e = self.ep as usize;
        let mut n = self.net.lock().unwrap();
        if n.eps[e].close_never_completes {
            return Poll::Pending; // a black-holed connection: the close frame cannot be flushed
        }
        match n.eps[e].sink {
            Sink::Err | Sink::FlushErr => Poll::Ready(Err(io_err("sink failed"))),
            Sink::Void => Poll::Ready(Ok(())),
            Sink::Blocked => Poll::Pending,
            Sink::Normal => {
                if !n.links[e].close_queued {
                    n.links[e].close_queued = true;
                    n.links[e].q.push_back(Message::Close);
                    n.links[e].sent += 1;
                    self.sh.log(Ev::Sent { ep: self.ep, m: Wm::Close });
                    if let Some(w) = n.links[e].rx_waker.take() {
                        w.wake();
                    }
                }
                Poll::Ready(Ok(()))
            }
        }
    }

    fn poll_next_unpin(&mut self, cx: &mut Context<'_>) -> Poll<Option<Result<Message, Error>>> {
        if self.jit(cx) {
            return Poll::Pending;
        }
        let e = self.ep as usize;
        let p = 1 - e;
        let mut n = self.net.lock().unwrap();
        if !n.eps[e].fired {
            if let Some(FaultPlan { trigger: Trigger::RecvIdx(k), .. }) = &n.eps[e].fault {
                if n.links[p].delivered == *k {
                    n.fire(e, &self.sh);
                }
            }
        }
        match n.eps[e].src {
            Src::Eof => Poll::Ready(None),
            Src::ErrThenEof => {
                n.eps[e].src = Src::Eof;
                Poll::Ready(Some(Err(io_err("source failed"))))
            }
            Src::CloseThenEof => {
                n.eps[e].src = Src::Eof;
                self.sh.log(Ev::Dlv { ep: self.ep, m: Wm::Close });
                Poll::Ready(Some(Ok(Message::Close)))
            }
            Src::Silent => Poll::Pending, // no waker stored: nothing will ever arrive
            Src::Normal => {
                if n.links[p].close_consumed {
                    return Poll::Ready(None);
                }
                if let Some(m) = n.links[p].q.pop_front() {
                    n.links[p].delivered += 1;
                    if let Some(w) = n.links[p].tx_waker.take() {
                        w.wake();
                    }
                    if m == Message::Close {
                        n.links[p].close_consumed = true;
                        // like tungstenite: the close handshake is answered automatically
                        if !n.links[e].close_queued && n.eps[e].sink == Sink::Normal {
                            n.links[e].close_queued = true;
                            n.links[e].q.push_back(Message::Close);
                            n.links[e].sent += 1;
                            if let Some(w) = n.links[e].rx_waker.take() {
                                w.wake();
                            }
                        }
                    }
                    if m == Message::Ping && self.auto_pong && n.eps[e].sink == Sink::Normal && !n.links[e].close_queued {
                        n.links[e].q.push_back(Message::Pong);
                        n.links[e].sent += 1;
                        if let Some(w) = n.links[e].rx_waker.take() {
                            w.wake();
                        }
                    }
                    self.sh.log(Ev::Dlv { ep: self.ep, m: Wm::of(&m) });
                    Poll::Ready(Some(Ok(m)))
                } else if n.links[p].sender_gone {
                    Poll::Ready(None)
                } else {
                    n.links[p].rx_waker = Some(cx.waker().clone());
                    Poll::Pending
                }
            }
        }
    }
}

impl Drop for MemWs {
    fn drop(&mut self) {
        let e = self.ep as usize;
        if let Ok(mut n) = self.net.lock() {
            n.links[e].sender_gone = true;
            if let Some(w) = n.links[e].rx_waker.take() {
                w.wake();
            }
        }
    }
}
