//! C04 — progress while the reader keeps reading; isolation of a stalled stream.
//! SIM engine; the verdict on "blocks forever" is the virtual-time quiescence watchdog.

use crate::monitors::{Fam, Meta};
use crate::streams::{self, FamilySpec, Profile, RWNDS, THRS};
use crate::util::{Params, Rng64, Stats, mix};
use crate::wl::{DgPlan, EpCfg, RStyle, Scenario, SidePlan, StreamPlan, WOp};

pub const SPEC: FamilySpec = FamilySpec {
    property: "C04",
    cmd: "c04",
    profile: Profile::Progress,
    fams: &[Fam::Progress, Fam::Alive, Fam::Panic],
    stall_is_violation: true,
    runs_quick: 48_000,
    runs_thorough: 3_200_000,
    rule: "one case = one execution of (a) an option-grid cell: (rwnd, threshold) in {1,2,3,4,5,8,16}x{1,2,3,4,8,64} chosen independently per side, buffer sizes 1/16, a burst of 4*max(rwnd) mixed-size writes \
in each direction with readers that read everything; (b) an isolation scenario: one stream whose reader is absent or stops after one frame plus 1-3 healthy streams, late opens and datagrams on the same connection; \
(c) random progress-profile scenarios. Verdict: the quiescence watchdog (runtime idle with an awaited operation pending) = stall; plus no spurious BrokenPipe / failed open and every written byte readable. \
Non-trivial = a writer blocked at zero credit or an Acknowledge returned credit",
};

fn grid_cell(seed: u64, a: (u32, u32), b: (u32, u32), bufs: usize) -> Scenario {
    let mut rng = Rng64::new(mix(seed, 0xC04));
    let cfg = [
        EpCfg { rwnd: a.0, thr: a.1, stream_buf: bufs, dgram_buf: bufs, ..EpCfg::default() },
        EpCfg { rwnd: b.0, thr: b.1, stream_buf: bufs, dgram_buf: bufs, ..EpCfg::default() },
    ];
    let burst = 4 * a.0.max(b.0) as usize;
    let mut sides = [SidePlan::quiet(), SidePlan::quiet()];
    for s in sides.iter_mut() {
        s.writes = (0..burst).map(|_| match rng.below(8) {
            0 => WOp::Vectored(vec![3, 0, 5]),
            1 => WOp::Write(700),
            2 => WOp::Yield,
            _ => WOp::Write(*rng.pick(&[1usize, 2, 7, 64])),
        }).collect();
        s.style = if rng.chance(1, 2) { RStyle::Read(*rng.pick(&[1usize, 64, 4096])) } else { RStyle::FillBuf(rng.below(3) as u8) };
        if rng.chance(1, 3) {
            s.read_pauses = vec![(rng.below(20), rng.range(1, 9))];
        }
    }
    Scenario {
        seed,
        cfg,
        caps: [*rng.pick(&[1usize, 2, 0]), *rng.pick(&[1usize, 2, 0])],
        jitter: rng.below(4) as u8,
        ws_jitter: rng.chance(1, 2),
        flush_pending: [0, 0],
        streams: vec![StreamPlan { sid: 1, opener: rng.below(2) as u8, open_delay: 0, sides, awaited: [true, true], host_extra: vec![], port: 1 }],
        dgrams: vec![],
        dg_recv: [Some((0, 0)), Some((0, 0))],
        faults: [None, None],
        drop_first: rng.below(3) as u8,
        binds: vec![],
        scripted_ids: [vec![], vec![]],
    }
}

/// One blocked stream (its reader is absent or stops after one frame) + healthy traffic.
fn isolation(seed: u64) -> Scenario {
    let mut rng = Rng64::new(mix(seed, 0x150));
    let cfg = [streams::gen_cfg(&mut rng, Profile::Progress), streams::gen_cfg(&mut rng, Profile::Progress)];
    let mut plans = Vec::new();
    // the blocked stream: side `w` writes far more than a window, side `r` does not read (or one frame) and just holds the stream
    let w = rng.below(2) as usize;
    let r = 1 - w;
    let mut sides = [SidePlan::quiet(), SidePlan::quiet()];
    sides[w].writes = (0..(3 * cfg[r].rwnd as usize + 4)).map(|_| WOp::Write(*rng.pick(&[1usize, 64, 1000]))).collect();
    sides[w].shutdown = true;
    sides[r].writes = vec![];
    sides[r].shutdown = false;
    sides[r].read_limit = Some(rng.below(2));
    sides[r].hold_ms = 600_000;
    let mut awaited = [false, false];
    awaited[r] = false;
    awaited[w] = false;
    plans.push(StreamPlan { sid: 1, opener: rng.below(2) as u8, open_delay: 0, sides, awaited, host_extra: vec![], port: 1 });
    // healthy streams, some opened late (after the blocked stream has filled its window)
    let n = rng.range(1, 3) as u32;
    for i in 0..n {
        let mut p = streams::gen_stream(&mut rng, 2 + i, &cfg, Profile::Progress, false);
        for s in p.sides.iter_mut() {
            s.read_limit = None;
            s.shutdown = true;
        }
        p.open_delay = if rng.chance(2, 3) { rng.range(5, 60) } else { 0 };
        plans.push(p);
    }
    let ndg = rng.range(1, 6) as usize;
    let mut dgrams: Vec<DgPlan> = streams::gen_dgrams(&mut rng, ndg, 1);
    for d in dgrams.iter_mut() {
        d.pause_before = rng.range(1, 50);
        d.payload_len = d.payload_len.min(64);
    }
    // in a third of the cases the application of one endpoint does not fetch its datagrams at all (or only slowly) while the
    // peer sends more of them than its datagram buffer holds: "datagrams are dropped instead of blocking" - the streams and the
    // late opens of this scenario must not notice
    let mut dg_recv = [Some((0, 0)), Some((0, 0))];
    if rng.chance(1, 3) {
        let e = rng.below(2) as usize; // the flooding side
        let cap = cfg[1 - e].dgram_buf.min(24);
        let mut more = streams::gen_dgrams(&mut rng, 2 * cap + 3, 1000);
        for (k, d) in more.iter_mut().enumerate() {
            d.from = e as u8;
            d.pause_before = if k == 0 { rng.range(0, 20) } else { 0 };
            d.payload_len = d.payload_len.min(64);
            d.host_len = d.host_len.min(40);
        }
        dgrams.extend(more);
        dg_recv[1 - e] = if rng.chance(2, 3) { None } else { Some((0, rng.range(20, 60))) };
    }
    Scenario {
        seed,
        cfg,
        caps: [*rng.pick(&[1usize, 2, 8, 0]), *rng.pick(&[1usize, 2, 8, 0])],
        jitter: rng.below(4) as u8,
        ws_jitter: rng.chance(1, 2),
        flush_pending: [0, 0],
        streams: plans,
        dgrams,
        dg_recv,
        faults: [None, None],
        drop_first: rng.below(3) as u8,
        binds: vec![],
        scripted_ids: [vec![], vec![]],
    }
}

pub fn run(p: &Params) -> (Stats, &'static str) {
    std::panic::set_hook(Box::new(|_| {}));
    crate::sim::install_observer();
    let mut st = Stats::new();
    let base = p.shard_seed("C04");
    let meta = |sc: &Scenario| Meta { abnormal_end: false, dgram_cap: [sc.cfg[0].dgram_buf, sc.cfg[1].dgram_buf], stream_is_bridge: false, sim: true, ..Meta::default() };
    // (a) option grid. thorough: every pair x 2 buffer sizes x 2 seeds (exhaustive over the grid); quick: boundary pairs + a seeded sample
    let mut cells: Vec<((u32, u32), (u32, u32))> = Vec::new();
    for ra in RWNDS {
        for ta in THRS {
            for rb in RWNDS {
                for tb in THRS {
                    cells.push(((ra, ta), (rb, tb)));
                }
            }
        }
    }
    let mut idx = 0u64;
    let reps = if p.tier_thorough { 2 } else { 1 };
    let mut grid_runs = 0u64;
    for rep in 0..reps {
        for (a, b) in &cells {
            idx += 1;
            if idx % p.nshards != p.shard {
                continue;
            }
            if !p.tier_thorough {
                let boundary = |x: &(u32, u32)| x.0 == 1 || x.0 == 16 || x.1 == 1 || x.1 == 64 || x.1 > x.0;
                let keep = (boundary(a) && boundary(b) && mix(base, idx) % 4 == 0) || mix(base, idx) % 16 == 0;
                if !keep {
                    continue;
                }
            }
            for bufs in [1usize, 16] {
                let sc = grid_cell(mix(mix(base, idx), bufs as u64 + 100 * rep), *a, *b, bufs);
                let c = streams::execute(&mut st, &SPEC, &sc, &meta(&sc), "grid");
                streams::record_coverage(&mut st, &sc, &c, &SPEC, sc.seed);
                st.cell("grid_cell", format!("{}/{}x{}/{}", a.0, a.1, b.0, b.1));
                grid_runs += 1;
            }
        }
    }
    st.count("grid_runs", grid_runs);
    if p.tier_thorough {
        st.exhaustive.push("option grid: every (rwnd, threshold) pair from {1,2,3,4,5,8,16}x{1,2,3,4,8,64} on each side independently (1764 pairs) x buffer sizes {1,16} x 2 seeds".into());
    }
    // (b) isolation scenarios and (c) random progress-profile scenarios
    let n = p.share(if p.tier_thorough { SPEC.runs_thorough } else { SPEC.runs_quick });
    for i in 0..n {
        let seed = mix(base, 0x1_0000 + i);
        let (sc, origin) = if i % 2 == 0 { (isolation(seed), "isolation") } else { (streams::gen_scenario(seed, Profile::Progress), "random") };
        let c = streams::execute(&mut st, &SPEC, &sc, &meta(&sc), origin);
        streams::record_coverage(&mut st, &sc, &c, &SPEC, seed);
        if origin == "isolation" {
            st.target("isolation_runs", 1);
        }
        if st.too_many_violations() {
            break;
        }
    }
    (st, SPEC.rule)
}
