//! A scripted raw peer: holds one half of the in-memory WebSocket directly and
//! speaks frames built by the reference codec. Used where the peer must
//! misbehave or must be controlled frame by frame (C07, C10, C15, C16).

use crate::memws::MemWs;
use crate::refcodec::RefFrame;
use penguin_mux::ws::{Message, WebSocket};
use std::future::poll_fn;
use std::time::Duration;

pub struct Raw {
    pub ws: MemWs,
    /// everything received so far (decoded), in order
    pub seen: Vec<Got>,
}

#[derive(Clone, Debug, PartialEq, Eq)]
pub enum Got {
    Frame(RefFrame),
    Ping,
    Pong,
    Close,
    Bad(Vec<u8>),
    End,
    Err,
}

impl Raw {
    pub fn new(mut ws: MemWs) -> Self {
        ws.auto_pong = false;
        Self { ws, seen: Vec::new() }
    }

    pub async fn send_msg(&mut self, m: Message) -> bool {
        if poll_fn(|cx| self.ws.poll_ready_unpin(cx)).await.is_err() {
            return false;
        }
        if self.ws.start_send_unpin(m).is_err() {
            return false;
        }
        poll_fn(|cx| self.ws.poll_flush_unpin(cx)).await.is_ok()
    }

    pub async fn send(&mut self, f: &RefFrame) -> bool {
        self.send_msg(Message::Binary(f.encode().into())).await
    }

    pub async fn send_bytes(&mut self, b: Vec<u8>) -> bool {
        self.send_msg(Message::Binary(b.into())).await
    }

    pub async fn close(&mut self) {
        poll_fn(|cx| self.ws.poll_close_unpin(cx)).await.ok();
    }

    /// Next message; `None` after the stream ended.
    pub async fn recv(&mut self) -> Got {
        let g = match poll_fn(|cx| self.ws.poll_next_unpin(cx)).await {
            None => Got::End,
            Some(Err(_)) => Got::Err,
            Some(Ok(Message::Ping)) => Got::Ping,
            Some(Ok(Message::Pong)) => Got::Pong,
            Some(Ok(Message::Close)) => Got::Close,
            Some(Ok(Message::Binary(b))) => match RefFrame::decode(&b) {
                Ok(f) => Got::Frame(f),
                Err(_) => Got::Bad(b.to_vec()),
            },
        };
        self.seen.push(g.clone());
        g
    }

    /// Receive until the endpoint under test has nothing more to say: with the
    /// clock paused a 1 ms timeout only expires once no task is runnable.
    pub async fn drain(&mut self) -> Vec<Got> {
        self.drain_for(1).await
    }

    /// Like `drain`, but only gives up after `ms` virtual milliseconds of silence.
    pub async fn drain_for(&mut self, ms: u64) -> Vec<Got> {
        let mut out = Vec::new();
        loop {
            match tokio::time::timeout(Duration::from_millis(ms), self.recv()).await {
                Ok(Got::End) => {
                    out.push(Got::End);
                    return out;
                }
                Ok(g) => out.push(g),
                Err(_) => return out,
            }
        }
    }

    /// Wait for the next frame satisfying `pred`, answering nothing; everything skipped is kept in `seen`.
    pub async fn expect(&mut self, mut pred: impl FnMut(&RefFrame) -> bool) -> Option<RefFrame> {
        loop {
            match tokio::time::timeout(Duration::from_secs(600), self.recv()).await {
                Ok(Got::Frame(f)) if pred(&f) => return Some(f),
                Ok(Got::End) | Ok(Got::Err) | Err(_) => return None,
                Ok(_) => {}
            }
        }
    }
}
