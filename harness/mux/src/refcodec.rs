//! Reference codec for penguin-v7 frames, written from PROTOCOL.md only.
//! The wire monitors decode with this, never with the repository's codec.

#[derive(Clone, Debug, PartialEq, Eq, Hash)]
pub enum RefFrame {
    Connect { id: u32, rwnd: u32, port: u16, host: Vec<u8> },
    Ack { id: u32, n: u32 },
    Reset { id: u32 },
    Finish { id: u32 },
    Push { id: u32, data: Vec<u8> },
    Bind { id: u32, btype: u8, port: u16, host: Vec<u8> },
    Datagram { id: u32, port: u16, host: Vec<u8>, data: Vec<u8> },
}

#[derive(Clone, Copy, Debug, PartialEq, Eq)]
pub enum RefErr {
    TooShort,
    Version(u8),
    OpCode(u8),
    BindType(u8),
}

pub const VER: u8 = 7;

impl RefFrame {
    pub fn id(&self) -> u32 {
        match self {
            Self::Connect { id, .. }
            | Self::Ack { id, .. }
            | Self::Reset { id }
            | Self::Finish { id }
            | Self::Push { id, .. }
            | Self::Bind { id, .. }
            | Self::Datagram { id, .. } => *id,
        }
    }
    pub fn op(&self) -> u8 {
        match self {
            Self::Connect { .. } => 0,
            Self::Ack { .. } => 1,
            Self::Reset { .. } => 2,
            Self::Finish { .. } => 3,
            Self::Push { .. } => 4,
            Self::Bind { .. } => 5,
            Self::Datagram { .. } => 6,
        }
    }
    pub fn name(&self) -> &'static str {
        ["Connect", "Ack", "Reset", "Finish", "Push", "Bind", "Datagram"][self.op() as usize]
    }

    /// Canonical encoding: version nibble 7.
    pub fn encode(&self) -> Vec<u8> {
        let mut v = Vec::new();
        v.push((VER << 4) | self.op());
        v.extend_from_slice(&self.id().to_be_bytes());
        match self {
            Self::Connect { rwnd, port, host, .. } => {
                v.extend_from_slice(&rwnd.to_be_bytes());
                v.extend_from_slice(&port.to_be_bytes());
                v.extend_from_slice(host);
            }
            Self::Ack { n, .. } => v.extend_from_slice(&n.to_be_bytes()),
            Self::Reset { .. } | Self::Finish { .. } => {}
            Self::Push { data, .. } => v.extend_from_slice(data),
            Self::Bind { btype, port, host, .. } => {
                v.push(*btype);
                v.extend_from_slice(&port.to_be_bytes());
                v.extend_from_slice(host);
            }
            Self::Datagram { port, host, data, .. } => {
                assert!(host.len() <= 255);
                v.push(host.len() as u8);
                v.extend_from_slice(&port.to_be_bytes());
                v.extend_from_slice(host);
                v.extend_from_slice(data);
            }
        }
        v
    }

    /// Decode per PROTOCOL.md: version nibble 7 (or 0, the documented lenient
    /// form), opcode 0..=6, minimum field lengths, bind type 1|3, datagram
    /// host length within the frame. Trailing bytes after fixed-size payloads
    /// (Acknowledge, Reset, Finish) are not part of any field and are ignored.
    pub fn decode(b: &[u8]) -> Result<Self, RefErr> {
        if b.len() < 5 {
            return Err(RefErr::TooShort);
        }
        let ver = b[0] >> 4;
        if ver != VER && ver != 0 {
            return Err(RefErr::Version(ver));
        }
        let op = b[0] & 0x0f;
        if op > 6 {
            return Err(RefErr::OpCode(op));
        }
        let id = u32::from_be_bytes([b[1], b[2], b[3], b[4]]);
        let p = &b[5..];
        Ok(match op {
            0 => {
                if p.len() < 6 {
                    return Err(RefErr::TooShort);
                }
                Self::Connect {
                    id,
                    rwnd: u32::from_be_bytes([p[0], p[1], p[2], p[3]]),
                    port: u16::from_be_bytes([p[4], p[5]]),
                    host: p[6..].to_vec(),
                }
            }
            1 => {
                if p.len() < 4 {
                    return Err(RefErr::TooShort);
                }
                Self::Ack { id, n: u32::from_be_bytes([p[0], p[1], p[2], p[3]]) }
            }
            2 => Self::Reset { id },
            3 => Self::Finish { id },
            4 => Self::Push { id, data: p.to_vec() },
            5 => {
                if p.len() < 3 {
                    return Err(RefErr::TooShort);
                }
                if p[0] != 1 && p[0] != 3 {
                    return Err(RefErr::BindType(p[0]));
                }
                Self::Bind {
                    id,
                    btype: p[0],
                    port: u16::from_be_bytes([p[1], p[2]]),
                    host: p[3..].to_vec(),
                }
            }
            6 => {
                if p.len() < 3 {
                    return Err(RefErr::TooShort);
                }
                let hl = p[0] as usize;
                if p.len() < 3 + hl {
                    return Err(RefErr::TooShort);
                }
                Self::Datagram {
                    id,
                    port: u16::from_be_bytes([p[1], p[2]]),
                    host: p[3..3 + hl].to_vec(),
                    data: p[3 + hl..].to_vec(),
                }
            }
            _ => unreachable!(),
        })
    }
}
