//! C20 — CowBytes / LongChain against a plain `Vec<u8>` model.
//! PURE engine (production profile, where the repo's own invariant check is
//! compiled out); the same workload runs under Miri with `--miri 1`.

use crate::util::{Params, Rng64, Stats, Violation, fnv, hex, mix};
use bytes::{Buf, Bytes};
use cow_bytes::{CowBytes, LongChain};
use serde_json::json;
use std::borrow::Borrow;
use std::hash::{Hash, Hasher};
use std::panic::{AssertUnwindSafe, catch_unwind};

const RULE: &str = "cases = operation sequences over push/insert/pop/remove/split_to/split_off/truncate/advance/clear applied to three twin chains \
(all-borrowed, all-owned, mixed) and a Vec<u8> model, arguments at, inside and one past every boundary; all sequences up to a fixed length over a 41-operation \
alphabet are enumerated (length 3 quick, 4 thorough), random sequences up to length 200 beyond; plus CowBytes twin checks over every accessor/comparison/hash. \
A sequence is non-trivial if at least one operation changed a non-empty chain; distinct = distinct operation sequences (bottom-k hash union)";

static DATA: [u8; 4096] = {
    let mut a = [0u8; 4096];
    let mut i = 0;
    while i < 4096 {
        a[i] = (i % 251) as u8 ^ ((i / 251) as u8).wrapping_mul(17);
        i += 1;
    }
    a
};

#[derive(Clone, Copy, Debug, PartialEq, Eq)]
enum Twin {
    Borrowed,
    Owned,
    Mixed,
}

#[derive(Clone, Copy, Debug, PartialEq, Eq, Hash)]
enum Arg {
    Zero,
    One,
    Mid,
    FirstChunk,
    LastMinus,
    End,
    Past,
}

#[derive(Clone, Copy, Debug, PartialEq, Eq, Hash)]
enum Op {
    Push(usize),
    Insert(Arg, usize),
    Pop,
    Remove(Arg),
    SplitTo(Arg),
    SplitOff(Arg),
    Truncate(Arg),
    Advance(Arg),
    Clear,
}

fn alphabet() -> Vec<Op> {
    let mut v = Vec::new();
    for s in 0..4 {
        v.push(Op::Push(s));
    }
    for a in [Arg::Zero, Arg::Mid, Arg::End, Arg::Past] {
        for s in [0usize, 2] {
            v.push(Op::Insert(a, s));
        }
    }
    v.push(Op::Pop);
    for a in [Arg::Zero, Arg::LastMinus, Arg::End] {
        v.push(Op::Remove(a));
    }
    for a in [Arg::Zero, Arg::One, Arg::FirstChunk, Arg::LastMinus, Arg::End, Arg::Past] {
        v.push(Op::SplitTo(a));
        v.push(Op::SplitOff(a));
        v.push(Op::Truncate(a));
        v.push(Op::Advance(a));
    }
    v.push(Op::Clear);
    v
}

struct Model {
    bytes: Vec<u8>,
    chunks: Vec<usize>, // chunk lengths, for index-argument resolution only
}

struct State {
    model: Model,
    chains: [LongChain<'static>; 3],
    next_off: usize,
    changed_nonempty: bool,
}

fn mk_chunk(twin: Twin, idx: usize, off: usize, len: usize) -> CowBytes<'static> {
    let s: &'static [u8] = &DATA[off..off + len];
    let owned = match twin {
        Twin::Borrowed => false,
        Twin::Owned => true,
        Twin::Mixed => idx % 2 == 0,
    };
    if owned {
        if idx % 3 == 0 { CowBytes::Static(Bytes::from_static(s)) } else { CowBytes::Static(Bytes::copy_from_slice(s)) }
    } else {
        CowBytes::Temporary(s)
    }
}

const TWINS: [Twin; 3] = [Twin::Borrowed, Twin::Owned, Twin::Mixed];

fn resolve_bytes(a: Arg, m: &Model) -> usize {
    let len = m.bytes.len();
    match a {
        Arg::Zero => 0,
        Arg::One => 1,
        Arg::Mid => len / 2,
        Arg::FirstChunk => m.chunks.first().copied().unwrap_or(0),
        Arg::LastMinus => len.saturating_sub(1),
        Arg::End => len,
        Arg::Past => len + 1,
    }
}
fn resolve_index(a: Arg, m: &Model) -> usize {
    let n = m.chunks.len();
    match a {
        Arg::Zero => 0,
        Arg::One => 1,
        Arg::Mid => n / 2,
        Arg::FirstChunk => 1.min(n),
        Arg::LastMinus => n.saturating_sub(1),
        Arg::End => n,
        Arg::Past => n + 1,
    }
}

/// Full accessor comparison of a chain against expected contents.
/// All readers below use in-range arguments only: a panic inside the library while reading is a finding like any other mismatch.
fn check_chain(c: &LongChain<'_>, want: &[u8], what: &str) -> Result<(), String> {
    match catch_unwind(AssertUnwindSafe(|| check_chain_inner(c, want, what))) {
        Ok(r) => r,
        Err(_) => Err(format!("{what}: a read of the chain with in-range arguments (chunk / advance / copy_to_bytes / chunks_vectored / clone_from) panicked")),
    }
}

fn check_chain_inner(c: &LongChain<'_>, want: &[u8], what: &str) -> Result<(), String> {
    if c.len() != want.len() {
        return Err(format!("{what}: len() = {} but contents have {} bytes", c.len(), want.len()));
    }
    if c.remaining() != want.len() {
        return Err(format!("{what}: remaining() = {} but contents have {} bytes", c.remaining(), want.len()));
    }
    if c.is_empty() != want.is_empty() {
        return Err(format!("{what}: is_empty() = {} with {} bytes", c.is_empty(), want.len()));
    }
    let chunks: &[CowBytes<'_>] = c.as_ref();
    let mut cat = Vec::with_capacity(want.len());
    for (i, ch) in chunks.iter().enumerate() {
        if ch.is_empty() {
            return Err(format!("{what}: chunk {i} of {} is empty (Buf contract: no empty chunk while bytes remain / stored empty segment)", chunks.len()));
        }
        cat.extend_from_slice(ch.as_ref());
    }
    if cat != want {
        return Err(format!("{what}: concatenated chunks {} != model {}", hex(&cat), hex(want)));
    }
    // drain a clone through the Buf interface
    let mut d = c.clone();
    let mut got = Vec::with_capacity(want.len());
    let mut guard = 0;
    while d.has_remaining() {
        let ch = d.chunk();
        if ch.is_empty() {
            return Err(format!("{what}: chunk() is empty while remaining() = {}", d.remaining()));
        }
        let n = ch.len().min(1 + guard % 3);
        got.extend_from_slice(&ch[..n]);
        d.advance(n);
        guard += 1;
        if guard > 100_000 {
            return Err(format!("{what}: draining does not terminate"));
        }
    }
    if !d.chunk().is_empty() {
        return Err(format!("{what}: chunk() non-empty after remaining() reached 0"));
    }
    if got != want {
        return Err(format!("{what}: bytes drained through chunk()/advance() {} != model {}", hex(&got), hex(want)));
    }
    // the other readers of the Buf interface, each on its own clone: one advance() across several segments,
    // copy_to_bytes(), chunks_vectored()
    let k = want.len() / 2 + want.len() % 2;
    {
        let mut d = c.clone();
        d.advance(k);
        let mut rest = Vec::new();
        let mut guard = 0;
        while d.has_remaining() && guard < 100_000 {
            let ch = d.chunk();
            if ch.is_empty() {
                return Err(format!("{what}: after advance({k}) chunk() is empty while remaining() = {}", d.remaining()));
            }
            rest.extend_from_slice(ch);
            let n = ch.len();
            d.advance(n);
            guard += 1;
        }
        if rest != want[k..] || d.len() != 0 {
            return Err(format!("{what}: after one advance({k}) the rest reads {} (len() {}), the model says {}", hex(&rest), d.len(), hex(&want[k..])));
        }
    }
    {
        // copy_to_bytes() is a loop over chunk()/advance() inside the library: rehearse exactly its steps with a bound first, so
        // that a chain which would make it spin (an empty chunk while bytes remain) is reported instead of hanging the check
        let mut r = c.clone();
        for want_n in [k, want.len() - k] {
            let mut n = want_n;
            let mut guard = 0;
            while n > 0 {
                let ch = r.chunk();
                if ch.is_empty() || guard > 10_000 {
                    return Err(format!("{what}: reading {want_n} bytes through chunk()/advance() does not terminate (chunk() empty with {} bytes remaining)", r.remaining()));
                }
                let cnt = ch.len().min(n);
                r.advance(cnt);
                n -= cnt;
                guard += 1;
            }
        }
    }
    {
        let mut d = c.clone();
        let head = d.copy_to_bytes(k);
        let tail = d.copy_to_bytes(want.len() - k);
        if head.as_ref() != &want[..k] || tail.as_ref() != &want[k..] || d.has_remaining() || d.len() != 0 {
            return Err(format!("{what}: copy_to_bytes({k}) / copy_to_bytes(rest) gave {} / {}, {} bytes left; the model says {}", hex(head.as_ref()), hex(tail.as_ref()), d.remaining(), hex(want)));
        }
    }
    {
        // Clone::clone_from into a chain of another length (what Vec / Option::clone_from use) gives an equal chain
        let mut d = c.clone();
        if d.has_remaining() {
            d.advance(1);
        } else {
            d.push(CowBytes::from_static(b"xy"));
        }
        d.clone_from(c);
        let cat: Vec<u8> = <LongChain<'_> as AsRef<[CowBytes<'_>]>>::as_ref(&d).iter().flat_map(|ch| ch.as_ref().to_vec()).collect();
        if d.len() != want.len() || d.remaining() != want.len() || d.is_empty() != want.is_empty() || cat != want {
            return Err(format!("{what}: after clone_from() the copy reports len() {} / remaining() {} and holds {}, the original holds {}", d.len(), d.remaining(), hex(&cat), hex(want)));
        }
    }
    {
        let mut io = [std::io::IoSlice::new(&[]); 48];
        let n = c.chunks_vectored(&mut io);
        let mut cat = Vec::new();
        for s in &io[..n.min(48)] {
            cat.extend_from_slice(s);
        }
        // (the Buf contract lets an implementation hand out fewer slices than it has - the default is just the first chunk -
        // so only "a non-empty prefix while bytes remain" is demanded)
        if n > 48 || !want.starts_with(&cat) || (!want.is_empty() && (n == 0 || cat.is_empty())) {
            return Err(format!("{what}: chunks_vectored() filled {n} slices reading {}, the model says {}", hex(&cat), hex(want)));
        }
    }
    Ok(())
}

enum Outcome {
    Ok,
    Panicked,
}

/// Apply one operation to model and all twins. Returns Err(description) on a violation,
/// Ok(false) if the sequence must stop (a panic happened somewhere).
fn apply(st: &mut State, op: Op, step: usize) -> Result<bool, (String, String)> {
    let m = &st.model;
    let len = m.bytes.len();
    let n = m.chunks.len();
    // compute model result
    #[derive(Debug)]
    enum Expect {
        InRange { after: Vec<u8>, chunks: Vec<usize>, ret: Option<Vec<u8>> },
        OutOfRange,
    }
    let opname = format!("{op:?}");
    let (expect, concrete): (Expect, String) = match op {
        Op::Push(s) => {
            if s == 0 {
                (Expect::OutOfRange, "push(empty)".into())
            } else {
                let mut after = m.bytes.clone();
                after.extend_from_slice(&DATA[st.next_off..st.next_off + s]);
                let mut ch = m.chunks.clone();
                ch.push(s);
                (Expect::InRange { after, chunks: ch, ret: None }, format!("push({s} bytes)"))
            }
        }
        Op::Insert(a, s) => {
            let idx = resolve_index(a, m);
            if idx > n || s == 0 {
                (Expect::OutOfRange, format!("insert(index {idx} of {n} chunks, {s} bytes)"))
            } else {
                let pos: usize = m.chunks[..idx].iter().sum();
                let mut after = m.bytes.clone();
                let seg = &DATA[st.next_off..st.next_off + s];
                after.splice(pos..pos, seg.iter().copied());
                let mut ch = m.chunks.clone();
                ch.insert(idx, s);
                (Expect::InRange { after, chunks: ch, ret: None }, format!("insert(index {idx} of {n} chunks, {s} bytes)"))
            }
        }
        Op::Pop => {
            if n == 0 {
                (Expect::InRange { after: vec![], chunks: vec![], ret: None }, "pop() on empty".into())
            } else {
                let l = m.chunks[n - 1];
                let after = m.bytes[..len - l].to_vec();
                let ret = m.bytes[len - l..].to_vec();
                (Expect::InRange { after, chunks: m.chunks[..n - 1].to_vec(), ret: Some(ret) }, "pop()".into())
            }
        }
        Op::Remove(a) => {
            let idx = resolve_index(a, m);
            if idx >= n {
                (Expect::OutOfRange, format!("remove(index {idx} of {n} chunks)"))
            } else {
                let pos: usize = m.chunks[..idx].iter().sum();
                let l = m.chunks[idx];
                let mut after = m.bytes.clone();
                let ret: Vec<u8> = after.drain(pos..pos + l).collect();
                let mut ch = m.chunks.clone();
                ch.remove(idx);
                (Expect::InRange { after, chunks: ch, ret: Some(ret) }, format!("remove(index {idx} of {n} chunks)"))
            }
        }
        Op::SplitTo(a) | Op::SplitOff(a) | Op::Truncate(a) | Op::Advance(a) => {
            let at = resolve_bytes(a, m);
            let nm = match op {
                Op::SplitTo(_) => "split_to",
                Op::SplitOff(_) => "split_off",
                Op::Truncate(_) => "truncate",
                _ => "advance",
            };
            let concrete = format!("{nm}({at}) on {len} bytes");
            if at > len {
                (Expect::OutOfRange, concrete)
            } else {
                // chunk structure after the cut
                let mut head = Vec::new();
                let mut tail = Vec::new();
                let mut acc = 0;
                for &c in &m.chunks {
                    if acc + c <= at {
                        head.push(c);
                    } else if acc >= at {
                        tail.push(c);
                    } else {
                        head.push(at - acc);
                        tail.push(acc + c - at);
                    }
                    acc += c;
                }
                let (after, chunks, ret) = match op {
                    Op::SplitTo(_) => (m.bytes[at..].to_vec(), tail, Some(m.bytes[..at].to_vec())),
                    Op::SplitOff(_) => (m.bytes[..at].to_vec(), head, Some(m.bytes[at..].to_vec())),
                    Op::Truncate(_) => (m.bytes[..at].to_vec(), head, None),
                    _ => (m.bytes[at..].to_vec(), tail, None),
                };
                (Expect::InRange { after, chunks, ret }, concrete)
            }
        }
        Op::Clear => (Expect::InRange { after: vec![], chunks: vec![], ret: None }, "clear()".into()),
    };

    let before = st.model.bytes.clone();
    let at_model = match op {
        Op::SplitTo(a) | Op::SplitOff(a) | Op::Truncate(a) | Op::Advance(a) => resolve_bytes(a, &st.model),
        _ => 0,
    };
    let mut any_panic = false;
    for (ti, twin) in TWINS.iter().enumerate() {
        let off = st.next_off;
        let chain = &mut st.chains[ti];
        let nchunks_now = n;
        let res = catch_unwind(AssertUnwindSafe(|| -> Option<Vec<u8>> {
            match op {
                Op::Push(s) => {
                    chain.push(mk_chunk(*twin, nchunks_now + step, off, s));
                    None
                }
                Op::Insert(a, s) => {
                    let idx = resolve_index(a, &Model { bytes: vec![], chunks: vec![0; nchunks_now] });
                    chain.insert(idx, mk_chunk(*twin, nchunks_now + step, off, s));
                    None
                }
                Op::Pop => chain.pop().map(|c| c.as_ref().to_vec()),
                Op::Remove(a) => {
                    let idx = resolve_index(a, &Model { bytes: vec![], chunks: vec![0; nchunks_now] });
                    Some(chain.remove(idx).as_ref().to_vec())
                }
                Op::SplitTo(_) | Op::SplitOff(_) | Op::Truncate(_) | Op::Advance(_) => {
                    let at = at_model;
                    match op {
                        Op::SplitTo(_) => {
                            let h = chain.split_to(at);
                            let want: Vec<u8> = before[..at.min(before.len())].to_vec();
                            if let Err(e) = check_chain(&h, &want, "returned half of split_to") {
                                panic!("VERIF-ORACLE {e}");
                            }
                            Some(want)
                        }
                        Op::SplitOff(_) => {
                            let h = chain.split_off(at);
                            let want: Vec<u8> = before[at.min(before.len())..].to_vec();
                            if let Err(e) = check_chain(&h, &want, "returned half of split_off") {
                                panic!("VERIF-ORACLE {e}");
                            }
                            Some(want)
                        }
                        Op::Truncate(_) => {
                            chain.truncate(at);
                            None
                        }
                        _ => {
                            chain.advance(at);
                            None
                        }
                    }
                }
                Op::Clear => {
                    chain.clear();
                    None
                }
            }
        }));
        let sig_base = format!("{}|{:?}", opname.split('(').next().unwrap_or("op"), match &expect { Expect::OutOfRange => "out-of-range", _ => "in-range" });
        match (&expect, res) {
            (Expect::InRange { after, ret, .. }, Ok(got_ret)) => {
                if let (Some(r), Some(g)) = (ret, &got_ret) {
                    if r != g {
                        return Err((format!("wrong-return|{sig_base}"), format!("{concrete} on {twin:?} chain returned {} but the model returns {}", hex(g), hex(r))));
                    }
                }
                if ret.is_some() != got_ret.is_some() && !matches!(op, Op::SplitTo(_) | Op::SplitOff(_)) {
                    return Err((format!("wrong-return|{sig_base}"), format!("{concrete} on {twin:?} chain returned {:?}, model {:?}", got_ret.is_some(), ret.is_some())));
                }
                if let Err(e) = check_chain(&st.chains[ti], after, &format!("{twin:?} chain after {concrete}")) {
                    return Err((format!("state-mismatch|{sig_base}"), e));
                }
            }
            (Expect::InRange { .. }, Err(p)) => {
                let msg = panic_msg(&p);
                if msg.starts_with("VERIF-ORACLE") {
                    return Err((format!("returned-half|{sig_base}"), format!("{concrete} on {twin:?}: {msg}")));
                }
                return Err((format!("unexpected-panic|{sig_base}"), format!("{concrete} (in range) panicked on {twin:?} chain: {msg}")));
            }
            (Expect::OutOfRange, Ok(_)) => {
                // must be unchanged
                if let Err(e) = check_chain(&st.chains[ti], &before, &format!("{twin:?} chain after out-of-range {concrete} (must be unchanged)")) {
                    return Err((format!("out-of-range-changed|{sig_base}"), e));
                }
            }
            (Expect::OutOfRange, Err(p)) => {
                let msg = panic_msg(&p);
                if msg.starts_with("VERIF-ORACLE") {
                    // the op did not panic by itself but returned a bad half
                    return Err((format!("out-of-range-changed|{sig_base}"), format!("{concrete} on {twin:?}: {msg}")));
                }
                any_panic = true;
            }
        }
    }
    if any_panic {
        return Ok(false);
    }
    if let Expect::InRange { after, chunks, .. } = expect {
        if !before.is_empty() && after != before {
            st.changed_nonempty = true;
        }
        st.model.bytes = after;
        st.model.chunks = chunks;
        st.next_off = (st.next_off + 4) % 4000;
    }
    Ok(true)
}

fn panic_msg(p: &Box<dyn std::any::Any + Send>) -> String {
    if let Some(s) = p.downcast_ref::<String>() {
        s.clone()
    } else if let Some(s) = p.downcast_ref::<&str>() {
        (*s).to_string()
    } else {
        "<non-string panic>".into()
    }
}

fn run_sequence(stats: &mut Stats, ops: &[Op], kind: &str) {
    stats.evaluations += 1;
    let mut st = State {
        model: Model { bytes: vec![], chunks: vec![] },
        chains: [LongChain::new(), LongChain::with_capacity(2), LongChain::default()],
        next_off: 0,
        changed_nonempty: false,
    };
    let mut done = 0;
    for (i, op) in ops.iter().enumerate() {
        match apply(&mut st, *op, i) {
            Ok(true) => done += 1,
            Ok(false) => {
                stats.count("sequences_ended_by_allowed_panic", 1);
                break;
            }
            Err((sig, detail)) => {
                stats.violation(Violation {
                    signature: sig,
                    detail: format!("{detail}; sequence so far: {:?}", &ops[..=i]),
                    replay: json!({"kind": "c20-seq", "ops": format!("{:?}", &ops[..=i]), "source": kind}),
                });
                break;
            }
        }
    }
    stats.count("operations_checked", done as u64);
    if st.changed_nonempty {
        let mut h = 0u64;
        for op in ops {
            let mut hs = std::collections::hash_map::DefaultHasher::new();
            op.hash(&mut hs);
            h = mix(h, hs.finish());
        }
        stats.nontrivial(h);
    }
}

fn hash_of<T: Hash + ?Sized>(t: &T) -> u64 {
    let mut h = std::collections::hash_map::DefaultHasher::new();
    t.hash(&mut h);
    h.finish()
}

/// CowBytes twins: every accessor, comparison and hash must agree and equal the slice's.
fn cow_twins(stats: &mut Stats, rng: &mut Rng64) {
    stats.evaluations += 1;
    stats.count("cow_twin_cases", 1);
    let len = if rng.chance(1, 4) { 0 } else { rng.below(40) as usize };
    let off = rng.below(3000) as usize;
    let base: &'static [u8] = &DATA[off..off + len];
    let mut model: Vec<u8> = base.to_vec();
    let mut t = CowBytes::Temporary(base);
    let mut s = if rng.chance(1, 2) { CowBytes::Static(Bytes::copy_from_slice(base)) } else { CowBytes::from_static(base) };
    let mut fail = |sig: &str, detail: String| {
        stats.violation(Violation { signature: format!("cow-twin|{sig}"), detail, replay: json!({"kind": "c20-cow", "len": len, "off": off}) });
    };
    for _ in 0..rng.below(6) {
        let l = model.len();
        let at = rng.below(l as u64 + 1) as usize;
        match rng.below(8) {
            // the `Buf` view of the value (what a parser reading from it uses): the bytes handed out are gone afterwards
            4 => {
                let (a, b) = (t.copy_to_bytes(at), s.copy_to_bytes(at));
                let want: Vec<u8> = model.drain(..at).collect();
                if a.as_ref() != want.as_slice() || b.as_ref() != want.as_slice() {
                    fail("copy_to_bytes", format!("copy_to_bytes({at}) returned {} / {} != {}", hex(a.as_ref()), hex(b.as_ref()), hex(&want)));
                }
            }
            5 => {
                if l > 0 {
                    let (a, b) = (t.get_u8(), s.get_u8());
                    let want = model.remove(0);
                    if a != want || b != want {
                        fail("get_u8", format!("get_u8 returned {a:02x} / {b:02x}, the first byte is {want:02x}"));
                    }
                }
            }
            6 => {
                let (mut a, mut b) = (vec![0u8; at], vec![0u8; at]);
                t.copy_to_slice(&mut a);
                s.copy_to_slice(&mut b);
                let want: Vec<u8> = model.drain(..at).collect();
                if a != want || b != want {
                    fail("copy_to_slice", format!("copy_to_slice({at}) filled {} / {} != {}", hex(&a), hex(&b), hex(&want)));
                }
            }
            7 => {
                let mut got: [Vec<u8>; 2] = [vec![], vec![]];
                {
                    let mut tk = Buf::take(&mut t, at);
                    got[0] = tk.copy_to_bytes(tk.remaining()).to_vec();
                }
                {
                    let mut tk = Buf::take(&mut s, at);
                    got[1] = tk.copy_to_bytes(tk.remaining()).to_vec();
                }
                let want: Vec<u8> = model.drain(..at).collect();
                if got[0] != want || got[1] != want {
                    fail("take", format!("take({at}) drained {} / {} != {}", hex(&got[0]), hex(&got[1]), hex(&want)));
                }
            }
            0 => {
                let (a, b) = (t.split_to(at), s.split_to(at));
                let want: Vec<u8> = model.drain(..at).collect();
                if a.as_ref() != want.as_slice() || b.as_ref() != want.as_slice() {
                    fail("split_to", format!("split_to({at}) halves {} / {} != {}", hex(a.as_ref()), hex(b.as_ref()), hex(&want)));
                }
            }
            1 => {
                let (a, b) = (t.split_off(at), s.split_off(at));
                let want: Vec<u8> = model.split_off(at);
                if a.as_ref() != want.as_slice() || b.as_ref() != want.as_slice() {
                    fail("split_off", format!("split_off({at}) halves differ from model {}", hex(&want)));
                }
            }
            2 => {
                t.truncate(at);
                s.truncate(at);
                model.truncate(at);
            }
            _ => {
                t.advance(at);
                s.advance(at);
                model.drain(..at);
            }
        }
    }
    let m = model.as_slice();
    let other_vec = {
        let mut o = model.clone();
        match rng.below(3) {
            0 => {}
            1 => o.push(rng.next() as u8),
            _ => {
                if let Some(x) = o.last_mut() {
                    *x = x.wrapping_add(1);
                }
            }
        }
        o
    };
    let other = CowBytes::Static(Bytes::from(other_vec.clone()));
    for (name, c) in [("borrowed", &t), ("owned", &s)] {
        let ok = c.len() == m.len()
            && c.is_empty() == m.is_empty()
            && c.as_ref() == m
            && &**c == m
            && c.chunk() == m
            && c.remaining() == m.len()
            && <CowBytes<'_> as Borrow<[u8]>>::borrow(c) == m
            && *c == *m
            && *c == Bytes::copy_from_slice(m)
            && *c == m.to_vec()
            && c.partial_cmp(m) == Some(std::cmp::Ordering::Equal)
            && c.partial_cmp(&Bytes::copy_from_slice(m)) == Some(std::cmp::Ordering::Equal)
            && (*c == other) == (m == other_vec.as_slice())
            && c.partial_cmp(&other) == m.partial_cmp(other_vec.as_slice())
            && c.partial_cmp(other_vec.as_slice()) == m.partial_cmp(other_vec.as_slice())
            && hash_of(c) == hash_of(m)
            && format!("{c:x}") == m.iter().map(|b| format!("{b:02x}")).collect::<String>()
            && format!("{c:X}") == m.iter().map(|b| format!("{b:02X}")).collect::<String>()
            && c.clone().into_static().as_ref() == m;
        if !ok {
            fail("accessor", format!("{name} variant disagrees with the plain slice {} on an accessor/comparison/hash", hex(m)));
        }
    }
    // out-of-range arguments: each variant either panics or is left unchanged (whether it panics is not demanded to agree)
    for k in [1usize, 2, 17] {
        let at = m.len() + k;
        for (name, c) in [("borrowed", &t), ("owned", &s)] {
            for op in ["truncate", "split_to", "split_off", "advance"] {
                let mut v = c.clone();
                let r = std::panic::catch_unwind(std::panic::AssertUnwindSafe(|| {
                    match op {
                        "truncate" => v.truncate(at),
                        "split_to" => drop(v.split_to(at)),
                        "split_off" => drop(v.split_off(at)),
                        _ => v.advance(at),
                    }
                    v
                }));
                if let Ok(after) = r {
                    if after.as_ref() != m {
                        fail(&format!("out-of-range|{op}|{name}"), format!("{name} CowBytes {} : {op}({at}) with length {} neither panicked nor left the value unchanged (now {})", hex(m), m.len(), hex(after.as_ref())));
                    }
                }
            }
        }
    }
    // io::Read is not an accessor the property constrains; only twin agreement is checked
    {
        let (mut r1, mut r2) = (t.clone(), s.clone());
        let (mut b1, mut b2) = (vec![0u8; 7], vec![0u8; 7]);
        let k1 = std::io::Read::read(&mut r1, &mut b1).unwrap_or(usize::MAX);
        let k2 = std::io::Read::read(&mut r2, &mut b2).unwrap_or(usize::MAX);
        if k1 != k2 || b1 != b2 || r1.as_ref() != r2.as_ref() || k1 != m.len().min(7) || b1[..k1.min(7)] != m[..k1.min(m.len())] {
            fail("read", format!("borrowed and owned variants behave differently under io::Read ({k1} vs {k2} bytes)"));
        }
    }
    if !(t == s && s == t && t.partial_cmp(&s) == Some(std::cmp::Ordering::Equal) && hash_of(&t) == hash_of(&s)) {
        fail("eq", format!("borrowed and owned variants of {} compare/hash differently", hex(m)));
    }
    if !CowBytes::default().is_empty() {
        fail("default", "default is not empty".into());
    }
    if m.len() == 3 {
        let arr: [u8; 3] = [m[0], m[1], m[2]];
        if !(t == &arr && s == &arr) {
            fail("eq-array", "PartialEq<&[u8; N]> disagrees".into());
        }
    }
    stats.nontrivial(mix(fnv(m), 0xC0));
}

pub fn run(p: &Params) -> (Stats, &'static str) {
    std::panic::set_hook(Box::new(|_| {}));
    let mut st = Stats::new();
    let mut rng = Rng64::new(p.shard_seed("C20"));
    let miri = p.get("miri").is_some();
    st.engine(if miri { "MIRI" } else { "PURE" }, 1);
    let alpha = alphabet();
    let a = alpha.len() as u64;
    let (exh_len, n_random, n_cow) = if miri {
        (1u32, 60u64, 150u64)
    } else if p.tier_thorough {
        (4, 3_000_000, 3_000_000)
    } else {
        (3, 150_000, 300_000)
    };
    // bounded-exhaustive: all sequences of length 1..=exh_len
    let mut enumerated = 0u64;
    for l in 1..=exh_len {
        let total = a.pow(l);
        let mut idx = p.shard;
        while idx < total {
            let mut k = idx;
            let ops: Vec<Op> = (0..l).map(|_| {
                let o = alpha[(k % a) as usize];
                k /= a;
                o
            }).collect();
            run_sequence(&mut st, &ops, "exhaustive");
            enumerated += 1;
            idx += p.nshards;
        }
    }
    st.count("exhaustive_sequences", enumerated);
    st.exhaustive.push(format!("all operation sequences of length 1..={exh_len} over the {a}-operation alphabet, three twin chains each"));
    // random longer sequences, biased towards growing first
    for _ in 0..p.share(n_random) {
        let l = if miri { rng.range(2, 12) } else if rng.chance(1, 20) { rng.range(20, 200) } else { rng.range(3, 24) } as usize;
        let ops: Vec<Op> = (0..l).map(|i| {
            if i < 3 && rng.chance(2, 3) { Op::Push(rng.range(1, 3) as usize) } else { *rng.pick(&alpha) }
        }).collect();
        run_sequence(&mut st, &ops, "random");
    }
    for _ in 0..p.share(n_cow) {
        cow_twins(&mut st, &mut rng);
    }
    st.sample(json!({"sequence": "[Push(2), Push(3), Insert(Zero,2), SplitTo(FirstChunk), Truncate(Past)]",
        "checked_after_each_op": "len, remaining, is_empty, concat(as_ref chunks), drain via chunk()/advance(), no empty chunk; x3 twins"}));
    let _ = std::panic::take_hook();
    (st, RULE)
}
