//! SIM engine: one tokio current-thread runtime with the clock paused per run,
//! seeded schedule jitter at poll boundaries, a quiescence watchdog in virtual
//! time, and the single event log (wire tap + hooks + API history) that all
//! monitors read.

use crate::refcodec::RefFrame;
use crate::util::{Rng64, fnv, mix};
use penguin_mux::timing::TimestampProvider;
use penguin_mux::verif::Kind;
use std::collections::VecDeque;
use std::future::Future;
use std::pin::Pin;
use std::sync::{Arc, Mutex, MutexGuard};
use std::task::{Context, Poll};
use std::time::Duration;

/// A wire message as the tap sees it (decoded with the reference codec).
#[derive(Clone, Debug, PartialEq, Eq)]
pub enum Wm {
    Connect { id: u32, rwnd: u32, port: u16, host: Vec<u8> },
    Ack { id: u32, n: u32 },
    Reset { id: u32 },
    Finish { id: u32 },
    Push { id: u32, len: usize, hash: u64 },
    Bind { id: u32, btype: u8, port: u16, host: Vec<u8> },
    Dgram { id: u32, port: u16, host_len: usize, host_hash: u64, len: usize, hash: u64 },
    Ping,
    Pong,
    Close,
    Garbage { len: usize },
}

impl Wm {
    pub fn of(m: &penguin_mux::ws::Message) -> Self {
        use penguin_mux::ws::Message;
        match m {
            Message::Ping => Self::Ping,
            Message::Pong => Self::Pong,
            Message::Close => Self::Close,
            Message::Binary(b) => match RefFrame::decode(b) {
                Err(_) => Self::Garbage { len: b.len() },
                Ok(RefFrame::Connect { id, rwnd, port, host }) => Self::Connect { id, rwnd, port, host },
                Ok(RefFrame::Ack { id, n }) => Self::Ack { id, n },
                Ok(RefFrame::Reset { id }) => Self::Reset { id },
                Ok(RefFrame::Finish { id }) => Self::Finish { id },
                Ok(RefFrame::Push { id, data }) => Self::Push { id, len: data.len(), hash: fnv(&data) },
                Ok(RefFrame::Bind { id, btype, port, host }) => Self::Bind { id, btype, port, host },
                Ok(RefFrame::Datagram { id, port, host, data }) => Self::Dgram { id, port, host_len: host.len(), host_hash: fnv(&host), len: data.len(), hash: fnv(&data) },
            },
        }
    }
    pub fn flow(&self) -> Option<u32> {
        match self {
            Self::Connect { id, .. } | Self::Ack { id, .. } | Self::Reset { id } | Self::Finish { id } | Self::Push { id, .. } | Self::Bind { id, .. } | Self::Dgram { id, .. } => Some(*id),
            _ => None,
        }
    }
    pub fn short(&self) -> String {
        match self {
            Self::Connect { id, rwnd, port, host } => format!("Connect({id:x},rwnd={rwnd},{}:{port})", String::from_utf8_lossy(&host[..host.len().min(12)])),
            Self::Ack { id, n } => format!("Ack({id:x},{n})"),
            Self::Reset { id } => format!("Reset({id:x})"),
            Self::Finish { id } => format!("Finish({id:x})"),
            Self::Push { id, len, .. } => format!("Push({id:x},{len}B)"),
            Self::Bind { id, btype, port, .. } => format!("Bind({id:x},t{btype},:{port})"),
            Self::Dgram { id, port, host_len, len, .. } => format!("Dgram({id:x},h{host_len},:{port},{len}B)"),
            Self::Ping => "Ping".into(),
            Self::Pong => "Pong".into(),
            Self::Close => "Close".into(),
            Self::Garbage { len } => format!("Garbage({len}B)"),
        }
    }
}

#[derive(Clone, Debug, PartialEq, Eq)]
pub enum WRes {
    Ok(usize),
    BrokenPipe,
    Other(String),
}

/// Application-level operations, logged at the client boundary.
#[derive(Clone, Debug, PartialEq, Eq)]
pub enum Api {
    OpenCall,
    OpenRet { ok: bool, err: String, key: usize, flow: u32, credit: u32 },
    Accepted { key: usize, flow: u32, credit: u32, host_ok: bool },
    AcceptErr { err: String },
    WriteCall { n: usize, vectored: bool },
    WriteRet { res: WRes },
    /// k == 0 is end-of-stream; `bad_at` = first offset that differs from the PRF stream
    ReadRet { k: usize, bad_at: Option<u64> },
    ReadErr { err: String },
    ShutCall,
    ShutRet,
    DropStream,
    DgSendCall { id: u64, host_len: usize },
    DgSendRet { id: u64, res: String },
    DgRecv { id: u64, fields_ok: bool },
    DgRecvErr { err: String },
    BindCall { id: u64 },
    BindRet { id: u64, res: String },
    BindSeen { id: u64, fields_ok: bool, flow: u32 },
    BindReply { id: u64, how: String },
    BindNextErr { err: String },
    MuxDrop,
    /// the scenario starts tearing down (aborting passive actors)
    Teardown,
    ActorDone,
    Probe { flows: usize, ids: Vec<u32> },
    Note(String),
}

#[derive(Clone, Debug)]
pub enum Ev {
    /// endpoint `ep`'s sink accepted the message
    Sent { ep: u8, m: Wm },
    /// endpoint `ep`'s source returned the message
    Dlv { ep: u8, m: Wm },
    Hook { key: usize, flow: u32, kind: Kind },
    Api { ep: u8, sid: u32, op: Api },
    Fault { ep: u8, what: String },
    TaskRet { ep: u8, res: String },
}

#[derive(Clone, Debug)]
pub struct Rec {
    /// virtual time in microseconds since the start of the run
    pub t: u64,
    pub ev: Ev,
}

pub struct Inner {
    pub log: Vec<Rec>,
    pub rng: Rng64,
    pub hash: u64,
    pub jitter: u8,
    pub polls: u64,
    pub start: Option<tokio::time::Instant>,
    /// (kind, delay) — THR engine only: sleep this many microseconds at matching hook events
    pub hook_delay_us: u64,
}

pub struct Shared {
    inner: Mutex<Inner>,
}

pub type Sh = Arc<Shared>;

impl Shared {
    pub fn new(seed: u64, jitter: u8) -> Sh {
        crate::util::set_current(format!("simulation with log seed {seed} jitter {jitter}"));
        Arc::new(Self {
            inner: Mutex::new(Inner { log: Vec::with_capacity(256), rng: Rng64::new(seed), hash: seed, jitter, polls: 0, start: None, hook_delay_us: 0 }),
        })
    }
    pub fn lock(&self) -> MutexGuard<'_, Inner> {
        self.inner.lock().unwrap_or_else(std::sync::PoisonError::into_inner)
    }
    fn now_us(g: &Inner) -> u64 {
        match g.start {
            Some(s) => tokio::time::Instant::now().saturating_duration_since(s).as_micros() as u64,
            None => 0,
        }
    }
    pub fn log(&self, ev: Ev) {
        let mut g = self.lock();
        let t = Self::now_us(&g);
        // wire order is part of the interleaving identity
        if let Ev::Sent { ep, m } | Ev::Dlv { ep, m } = &ev {
            let tag = match &ev {
                Ev::Sent { .. } => 1u64,
                _ => 2,
            };
            let d = std::mem::discriminant(m);
            let mut h = std::collections::hash_map::DefaultHasher::new();
            std::hash::Hash::hash(&d, &mut h);
            let hv = std::hash::Hasher::finish(&h) ^ u64::from(m.flow().unwrap_or(0));
            g.hash = mix(g.hash, mix(hv, tag * 16 + u64::from(*ep)));
        }
        g.log.push(Rec { t, ev });
    }
    pub fn api(&self, ep: u8, sid: u32, op: Api) {
        self.log(Ev::Api { ep, sid, op });
    }
    /// Seeded decision: should this poll yield instead of running?
    pub fn skip(&self) -> bool {
        let mut g = self.lock();
        match g.jitter {
            0 => false,
            1 => g.rng.chance(1, 8),
            2 => g.rng.chance(1, 3),
            _ => g.rng.chance(1, 2),
        }
    }
    pub fn rand(&self, n: u64) -> u64 {
        self.lock().rng.below(n)
    }
    pub fn note_poll(&self, task: u64) {
        let mut g = self.lock();
        g.polls += 1;
        g.hash = mix(g.hash, task);
    }
    pub fn take_log(&self) -> Vec<Rec> {
        std::mem::take(&mut self.lock().log)
    }
    pub fn hash(&self) -> u64 {
        self.lock().hash
    }
}

// ------------------------------------------------------------------ hook observer plumbing

static CURRENT: Mutex<Option<Sh>> = Mutex::new(None);

pub fn install_observer() {
    penguin_mux::verif::set_observer(Some(Arc::new(|e: &penguin_mux::verif::Event| {
        let cur = CURRENT.lock().unwrap_or_else(std::sync::PoisonError::into_inner).clone();
        if let Some(sh) = cur {
            sh.log(Ev::Hook { key: e.key, flow: e.flow_id, kind: e.kind });
            let d = sh.lock().hook_delay_us;
            if d > 0 && matches!(e.kind, Kind::CreditSeenZero | Kind::AckApplied { .. } | Kind::WriteAllowedSeen) {
                let r = sh.rand(4);
                if r == 0 {
                    std::thread::sleep(Duration::from_micros(d));
                } else if r == 1 {
                    std::thread::yield_now();
                }
            }
        }
    })));
}

pub fn set_current(sh: Option<Sh>) {
    *CURRENT.lock().unwrap_or_else(std::sync::PoisonError::into_inner) = sh;
}

// ------------------------------------------------------------------ virtual clock for the keepalive

#[derive(Clone, Copy, Debug)]
pub struct VTime(tokio::time::Instant);

impl TimestampProvider for VTime {
    fn now() -> Self {
        Self(tokio::time::Instant::now())
    }
    fn duration_since(&self, earlier: Self) -> Duration {
        self.0.saturating_duration_since(earlier.0)
    }
}

// ------------------------------------------------------------------ scripted RNG for flow ids

#[derive(Clone)]
pub struct ScriptRng {
    pub script: Arc<Mutex<VecDeque<u32>>>,
    pub fallback: Rng64,
    pub drawn: Arc<Mutex<Vec<u32>>>,
}

impl ScriptRng {
    pub fn new(seed: u64) -> Self {
        Self { script: Arc::new(Mutex::new(VecDeque::new())), fallback: Rng64::new(seed), drawn: Arc::new(Mutex::new(Vec::new())) }
    }
    pub fn push(&self, ids: &[u32]) {
        self.script.lock().unwrap().extend(ids.iter().copied());
    }
    fn draw(&mut self) -> u32 {
        let v = self.script.lock().unwrap().pop_front().unwrap_or_else(|| self.fallback.next() as u32);
        self.drawn.lock().unwrap().push(v);
        v
    }
}

impl rand::TryRng for ScriptRng {
    type Error = std::convert::Infallible;
    fn try_next_u32(&mut self) -> Result<u32, Self::Error> {
        Ok(self.draw())
    }
    fn try_next_u64(&mut self) -> Result<u64, Self::Error> {
        Ok(u64::from(self.draw()))
    }
    fn try_fill_bytes(&mut self, dst: &mut [u8]) -> Result<(), Self::Error> {
        for c in dst.chunks_mut(4) {
            let v = self.draw().to_le_bytes();
            c.copy_from_slice(&v[..c.len()]);
        }
        Ok(())
    }
}

// ------------------------------------------------------------------ schedule jitter

pub struct Jitter<F> {
    inner: Pin<Box<F>>,
    sh: Sh,
    id: u64,
    skips: u8,
}

impl<F: Future> Jitter<F> {
    pub fn new(sh: &Sh, id: u64, f: F) -> Self {
        Self { inner: Box::pin(f), sh: sh.clone(), id, skips: 0 }
    }
}

impl<F: Future> Future for Jitter<F> {
    type Output = F::Output;
    fn poll(mut self: Pin<&mut Self>, cx: &mut Context<'_>) -> Poll<F::Output> {
        if self.skips < 3 && self.sh.skip() {
            self.skips += 1;
            cx.waker().wake_by_ref();
            return Poll::Pending;
        }
        self.skips = 0;
        self.sh.note_poll(self.id);
        self.inner.as_mut().poll(cx)
    }
}

/// Spawn a task under schedule jitter. A panic inside it is caught and logged
/// (`Ev::Fault` with ep 255) so that monitors can report it; the handle then yields `None`.
pub fn spawn<F>(sh: &Sh, id: u64, f: F) -> tokio::task::JoinHandle<Option<F::Output>>
where
    F: Future + Send + 'static,
    F::Output: Send + 'static,
{
    use futures_util::FutureExt;
    let sh2 = sh.clone();
    tokio::spawn(Jitter::new(sh, id, async move {
        match std::panic::AssertUnwindSafe(f).catch_unwind().await {
            Ok(v) => Some(v),
            Err(p) => {
                let msg = p.downcast_ref::<String>().cloned().or_else(|| p.downcast_ref::<&str>().map(|s| (*s).to_string())).unwrap_or_else(|| "panic".into());
                sh2.log(Ev::Fault { ep: 255, what: format!("PANIC task={id}: {msg}") });
                None
            }
        }
    }))
}

/// Yield to the scheduler a seeded number of times (0..=2).
pub async fn jitter_yield(sh: &Sh) {
    let n = sh.rand(3);
    for _ in 0..n {
        tokio::task::yield_now().await;
    }
}

// ------------------------------------------------------------------ running a scenario

pub enum RunEnd<T> {
    Finished(T),
    /// the runtime went idle (only the watchdog timer left) with the scenario unfinished
    Stalled,
    /// a harness task panicked
    Panicked(String),
}

pub const WATCHDOG: Duration = Duration::from_secs(3600);

/// Run one scenario on a fresh current-thread runtime with the clock paused.
pub fn run<T, Fut>(sh: &Sh, scenario: impl FnOnce(Sh) -> Fut) -> RunEnd<T>
where
    Fut: Future<Output = T>,
{
    run_with_watchdog(sh, WATCHDOG, scenario)
}

pub fn run_with_watchdog<T, Fut>(sh: &Sh, watchdog: Duration, scenario: impl FnOnce(Sh) -> Fut) -> RunEnd<T>
where
    Fut: Future<Output = T>,
{
    let rt = tokio::runtime::Builder::new_current_thread().enable_time().start_paused(true).build().expect("runtime");
    set_current(Some(sh.clone()));
    let sh2 = sh.clone();
    let r = std::panic::catch_unwind(std::panic::AssertUnwindSafe(|| {
        rt.block_on(async move {
            sh2.lock().start = Some(tokio::time::Instant::now());
            let fut = scenario(sh2.clone());
            tokio::select! {
                biased;
                v = fut => RunEnd::Finished(v),
                () = tokio::time::sleep(watchdog) => RunEnd::Stalled,
            }
        })
    }));
    drop(rt);
    set_current(None);
    match r {
        Ok(v) => v,
        Err(p) => RunEnd::Panicked(p.downcast_ref::<String>().cloned().or_else(|| p.downcast_ref::<&str>().map(|s| (*s).to_string())).unwrap_or_else(|| "panic".into())),
    }
}

/// "Everything that could happen has happened": with the clock paused, a sleep
/// only completes once no task is runnable.
pub async fn quiesce() {
    tokio::time::sleep(Duration::from_millis(1)).await;
}

pub fn render(log: &[Rec], max: usize) -> Vec<String> {
    let skip = log.len().saturating_sub(max);
    log.iter().enumerate().skip(skip).map(|(i, r)| {
        let body = match &r.ev {
            Ev::Sent { ep, m } => format!("ep{ep} SENT {}", m.short()),
            Ev::Dlv { ep, m } => format!("ep{ep} DLVD {}", m.short()),
            Ev::Hook { key, flow, kind } => format!("hook {kind:?} key={:x} flow={flow:x}", key & 0xffff_ffff),
            Ev::Api { ep, sid, op } => format!("ep{ep} s{sid} {op:?}"),
            Ev::Fault { ep, what } => format!("ep{ep} FAULT {what}"),
            Ev::TaskRet { ep, res } => format!("ep{ep} TASK-RETURNED {res}"),
        };
        format!("{i:4} t={}us {body}", r.t)
    }).collect()
}


/// THR engine: the same scenario on a multi-thread runtime in real time. Only safety
/// monitors give verdicts there; a wall-clock timeout is inconclusive, never a violation.
pub fn run_threads<T, Fut>(sh: &Sh, workers: usize, limit: Duration, scenario: impl FnOnce(Sh) -> Fut) -> RunEnd<T>
where
    Fut: Future<Output = T>,
{
    let rt = tokio::runtime::Builder::new_multi_thread().worker_threads(workers).enable_time().build().expect("runtime");
    set_current(Some(sh.clone()));
    let sh2 = sh.clone();
    let r = std::panic::catch_unwind(std::panic::AssertUnwindSafe(|| {
        rt.block_on(async move {
            sh2.lock().start = Some(tokio::time::Instant::now());
            let fut = scenario(sh2.clone());
            match tokio::time::timeout(limit, fut).await {
                Ok(v) => RunEnd::Finished(v),
                Err(_) => RunEnd::Stalled,
            }
        })
    }));
    rt.shutdown_background();
    set_current(None);
    match r {
        Ok(v) => v,
        Err(_) => RunEnd::Panicked("panic".into()),
    }
}
