//! C19 (pure part) — `penguin_mux::timing::Backoff` against a reference generator,
//! exhaustively over small (initial, max, multiplier, max_count) tuples.

use crate::util::{Params, Stats, Violation, mix};
use penguin_mux::timing::Backoff;
use serde_json::json;
use std::time::Duration;

const RULE: &str = "back-off generator: all tuples initial in {1,2,3,200} ms x max in {1,2,5,1000,300000} ms x multiplier in {1,2,3} x max_count in 0..=5, each with every sequence of 12 advance/reset operations in which resets occur at every single position and every pair of positions; \
plus long outages: 400 consecutive advances (unlimited and large max_count, multipliers up to 10, a panic is a violation); reference: k-th consecutive delay = min(initial * mult^k, max), None once max_count (non-zero) consecutive advances were made, reset starts over. Exhaustive over that set";

struct Ref {
    initial: u128,
    max: u128,
    mult: u128,
    max_count: u32,
    k: u32,
}

impl Ref {
    fn advance(&mut self) -> Option<u128> {
        if self.max_count != 0 && self.k >= self.max_count {
            return None;
        }
        let mut d = self.initial;
        for _ in 0..self.k {
            d = (d * self.mult).min(self.max);
        }
        self.k += 1;
        Some(d.min(self.max))
    }
    fn reset(&mut self) {
        self.k = 0;
    }
}

pub fn run(p: &Params) -> (Stats, &'static str) {
    std::panic::set_hook(Box::new(|_| {}));
    let mut st = Stats::new();
    st.engine("PURE", 1);
    let mut idx = 0u64;
    for initial in [1u64, 2, 3, 200] {
        for max in [1u64, 2, 5, 1000, 300_000] {
            for mult in [1u32, 2, 3] {
                for max_count in 0..=5u32 {
                    // reset positions: none, each single, each pair
                    let mut patterns: Vec<Vec<usize>> = vec![vec![]];
                    for a in 0..12 {
                        patterns.push(vec![a]);
                        for b in a + 1..12 {
                            patterns.push(vec![a, b]);
                        }
                    }
                    for pat in patterns {
                        idx += 1;
                        if idx % p.nshards != p.shard {
                            continue;
                        }
                        st.evaluations += 1;
                        let mut b = Backoff::new(Duration::from_millis(initial), Duration::from_millis(max), mult, max_count);
                        let mut r = Ref { initial: u128::from(initial), max: u128::from(max), mult: u128::from(mult), max_count, k: 0 };
                        let mut seq = Vec::new();
                        for step in 0..12 {
                            if pat.contains(&step) {
                                b.reset();
                                r.reset();
                                seq.push("reset".to_string());
                            }
                            let got = b.advance().map(|d| d.as_millis());
                            let want = r.advance();
                            seq.push(format!("{got:?}"));
                            if got != want {
                                st.violation(Violation {
                                    signature: format!("backoff-mismatch|{}", if want.is_none() { "should-stop" } else if got.is_none() { "stopped-early" } else { "delay" }),
                                    detail: format!("Backoff::new({initial}ms, {max}ms, x{mult}, max_count {max_count}) step {step} (resets at {pat:?}): got {got:?} ms, reference {want:?} ms; sequence {seq:?}"),
                                    replay: json!({"kind": "c19-backoff", "initial": initial, "max": max, "mult": mult, "max_count": max_count, "resets": pat}),
                                });
                                break;
                            }
                        }
                        st.nontrivial(mix(mix(initial * 7 + max, u64::from(mult) * 8 + u64::from(max_count)), idx));
                    }
                }
            }
        }
    }
    // long outages: hundreds of consecutive failures (the client's default is "retry for ever")
    let mut long_runs = 0u64;
    for initial in [1u64, 3, 200] {
        for max in [1u64, 5, 1000, 300_000, 86_400_000] {
            for mult in [1u32, 2, 3, 10] {
                for max_count in [0u32, 150, 400] {
                    for pat in [vec![], vec![100usize], vec![70, 140, 141], vec![399]] {
                        idx += 1;
                        if idx % p.nshards != p.shard {
                            continue;
                        }
                        st.evaluations += 1;
                        long_runs += 1;
                        let res = std::panic::catch_unwind(|| {
                            let mut b = Backoff::new(Duration::from_millis(initial), Duration::from_millis(max), mult, max_count);
                            let mut r = Ref { initial: u128::from(initial), max: u128::from(max), mult: u128::from(mult), max_count, k: 0 };
                            for step in 0..400usize {
                                if pat.contains(&step) {
                                    b.reset();
                                    r.reset();
                                }
                                let got = b.advance().map(|d| d.as_millis());
                                let want = r.advance();
                                if got != want {
                                    return Some((step, got, want));
                                }
                            }
                            None
                        });
                        let replay = json!({"kind": "c19-backoff-long", "initial": initial, "max": max, "mult": mult, "max_count": max_count, "resets": pat, "advances": 400});
                        match res {
                            Ok(None) => {}
                            Ok(Some((step, got, want))) => st.violation(Violation {
                                signature: format!("backoff-mismatch|long|{}", if want.is_none() { "should-stop" } else if got.is_none() { "stopped-early" } else { "delay" }),
                                detail: format!("Backoff::new({initial}ms, {max}ms, x{mult}, max_count {max_count}), resets at {pat:?}: advance #{step} returned {got:?} ms, reference {want:?} ms"),
                                replay,
                            }),
                            Err(e) => {
                                let msg = e.downcast_ref::<String>().cloned().or_else(|| e.downcast_ref::<&str>().map(|s| (*s).to_string())).unwrap_or_else(|| "panic".into());
                                st.violation(Violation {
                                    signature: "backoff-panic|long".into(),
                                    detail: format!("Backoff::new({initial}ms, {max}ms, x{mult}, max_count {max_count}), resets at {pat:?}: advance() panicked within 400 consecutive advances: {msg} (a client retrying for ever dies after that many failed attempts)"),
                                    replay,
                                });
                            }
                        }
                        st.nontrivial(mix(mix(initial * 11 + max, u64::from(mult) * 8 + u64::from(max_count)), idx));
                    }
                }
            }
        }
    }
    st.target("backoff_long_outage_runs", long_runs);
    st.target("backoff_tuples_x_reset_patterns", st.evaluations);
    st.exhaustive.push("back-off generator: 4x5x3x6 parameter tuples x 79 reset patterns over 12 advances".into());
    st.sample(json!({"tuple": "initial 200ms max 1000ms x2 max_count 3", "expected": ["200", "400", "800", "None", "None"]}));
    (st, RULE)
}
