//! Offline checkers over the event log of one run (wire tap + hook events +
//! API history, in one total order). Each rule family implements exactly what
//! one property states (DESIGN.md appendix A); a check enables only the
//! families of its own property.

use crate::sim::{Api, Ev, Rec, WRes, Wm};
use penguin_mux::verif::Kind;
use std::collections::{BTreeMap, HashMap};

#[derive(Clone, Copy, Debug, PartialEq, Eq, Hash, PartialOrd, Ord)]
pub enum Fam {
    /// C02: prefix / equality / no cross-talk
    Bytes,
    /// C03: credit accounting on the wire and at the hooks
    Credit,
    /// C05: end-of-stream semantics, BrokenPipe after shutdown / abort
    Eos,
    /// C06: abort semantics, bystanders, leak probe
    Abort,
    /// C07: one stream per request, target, initial credit, id discipline
    Open,
    /// C04: spurious write failures (stalls are decided by the run outcome)
    Progress,
    /// C11: datagram service
    Dgram,
    /// the connection task must not end while the scenario is healthy
    Alive,
    /// C15: bind requests resolve exactly once with the peer's decision
    Bind,
    /// C08: outcomes after the connection ended (appendix A.3)
    End,
    /// panics anywhere in the repository's code
    Panic,
}

#[derive(Clone, Debug)]
pub struct Finding {
    pub fam: Fam,
    pub sig: String,
    pub detail: String,
    pub at: usize,
}

#[derive(Default, Clone, Debug)]
struct Side {
    have: bool,
    opened: bool,
    key: usize,
    flow: u32,
    hook_credit: u32,
    held: bool,
    // writing direction from this side
    invoked: u64,
    accepted: u64,
    ok_writes: u64,
    failed_writes: u64,
    pending_write: Option<usize>,
    shut_returned: bool,
    shut_ret_at: Option<usize>,
    reset_dlv_at: Option<usize>,
    shut_called: bool,
    finished_total: Option<u64>,
    aborted_total: Option<u64>,
    dropped: bool,
    reset_delivered: bool,
    finish_delivered: bool,
    // reading on this side
    got: u64,
    eof: bool,
    // credit (this side as sender)
    window_out: Option<u32>,
    taken: u64,
    acks_in: u64,
    pushes_out: u64,
    // credit (this side as receiver)
    consumed: u64,
    acks_out: u64,
    handshake_ack_sent: bool,
    reset_sent_while_held: bool,
    /// the application's first shutdown() on this stream was called after the peer's Reset of it had been delivered
    shut_call_after_reset: bool,
    /// payload bytes of Push frames delivered to this endpoint for this stream
    dlv_bytes: u64,
    dlv_bytes_at_reset: Option<u64>,
}

#[derive(Default, Clone, Debug)]
struct Stream {
    s: [Side; 2],
    open_calls: u32,
    open_oks: u32,
    accepts: u32,
}

#[derive(Default)]
pub struct Counters {
    pub c: BTreeMap<&'static str, u64>,
    /// interleaving hash of the execution (task-poll order and wire-message order), set by the runner
    pub run_hash: u64,
}

impl Counters {
    fn add(&mut self, k: &'static str, n: u64) {
        *self.c.entry(k).or_default() += n;
    }
    pub fn get(&self, k: &str) -> u64 {
        self.c.get(k).copied().unwrap_or(0)
    }
}

pub struct Analysis {
    pub findings: Vec<Finding>,
    pub counters: Counters,
}

struct Ctx<'a> {
    fams: &'a [Fam],
    out: Vec<Finding>,
}

impl Ctx<'_> {
    fn on(&self, f: Fam) -> bool {
        self.fams.contains(&f)
    }
    fn fail(&mut self, fam: Fam, at: usize, sig: impl Into<String>, detail: impl Into<String>) {
        if self.on(fam) && self.out.len() < 32 {
            self.out.push(Finding { fam, sig: sig.into(), detail: detail.into(), at });
        }
    }
}

/// Options describing what the scenario did, which the oracles need to stay sound.
#[derive(Clone, Debug, Default)]
pub struct Meta {
    /// a fault plan / early mux drop was part of the scenario: end-of-run equalities are skipped
    pub abnormal_end: bool,
    /// datagram buffer capacity per endpoint (receiver side)
    pub dgram_cap: [usize; 2],
    /// expected total bytes per (sid, from_ep) when the writer runs to completion
    pub stream_is_bridge: bool,
    /// single-threaded engine: log order == execution order (enables rules that need it)
    pub sim: bool,
    pub binds: Vec<BindMeta>,
    /// expected result of the connection task of endpoint 0 after the injected fault (prefix match), if any
    pub expect_task_ret: Option<String>,
}

#[derive(Clone, Debug)]
pub struct BindMeta {
    pub id: u64,
    pub from: u8,
    pub port: u16,
    /// "accept" | "reject" | "drop" | "never"
    pub answer: &'static str,
    pub responder_enabled: bool,
}

pub fn analyse(log: &[Rec], fams: &[Fam], meta: &Meta) -> Analysis {
    let mut cx = Ctx { fams, out: Vec::new() };
    let mut cnt = Counters::default();
    let mut streams: BTreeMap<u32, Stream> = BTreeMap::new();
    // key -> (sid, ep) of the incarnation currently bound to that key
    let mut by_key: HashMap<usize, (u32, usize)> = HashMap::new();
    // (ep, flow) -> sid of the live incarnation on that endpoint
    let mut by_flow: HashMap<(usize, u32), u32> = HashMap::new();
    // (ep, flow) -> Connect sent by ep awaiting its handshake Acknowledge
    let mut pending_connect: HashMap<(usize, u32), u32> = HashMap::new();
    // windows seen on the wire: (receiver-of-window ep, flow) -> rwnd granted by the peer
    let mut granted: HashMap<(usize, u32), u32> = HashMap::new();
    // (ep, flow): ep received Connect(flow) and has not yet answered it
    let mut handshake_out: std::collections::HashSet<(usize, u32)> = std::collections::HashSet::new();
    let mut bind_wire_flow: HashMap<u16, u32> = HashMap::new();
    let mut bind_replied: HashMap<u64, String> = HashMap::new();
    let mut bind_ret_seen: HashMap<u64, u32> = HashMap::new();
    let mut teardown = false;
    let mut fault_first = false;
    let mut task_ret_at: [Option<usize>; 2] = [None, None];
    let mut flows_seen: std::collections::HashSet<(usize, u32)> = std::collections::HashSet::new();
    let mut conn_end = false;
    let mut conn_end_ep = [false; 2];
    // datagrams
    let mut dg_sent_ok: [Vec<u64>; 2] = [vec![], vec![]];
    let mut dg_next_match: [usize; 2] = [0, 0];
    let mut dg_occ = [0usize; 2];
    let mut dg_licence = [0u64; 2];
    let mut dg_drained = [false; 2];
    let mut dg_delivered = [0u64; 2];
    let mut dg_received = [0u64; 2];
    let mut dg_wire_sent = [0u64; 2];
    let mut dg_host_len: HashMap<u64, usize> = HashMap::new();
    let mut dg_refused_pending: HashMap<u64, bool> = HashMap::new();

    for (i, rec) in log.iter().enumerate() {
        match &rec.ev {
            Ev::Fault { ep, what } => {
                if *ep == 255 {
                    cx.fail(Fam::Panic, i, format!("panic|{}", what.split(':').nth(1).unwrap_or("").trim().chars().take(60).collect::<String>()), format!("a task panicked: {what}"));
                } else {
                    if !conn_end && !teardown {
                        fault_first = true;
                    }
                    conn_end = true;
                    conn_end_ep[*ep as usize] = true;
                    conn_end_ep[1 - *ep as usize] = true;
                }
            }
            Ev::TaskRet { ep, res } => {
                task_ret_at[*ep as usize] = Some(i);
                if *ep == 0 {
                    if let (Some(want), true) = (&meta.expect_task_ret, fault_first) {
                        if !res.starts_with(want.as_str()) {
                            cx.fail(Fam::End, i, format!("task-result|{res}|want={want}"), format!("ep0: the connection task returned {res}; the injected cause prescribes {want}"));
                        }
                    }
                }
                if !conn_end {
                    cx.fail(Fam::Alive, i, format!("task-ended|{res}"), format!("ep{ep}: the connection task returned {res} although nobody closed the connection"));
                }
                conn_end = true;
                conn_end_ep[*ep as usize] = true;
            }
            Ev::Hook { key, kind, .. } => {
                let Some(&(sid, e)) = by_key.get(key) else {
                    if matches!(kind, Kind::WindowOverrun) {
                        cnt.add("window_overrun", 1);
                        cx.fail(Fam::Credit, i, "window-overrun", "the connection task found a receive queue full: the peer sent more Push frames than the window allows");
                    }
                    continue;
                };
                let st = streams.get_mut(&sid).expect("stream");
                match kind {
                    Kind::CreditTaken { .. } => {
                        let s = &mut st.s[e];
                        s.taken += 1;
                        cnt.add("credit_taken", 1);
                        if let Some(w) = s.window_out {
                            if s.taken > s.acks_in + u64::from(w) {
                                let (t, a) = (s.taken, s.acks_in);
                                cx.fail(Fam::Credit, i, "credit-overdraw", format!("ep{e} stream s{sid}: {t} units of credit taken with only {a} acknowledged and a window of {w} (R1)"));
                            }
                        }
                    }
                    Kind::FrameConsumed => {
                        st.s[e].consumed += 1;
                        cnt.add("frame_consumed", 1);
                    }
                    Kind::CreditSeenZero => cnt.add("writer_blocked_at_zero", 1),
                    Kind::AckApplied { .. } => cnt.add("ack_applied", 1),
                    _ => {}
                }
            }
            Ev::Sent { ep, m } => {
                let e = *ep as usize;
                match m {
                    Wm::Connect { id, .. } => {
                        cnt.add("connect_sent", 1);
                        if *id == 0 {
                            cx.fail(Fam::Open, i, "connect-id-zero", format!("ep{e} proposed flow id 0"));
                        }
                        if let Some(sid) = by_flow.get(&(e, *id)) {
                            let st = &streams[sid];
                            if st.s[e].held {
                                cx.fail(Fam::Open, i, "connect-id-in-use", format!("ep{e} proposed flow id {id:x} which it already uses for s{sid}"));
                            }
                        }
                        pending_connect.insert((e, *id), 0);
                    }
                    Wm::Push { id, .. } => {
                        cnt.add("push_sent", 1);
                        if let Some(sid) = by_flow.get(&(e, *id)).copied() {
                            let s = &mut streams.get_mut(&sid).expect("stream").s[e];
                            s.pushes_out += 1;
                            if s.pushes_out > s.taken {
                                let (p, t) = (s.pushes_out, s.taken);
                                cx.fail(Fam::Credit, i, "push-without-credit", format!("ep{e} s{sid}: {p} Push frames on the wire but only {t} units of credit were obtained (R2)"));
                            }
                            if let Some(w) = s.window_out {
                                if s.pushes_out > s.acks_in + u64::from(w) {
                                    let (p, a) = (s.pushes_out, s.acks_in);
                                    cx.fail(Fam::Credit, i, "window-exceeded-on-wire", format!("ep{e} s{sid}: {p} Push frames sent, {a} credit returned, peer window {w}"));
                                }
                            }
                        }
                    }
                    Wm::Ack { id, n } => {
                        // handshake acknowledgement or credit return?
                        if handshake_out.remove(&(e, *id)) {
                            cnt.add("handshake_ack_sent", 1);
                        } else if let Some(sid) = by_flow.get(&(e, *id)).copied() {
                            let s = &mut streams.get_mut(&sid).expect("stream").s[e];
                            {
                                s.acks_out += u64::from(*n);
                                cnt.add("ack_sent", 1);
                                if s.acks_out > s.consumed {
                                    let (a, c) = (s.acks_out, s.consumed);
                                    cx.fail(Fam::Credit, i, "ack-unconsumed", format!("ep{e} s{sid}: acknowledged {a} frames in total but the application consumed only {c} (R3)"));
                                }
                            }
                        } else {
                            // handshake Ack is sent before the application logs `Accepted`
                            cnt.add("ack_sent_unbound", 1);
                        }
                    }
                    Wm::Reset { id } => {
                        cnt.add("reset_sent", 1);
                        handshake_out.remove(&(e, *id));
                        if let Some(sid) = by_flow.get(&(e, *id)).copied() {
                            let s = &mut streams.get_mut(&sid).expect("stream").s[e];
                            if s.held && !s.dropped && !s.reset_delivered && !conn_end && !meta.stream_is_bridge {
                                s.reset_sent_while_held = true;
                                cx.fail(Fam::Credit, i, "reset-of-live-flow", format!("ep{e} sent Reset for s{sid} (flow {id:x}) although its application still holds the stream and the peer did not reset it"));
                            }
                            // "Reset from the peer closes the local slot without answering": while the application still holds the
                            // stream (so no drop of its own can be the cause - a drop is logged before it is carried out) a Reset that
                            // follows the delivery of the peer's Reset for this very incarnation can only be an answer to it. Such a
                            // frame outlives the stream on both ends and hits whatever uses the id next.
                            if s.held && !s.dropped && s.reset_delivered && !conn_end && !meta.stream_is_bridge {
                                cnt.add("reset_echoes", 1);
                                cx.fail(Fam::Abort, i, "reset-echoed", format!("ep{e} sent Reset for s{sid} (flow {id:x}) after the peer's Reset of that stream had been delivered to it and while its application had not dropped the stream: a Reset was answered with a Reset"));
                            }
                        }
                    }
                    Wm::Finish { id } => {
                        // a stream the peer has aborted is gone: a shutdown() called on the handle afterwards (log order: the call
                        // follows the delivery of the Reset, and it is the first shutdown, so no Finish can have been queued
                        // earlier) has nothing to say on the wire - the id may already belong to another stream
                        if let Some(sid) = by_flow.get(&(e, *id)).copied() {
                            let s = &streams[&sid].s[e];
                            if meta.sim && s.shut_call_after_reset && !meta.stream_is_bridge {
                                cnt.add("finish_after_peer_abort", 1);
                                cx.fail(Fam::Abort, i, "finish-after-peer-abort", format!("ep{e} sent Finish for s{sid} (flow {id:x}) although the peer's Reset of that stream had been delivered before the application called shutdown(): the stream no longer exists, the frame belongs to nobody (or to whoever uses the id next)"));
                                cx.fail(Fam::Eos, i, "finish-after-peer-abort", format!("ep{e} sent Finish for s{sid} (flow {id:x}) after the peer's Reset of that stream had been delivered and only then shutdown() was called"));
                            }
                        }
                    }
                    Wm::Bind { id, port, .. } => {
                        bind_wire_flow.insert(*port, *id);
                        cnt.add("bind_sent", 1);
                    }
                    Wm::Dgram { .. } => {
                        cnt.add("dgram_on_wire", 1);
                        dg_wire_sent[e] += 1;
                    }
                    _ => {}
                }
            }
            Ev::Dlv { ep, m } => {
                let e = *ep as usize;
                match m {
                    Wm::Connect { id, rwnd, .. } => {
                        granted.insert((e, *id), *rwnd);
                        handshake_out.insert((e, *id));
                    }
                    Wm::Ack { id, n } => {
                        if pending_connect.remove(&(e, *id)).is_some() {
                            granted.insert((e, *id), *n);
                        } else if let Some(sid) = by_flow.get(&(e, *id)).copied() {
                            let s = &mut streams.get_mut(&sid).expect("stream").s[e];
                            s.acks_in += u64::from(*n);
                            if s.pending_write.is_some() {
                                cnt.add("ack_raced_write", 1);
                            }
                        }
                    }
                    Wm::Reset { id } => {
                        pending_connect.remove(&(e, *id));
                        if let Some(sid) = by_flow.get(&(e, *id)).copied() {
                            let s = &mut streams.get_mut(&sid).expect("stream").s[e];
                            s.reset_delivered = true;
                            if s.dlv_bytes_at_reset.is_none() {
                                s.dlv_bytes_at_reset = Some(s.dlv_bytes);
                            }
                            if s.reset_dlv_at.is_none() {
                                s.reset_dlv_at = Some(i);
                            }
                        }
                    }
                    Wm::Finish { id } => {
                        if let Some(sid) = by_flow.get(&(e, *id)).copied() {
                            streams.get_mut(&sid).expect("stream").s[e].finish_delivered = true;
                        }
                    }
                    Wm::Push { id, len, .. } => {
                        if let Some(sid) = by_flow.get(&(e, *id)).copied() {
                            streams.get_mut(&sid).expect("stream").s[e].dlv_bytes += *len as u64;
                        }
                    }
                    Wm::Dgram { .. } => {
                        dg_delivered[e] += 1;
                        let cap = meta.dgram_cap[e].max(1);
                        if dg_occ[e] >= cap {
                            dg_licence[e] += 1;
                            cnt.add("dgram_arrived_at_full_buffer", 1);
                        } else {
                            dg_occ[e] += 1;
                        }
                    }
                    _ => {}
                }
            }
            Ev::Api { ep, sid, op } => {
                let e = *ep as usize;
                let p = 1 - e;
                match op {
                    Api::OpenCall => {
                        streams.entry(*sid).or_default().open_calls += 1;
                    }
                    Api::OpenRet { ok, key, flow, credit, err } => {
                        let st = streams.entry(*sid).or_default();
                        if *ok {
                            st.open_oks += 1;
                            cnt.add("streams_opened", 1);
                            bind_side(st, e, true, *key, *flow, *credit, &granted);
                            by_key.insert(*key, (*sid, e));
                            by_flow.insert((e, *flow), *sid);
                            let reused = !flows_seen.insert((e, *flow));
                            if reused {
                                cnt.add("id_reused_streams", 1);
                            }
                            check_initial_credit(&mut cx, i, st, e, *sid, reused);
                        } else {
                            cnt.add("opens_failed", 1);
                            if conn_end && err != "Closed" {
                                cx.fail(Fam::End, i, format!("open-error|{err}"), format!("ep{e} s{sid}: new_stream_channel failed with {err} instead of Closed after the connection ended"));
                            }
                            if !conn_end {
                                cx.fail(Fam::Progress, i, format!("open-failed|{err}"), format!("ep{e} s{sid}: new_stream_channel failed with {err} on a healthy connection"));
                            }
                        }
                    }
                    Api::Accepted { key, flow, credit, host_ok } => {
                        if *sid == u32::MAX {
                            cx.fail(Fam::Open, i, "accepted-unknown-target", format!("ep{e} accepted a stream whose target host/port matches no request"));
                            continue;
                        }
                        let st = streams.entry(*sid).or_default();
                        st.accepts += 1;
                        cnt.add("streams_accepted", 1);
                        if st.accepts > 1 {
                            cx.fail(Fam::Open, i, "duplicate-accept", format!("request s{sid} produced {} streams on the accepting endpoint", st.accepts));
                        }
                        if !*host_ok {
                            cx.fail(Fam::Open, i, "target-mismatch", format!("ep{e} s{sid}: the accepted stream's dest_host/dest_port differ from the requested bytes"));
                        }
                        bind_side(st, e, false, *key, *flow, *credit, &granted);
                        by_key.insert(*key, (*sid, e));
                        by_flow.insert((e, *flow), *sid);
                        let reused = !flows_seen.insert((e, *flow));
                        if reused {
                            cnt.add("id_reused_streams", 1);
                        }
                        check_initial_credit(&mut cx, i, st, e, *sid, reused);
                    }
                    Api::WriteCall { n, .. } => {
                        let Some(st) = streams.get_mut(sid) else { continue };
                        let s = &mut st.s[e];
                        s.invoked += *n as u64;
                        s.pending_write = Some(i);
                        cnt.add("writes", 1);
                        if *n == 0 {
                            cnt.add("zero_length_writes", 1);
                        }
                    }
                    Api::WriteRet { res } => {
                        let Some(st) = streams.get_mut(sid) else { continue };
                        let call_at = st.s[e].pending_write.take();
                        // state at the time of the *call*
                        let (shut_before_call, reset_before_call) = {
                            let s = &st.s[e];
                            let c = call_at.unwrap_or(i);
                            (s.shut_ret_at.is_some_and(|t| t < c), meta.sim && s.reset_dlv_at.is_some_and(|t| t < c))
                        };
                        match res {
                            WRes::Ok(m) => {
                                if let (Some(t), Some(c)) = (task_ret_at[e], call_at) {
                                    if c > t && meta.sim {
                                        cx.fail(Fam::End, i, "write-after-teardown-succeeded", format!("ep{e} s{sid}: a write invoked after the connection task had returned succeeded"));
                                    }
                                }
                                st.s[e].accepted += *m as u64;
                                st.s[e].ok_writes += 1;
                                if shut_before_call {
                                    cx.fail(Fam::Eos, i, "write-after-shutdown-succeeded", format!("ep{e} s{sid}: a write invoked after the local shutdown returned succeeded instead of failing with BrokenPipe"));
                                }
                                if reset_before_call && !conn_end {
                                    cx.fail(Fam::Eos, i, "write-after-peer-abort-succeeded", format!("ep{e} s{sid}: a write invoked after the peer's Reset was delivered succeeded instead of failing with BrokenPipe"));
                                    cx.fail(Fam::Abort, i, "write-after-peer-abort-succeeded", format!("ep{e} s{sid}: a write invoked after the peer's Reset was delivered succeeded instead of failing with BrokenPipe"));
                                }
                            }
                            WRes::BrokenPipe => {
                                st.s[e].failed_writes += 1;
                                cnt.add("broken_pipe", 1);
                                let peer_dropped = st.s[p].dropped;
                                let cause = st.s[e].shut_called || peer_dropped || st.s[e].reset_delivered || conn_end || st.s[e].dropped;
                                if !cause {
                                    cx.fail(Fam::Progress, i, "spurious-broken-pipe", format!("ep{e} s{sid}: write failed with BrokenPipe although nobody shut down, aborted or ended the connection"));
                                    cx.fail(Fam::Abort, i, "stream-closed-by-unrelated-event", format!("ep{e} s{sid}: write failed with BrokenPipe although nobody shut down or aborted this stream and the connection is up"));
                                }
                            }
                            WRes::Other(err) => {
                                st.s[e].failed_writes += 1;
                                cx.fail(Fam::Eos, i, "write-error-kind", format!("ep{e} s{sid}: write failed with {err} instead of BrokenPipe"));
                                cx.fail(Fam::End, i, "write-error-kind", format!("ep{e} s{sid}: write failed with {err} instead of BrokenPipe"));
                            }
                        }
                    }
                    Api::ReadRet { k, bad_at } => {
                        let Some(st) = streams.get_mut(sid) else { continue };
                        cnt.add("reads", 1);
                        if let Some(off) = bad_at {
                            let msg = format!("ep{e} s{sid}: byte at offset {off} of the received stream is not the byte the peer wrote at that offset (corruption / reordering / loss / cross-talk)");
                            cx.fail(Fam::Bytes, i, "content-mismatch", msg.clone());
                            cx.fail(Fam::End, i, "content-mismatch", msg.clone());
                            cx.fail(Fam::Abort, i, "bystander-content-mismatch", msg);
                        }
                        if *k > 0 {
                            st.s[e].got += *k as u64;
                            let (got, inv) = (st.s[e].got, st.s[p].invoked);
                            if got > inv {
                                cx.fail(Fam::Bytes, i, "read-more-than-written", format!("ep{e} s{sid}: {got} bytes read but the peer only ever invoked writes for {inv}"));
                            }
                            if st.s[e].eof {
                                cx.fail(Fam::Eos, i, "data-after-eof", format!("ep{e} s{sid}: data returned after end-of-stream was reported"));
                            }
                        } else {
                            st.s[e].eof = true;
                            cnt.add("eof_seen", 1);
                            if let Some(b) = st.s[e].dlv_bytes_at_reset {
                                cnt.add("eof_after_peer_abort", 1);
                                if st.s[e].got < b && !conn_end {
                                    let got = st.s[e].got;
                                    cx.fail(Fam::Abort, i, "abort-lost-delivered-data", format!("ep{e} s{sid}: the peer aborted; {b} bytes had been delivered to this endpoint before the Reset but the reader got end-of-stream after {got}"));
                                }
                            }
                            // whatever ended the stream: the frames that had reached this endpoint (handed to its connection task by
                            // the transport) while the application still held the stream are read before end-of-stream is reported.
                            // (single-threaded engine only: a frame is dispatched in the same task step in which it is delivered)
                            if meta.sim && !st.s[e].dropped && st.s[e].got < st.s[e].dlv_bytes && !meta.stream_is_bridge {
                                let (got, dlv) = (st.s[e].got, st.s[e].dlv_bytes);
                                cnt.add("eof_with_delivered_data_missing", 1);
                                cx.fail(Fam::End, i, "delivered-data-lost-before-eof", format!("ep{e} s{sid}: {dlv} payload bytes of this stream had been delivered to the endpoint, the reader got end-of-stream after {got}"));
                                cx.fail(Fam::Eos, i, "delivered-data-lost-before-eof", format!("ep{e} s{sid}: {dlv} payload bytes of this stream had been delivered to the endpoint, the reader got end-of-stream after {got}"));
                            }
                            let w = &st.s[p];
                            let peer_closed = w.finished_total.is_some() || w.aborted_total.is_some() || w.shut_called || w.dropped;
                            // the reader itself having been reset by... no: only the peer or the connection may end the stream
                            if !peer_closed && !conn_end {
                                cx.fail(Fam::Eos, i, "premature-eof", format!("ep{e} s{sid}: read returned end-of-stream after {} bytes although the peer neither shut down nor dropped the stream and the connection is up (peer has written {} bytes)", st.s[e].got, w.accepted));
                                cx.fail(Fam::Bytes, i, "premature-eof", format!("ep{e} s{sid}: end-of-stream after {} bytes while the peer is still writing ({} accepted)", st.s[e].got, w.accepted));
                                cx.fail(Fam::Abort, i, "stream-ended-by-unrelated-event", format!("ep{e} s{sid}: end-of-stream after {} bytes although the peer neither finished nor aborted this stream", st.s[e].got));
                            } else if let (Some(total), false) = (w.finished_total, conn_end) {
                                if w.aborted_total.is_none() && st.s[e].got != total && !st.s[e].dropped {
                                    let got = st.s[e].got;
                                    cx.fail(Fam::Eos, i, "eof-before-all-data", format!("ep{e} s{sid}: end-of-stream after {got} bytes but the peer wrote {total} before its clean shutdown"));
                                    cx.fail(Fam::Bytes, i, "eof-before-all-data", format!("ep{e} s{sid}: end-of-stream after {got} bytes but the peer wrote {total} before its clean shutdown"));
                                }
                            }
                        }
                    }
                    Api::ReadErr { err } => {
                        cx.fail(Fam::Eos, i, "read-error", format!("ep{e} s{sid}: read failed with {err}"));
                        cx.fail(Fam::End, i, "read-error", format!("ep{e} s{sid}: read failed with {err} instead of returning the delivered data and then end-of-stream"));
                    }
                    Api::ShutCall => {
                        if let Some(st) = streams.get_mut(sid) {
                            if st.s[e].reset_delivered && !st.s[e].shut_called {
                                st.s[e].shut_call_after_reset = true;
                            }
                            st.s[e].shut_called = true;
                        }
                    }
                    Api::ShutRet => {
                        if let Some(st) = streams.get_mut(sid) {
                            let s = &mut st.s[e];
                            s.shut_returned = true;
                            if s.shut_ret_at.is_none() {
                                s.shut_ret_at = Some(i);
                            }
                            if s.finished_total.is_none() && s.aborted_total.is_none() {
                                s.finished_total = Some(s.accepted);
                            }
                        }
                    }
                    Api::DropStream => {
                        if let Some(st) = streams.get_mut(sid) {
                            let s = &mut st.s[e];
                            s.dropped = true;
                            s.held = false;
                            if s.finished_total.is_none() && s.aborted_total.is_none() {
                                s.aborted_total = Some(s.accepted);
                                cnt.add("aborts", 1);
                            }
                        }
                    }
                    Api::DgSendCall { id, host_len } => {
                        dg_sent_ok[e].push(*id);
                        dg_host_len.insert(*id, *host_len);
                    }
                    Api::DgSendRet { id, res } => {
                        cnt.add("dgram_sends", 1);
                        let long = dg_host_len.get(id).copied().unwrap_or(0) > 255;
                        if res != "Ok" {
                            dg_refused_pending.insert(*id, true);
                            cnt.add("dgram_refused", 1);
                        }
                        if long && res != "DatagramHostTooLong" {
                            cx.fail(Fam::Dgram, i, "long-host-not-refused", format!("ep{e}: send_datagram with a {}-byte target host returned {res} instead of DatagramHostTooLong", dg_host_len[id]));
                        }
                        if !long && res != "Ok" && res != "Closed" {
                            cx.fail(Fam::End, i, format!("send-datagram-error|{res}"), format!("ep{e}: send_datagram failed with {res} instead of Closed"));
                        }
                        if !long && res == "Ok" && meta.sim && task_ret_at[e].is_some() {
                            cx.fail(Fam::End, i, "send-datagram-after-teardown-succeeded", format!("ep{e}: send_datagram succeeded although the connection task had already returned"));
                        }
                        if !long && res != "Ok" && !conn_end {
                            cx.fail(Fam::Dgram, i, format!("send-refused|{res}"), format!("ep{e}: send_datagram with a {}-byte target host failed with {res} on a healthy connection", dg_host_len.get(id).copied().unwrap_or(0)));
                        }
                    }
                    Api::Note(n) if n == "dg-drained" => dg_drained[e] = true,
                    Api::DgRecv { id, fields_ok } => {
                        cnt.add("dgram_received", 1);
                        dg_received[e] += 1;
                        dg_occ[e] = dg_occ[e].saturating_sub(1);
                        if !*fields_ok {
                            cx.fail(Fam::Dgram, i, "dgram-fields", format!("ep{e}: received datagram whose flow id / host / port / payload do not match any datagram the peer sent"));
                            continue;
                        }
                        if dg_refused_pending.contains_key(id) {
                            cx.fail(Fam::Dgram, i, "dgram-refused-but-delivered", format!("ep{e}: datagram #{id} was refused at the sender but delivered anyway"));
                        }
                        // at-most-once + order: must match a not-yet-matched send at or after the previous match
                        let sent = &dg_sent_ok[p];
                        let start = dg_next_match[e];
                        match sent[start.min(sent.len())..].iter().position(|x| x == id) {
                            Some(off) => dg_next_match[e] = start + off + 1,
                            None => {
                                let dup = sent[..start.min(sent.len())].contains(id);
                                cx.fail(Fam::Dgram, i, if dup { "dgram-duplicate-or-reordered" } else { "dgram-never-sent" },
                                    format!("ep{e}: datagram #{id} received {}", if dup { "twice or out of order" } else { "but the peer's send of it did not succeed" }));
                            }
                        }
                    }
                    Api::Probe { ids, .. } => {
                        cnt.add("leak_probes", 1);
                        for id in ids {
                            // a slot is legitimate iff some stream with that flow id is still held by either application
                            let held = streams.values().any(|st| (0..2).any(|x| st.s[x].have && st.s[x].flow == *id && st.s[x].held));
                            if !held {
                                cx.fail(Fam::Abort, i, "flow-table-leak", format!("ep{e}: at a quiescent point the flow table still has an entry for id {id:x} although neither application holds a stream with that id"));
                            }
                        }
                    }
                    Api::MuxDrop => {
                        conn_end = true;
                    }
                    Api::Teardown => teardown = true,
                    Api::AcceptErr { err } => {
                        if err != "Closed" {
                            cx.fail(Fam::End, i, format!("accept-error|{err}"), format!("ep{e}: accept_stream_channel failed with {err} instead of Closed"));
                        }
                        if !conn_end && !teardown {
                            cx.fail(Fam::Alive, i, "accept-closed-early", format!("ep{e}: accept_stream_channel returned {err} although the connection is up"));
                        }
                    }
                    Api::DgRecvErr { err } => {
                        if err != "Closed" {
                            cx.fail(Fam::End, i, format!("get-datagram-error|{err}"), format!("ep{e}: get_datagram failed with {err} instead of Closed"));
                        }
                    }
                    Api::BindNextErr { err } => {
                        if err != "Closed" {
                            cx.fail(Fam::End, i, format!("next-bind-error|{err}"), format!("ep{e}: next_bind_request failed with {err} instead of Closed"));
                        }
                    }
                    Api::BindSeen { id, fields_ok, flow } => {
                        cnt.add("bind_seen", 1);
                        match meta.binds.iter().find(|b| b.id == *id) {
                            None => cx.fail(Fam::Bind, i, "bind-unknown", format!("ep{e}: next_bind_request showed a request that matches nothing the peer asked for")),
                            Some(b) => {
                                if !*fields_ok {
                                    cx.fail(Fam::Bind, i, "bind-fields", format!("ep{e}: bind request #{id} was shown with a different type, host or port than requested"));
                                }
                                if bind_wire_flow.get(&b.port) != Some(flow) {
                                    cx.fail(Fam::Bind, i, "bind-flow-id", format!("ep{e}: bind request #{id} shown under flow id {flow:x}, the requester's Bind frame carried {:?}", bind_wire_flow.get(&b.port)));
                                }
                            }
                        }
                    }
                    Api::BindReply { id, how } => {
                        bind_replied.insert(*id, how.clone());
                    }
                    Api::BindRet { id, res } => {
                        cnt.add("bind_resolved", 1);
                        *bind_ret_seen.entry(*id).or_default() += 1;
                        let Some(b) = meta.binds.iter().find(|b| b.id == *id) else { continue };
                        let ended = conn_end || teardown;
                        let decided = bind_replied.get(id).cloned();
                        let want: Option<&str> = if !b.responder_enabled {
                            Some("false")
                        } else {
                            match decided.as_deref() {
                                Some("accept") => Some("true"),
                                Some(_) => Some("false"),
                                None => None,
                            }
                        };
                        match (want, res.as_str()) {
                            (Some(w), r) if r == w => {
                                if w == "true" {
                                    cnt.add("bind_accepted", 1);
                                }
                            }
                            (_, "Closed") | (_, "false") if ended => {}
                            (Some(w), r) => cx.fail(Fam::Bind, i, format!("bind-wrong-result|decision={}|got={r}", decided.as_deref().unwrap_or(if b.responder_enabled { "none" } else { "binds-disabled" })),
                                format!("ep{e}: bind request #{id} resolved with {r}; the peer application's decision for that very request prescribes {w}")),
                            (None, r) => cx.fail(Fam::Bind, i, format!("bind-answered-while-undecided|got={r}"),
                                format!("ep{e}: bind request #{id} resolved with {r} although the peer application has neither answered nor dropped it and the connection is up")),
                        }
                        if ended && !matches!(res.as_str(), "true" | "false" | "Closed") {
                            cx.fail(Fam::End, i, format!("bind-error|{res}"), format!("ep{e}: request_bind failed with {res} after the connection ended"));
                        }
                    }
                    _ => {}
                }
            }
        }
    }

    // end-of-run rules
    for (sid, st) in &streams {
        if st.open_oks > 1 {
            cx.fail(Fam::Open, log.len(), "duplicate-open", format!("request s{sid} returned {} streams to the requester", st.open_oks));
        }
        if st.open_oks == 1 && st.accepts == 0 && !meta.abnormal_end {
            cx.fail(Fam::Open, log.len(), "open-without-accept", format!("request s{sid} succeeded on the requester but no stream reached the accepting application"));
        }
        for e in 0..2 {
            let (r, w) = (&st.s[e], &st.s[1 - e]);
            if !r.have || !w.have {
                continue;
            }
            // S3: clean shutdown + read to EOF => equal
            if r.eof && w.finished_total.is_some() && w.aborted_total.is_none() && !meta.abnormal_end && !r.reset_delivered {
                if Some(r.got) != w.finished_total {
                    cx.fail(Fam::Bytes, log.len(), "total-mismatch", format!("ep{e} s{sid}: read {} bytes to end-of-stream, the peer wrote {} before shutting down cleanly", r.got, w.finished_total.unwrap_or(0)));
                }
            }
            if r.eof && w.aborted_total.is_none() && !meta.abnormal_end && !r.reset_delivered {
                if let Some(t) = w.finished_total {
                    if r.got < t {
                        cx.fail(Fam::Progress, log.len(), "written-bytes-not-readable", format!("ep{e} s{sid}: the reader kept reading to end-of-stream but obtained only {} of the {t} bytes written", r.got));
                    }
                }
            }
            // R4: one write, one frame, one unit
            if !meta.abnormal_end && !meta.stream_is_bridge {
                if w.ok_writes > w.taken || w.taken > w.ok_writes + w.failed_writes {
                    cx.fail(Fam::Credit, log.len(), "write-credit-mismatch", format!("ep{} s{sid}: {} successful and {} failed writes but {} units of credit taken (R4)", 1 - e, w.ok_writes, w.failed_writes, w.taken));
                }
                if w.pushes_out != w.ok_writes {
                    cx.fail(Fam::Credit, log.len(), "write-frame-mismatch", format!("ep{} s{sid}: {} successful writes but {} Push frames on the wire (R4)", 1 - e, w.ok_writes, w.pushes_out));
                }
            }
        }
    }
    // D2: loss only when the buffer was full (or the connection ended)
    for e in 0..2 {
        // after the harness's final drain (SIM: nothing in flight) the real queue is empty: what the model still holds was dropped
        let still_queued = if meta.sim && dg_drained[e] { 0 } else { dg_occ[e] as u64 };
        if !meta.abnormal_end {
            let lost = dg_delivered[e].saturating_sub(dg_received[e]).saturating_sub(still_queued.min(dg_delivered[e]));
            // occupancy accounting already removes licensed losses: delivered = received + queued + licensed
            let accounted = dg_received[e] + still_queued + dg_licence[e];
            if dg_delivered[e] > accounted {
                cx.fail(Fam::Dgram, log.len(), "dgram-lost-with-room", format!("ep{e}: {} datagrams reached the endpoint, {} were received, {} still queued, only {} arrived at a full buffer", dg_delivered[e], dg_received[e], still_queued, dg_licence[e]));
            }
            let _ = lost;
        }
    }
    if !meta.abnormal_end {
        for e in 0..2 {
            let ok_sends = dg_sent_ok[e].iter().filter(|id| !dg_refused_pending.contains_key(id)).count() as u64;
            if dg_wire_sent[e] < ok_sends {
                cx.fail(Fam::Progress, log.len(), "datagram-not-transmitted", format!("ep{e}: {ok_sends} datagrams accepted by send_datagram but only {} were put on the wire by the end of the run", dg_wire_sent[e]));
                // (C11: an accepted datagram is lost only at a full receive buffer or when the connection ends - not at the sender)
                // (simulator only: there the run reaches a quiescent point before anybody lets go of the connection; on real threads
                // a loaded machine may not schedule the connection task before the peer's application ends the connection, and a
                // datagram still queued then is lost to "the connection ends", which the statement allows)
                if meta.sim {
                cx.fail(Fam::Dgram, log.len(), "dgram-accepted-but-not-transmitted", format!("ep{e}: send_datagram accepted {ok_sends} datagrams, only {} Datagram frames were put on the wire although the connection stayed up until the application let go of it", dg_wire_sent[e]));
                }
            }
            if dg_wire_sent[e] > ok_sends {
                cx.fail(Fam::Dgram, log.len(), "refused-datagram-on-wire", format!("ep{e}: {} Datagram frames on the wire but only {ok_sends} sends were accepted", dg_wire_sent[e]));
            }
            if dg_wire_sent[e] != dg_delivered[1 - e] {
                cx.fail(Fam::Progress, log.len(), "datagram-stuck-in-link", format!("ep{e}: {} datagrams sent on the wire, {} delivered to the peer endpoint", dg_wire_sent[e], dg_delivered[1 - e]));
            }
        }
    }
    cnt.add("streams", streams.len() as u64);
    Analysis { findings: cx.out, counters: cnt }
}

fn bind_side(st: &mut Stream, e: usize, opened: bool, key: usize, flow: u32, credit: u32, granted: &HashMap<(usize, u32), u32>) {
    let s = &mut st.s[e];
    s.have = true;
    s.opened = opened;
    s.key = key;
    s.flow = flow;
    s.hook_credit = credit;
    s.held = true;
    s.window_out = granted.get(&(e, flow)).copied();
    // the acceptor's handshake Acknowledge has already left by the time the application sees the stream
    s.handshake_ack_sent = !opened;
}

fn check_initial_credit(cx: &mut Ctx<'_>, i: usize, st: &Stream, e: usize, sid: u32, reused: bool) {
    let s = &st.s[e];
    match s.window_out {
        Some(w) => {
            // the accessor is read right after the stream is handed over: nothing can have been taken yet
            if s.hook_credit != w {
                cx.fail(Fam::Open, i, "initial-credit", format!("ep{e} s{sid}: initial send credit is {} but the peer advertised a window of {w}", s.hook_credit));
                if reused {
                    cx.fail(Fam::Abort, i, "reused-id-initial-credit", format!("ep{e} s{sid}: stream on a re-used flow id starts with send credit {} instead of the advertised window {w} (state of the old stream leaked)", s.hook_credit));
                }
            }
        }
        None => cx.fail(Fam::Open, i, "no-handshake-on-wire", format!("ep{e} s{sid}: stream established without a Connect/Acknowledge for flow {:x} having been delivered", s.flow)),
    }
}

