//! vmux — runtime-monitoring harness for penguin-mux, cow-bytes and penguin-socks.
//! Usage: vmux <property|replay> [--tier quick|thorough] [--seed N] [--shard I] [--nshards K]
//!             [--out FILE] [--scale F] [--key value ...]

#![allow(clippy::all)]

mod c01b;
mod c04;
mod c05x;
mod c06;
mod c07;
mod c08;
mod c09;
mod c10;
mod c12;
mod c13;
mod c15;
mod c16;
mod c18;
mod c19b;
mod endops;
mod c20;
mod memws;
mod raw;
mod monitors;
mod sim;
mod streams;
mod wl;
mod refcodec;
mod util;

use std::collections::BTreeMap;
use util::{Params, Stats};

fn parse_args() -> (String, Params) {
    let mut args = std::env::args().skip(1);
    let cmd = args.next().unwrap_or_else(|| {
        eprintln!("usage: vmux <property> [options]");
        std::process::exit(2);
    });
    let mut p = Params {
        tier_thorough: false,
        seed: 1,
        shard: 0,
        nshards: 1,
        out: None,
        replay: None,
        scale: 1.0,
        extra: BTreeMap::new(),
    };
    let rest: Vec<String> = args.collect();
    let mut i = 0;
    while i < rest.len() {
        let k = rest[i].trim_start_matches("--").to_string();
        let v = rest.get(i + 1).cloned().unwrap_or_default();
        match k.as_str() {
            "tier" => p.tier_thorough = v == "thorough",
            "seed" => p.seed = v.parse().unwrap_or(1),
            "shard" => p.shard = v.parse().unwrap_or(0),
            "nshards" => p.nshards = v.parse::<u64>().unwrap_or(1).max(1),
            "out" => p.out = Some(v),
            "replay" => p.replay = Some(v),
            "scale" => p.scale = v.parse().unwrap_or(1.0),
            _ => {
                p.extra.insert(k, v);
            }
        }
        i += 2;
    }
    (cmd, p)
}

fn main() {
    let (cmd, p) = parse_args();
    let t0 = std::time::Instant::now();
    // engines in which nothing sleeps in real time (see util.rs); THR jobs wait on real timers up to 10 s per run
    if matches!(cmd.as_str(), "c01b" | "c02" | "c03" | "c04" | "c05" | "c06" | "c07" | "c08" | "c10" | "c11" | "c13" | "c15" | "c16") && p.get("engine") != Some("thr") {
        util::start_block_watchdog(cmd.to_uppercase(), p.out.clone(), p.shard, 25);
    }
    let (st, rule): (Stats, &str) = match cmd.as_str() {
        "c01b" => c01b::run(&p),
        "c06" => c06::run(&p),
        "c07" => c07::run(&p),
        "c08" => c08::run(&p),
        "c09" => c09::run(&p),
        "c02" => streams::run_family(&p, &streams::C02),
        "c03" => streams::run_family(&p, &streams::C03),
        "c04" => c04::run(&p),
        "c05" => streams::run_family(&p, &streams::C05),
        "c10" => c10::run(&p),
        "c11" => streams::run_family(&p, &streams::C11),
        "c12" => c12::run(&p),
        "c13" => c13::run(&p),
        "c15" => c15::run(&p),
        "c16" => c16::run(&p),
        "c18" => c18::run(&p),
        "c19b" => c19b::run(&p),
        "c20" => c20::run(&p),
        "noop" => (Stats::new(), "noop"),
        "c07-debug" => {
            c07::debug_thr(p.seed);
            return;
        }
        "c16-debug" => {
            c16::debug(p.get("i").and_then(|x| x.parse().ok()).unwrap_or(2), p.get("t").and_then(|x| x.parse().ok()).unwrap_or(3), p.get("d").and_then(|x| x.parse().ok()).unwrap_or(500), p.get("every").and_then(|x| x.parse().ok()).unwrap_or(2));
            return;
        }
        "c10-debug" => {
            c10::debug(p.get("seq").unwrap_or(""), p.get("run-seed").and_then(|x| x.parse().ok()).unwrap_or(p.seed), p.get("binds").map(|x| x == "1"), p.get("rwnd").and_then(|x| x.parse().ok()).unwrap_or(4), p.get("overrun") == Some("1"));
            return;
        }
        "rerun" => {
            // vmux rerun --prop c02 --run-seed N [--tail K]
            let prop = p.get("prop").unwrap_or("c02").to_string();
            let seed: u64 = p.get("run-seed").and_then(|s| s.parse().ok()).unwrap_or(1);
            let tail: usize = p.get("tail").and_then(|s| s.parse().ok()).unwrap_or(80);
            streams::rerun(&prop, seed, tail);
            return;
        }
        "replay-c09" => (c09::replay(p.get("input").unwrap_or("")), "replay"),
        other => {
            eprintln!("unknown sub-command {other}");
            std::process::exit(2);
        }
    };
    let mut v = st.to_json(&cmd.to_uppercase(), rule);
    v["wall_s"] = serde_json::json!(t0.elapsed().as_secs_f64());
    v["shard"] = serde_json::json!(p.shard);
    let text = serde_json::to_string(&v).expect("json");
    match &p.out {
        Some(path) => std::fs::write(path, text).expect("write result"),
        None => println!("{text}"),
    }
}
