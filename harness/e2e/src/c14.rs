//! C14 — the server opens a tunnel only for fully valid, authenticated upgrade
//! requests, and every other request to /ws is indistinguishable from the same
//! request on an unknown path. E2E engine: a real `run_listener` on loopback,
//! raw HTTP/1.1 requests, responses compared byte-wise (minus `date`).

use crate::net::{self, HttpResp};
use crate::util::{Params, Rng64, Stats, Violation, fnv, mix};
use rusty_penguin_lib::arg::BackendUrl;
use rusty_penguin_lib::server::{State, run_listener};
use serde_json::json;
use std::net::SocketAddr;
use std::str::FromStr;
use std::sync::{Arc, Mutex};
use tokio::io::{AsyncReadExt, AsyncWriteExt};
use tokio::net::TcpListener;

const RULE: &str = "one case = one raw HTTP/1.1 request (plus, where the statement demands indistinguishability, the same request on an unknown path) sent over a real socket to a real run_listener; \
the matrix method x path x {valid, case change, absent, empty, near-miss x2, duplicated-invalid, duplicated-mixed, space-padded} for each of Connection / Upgrade / Sec-WebSocket-Version / Sec-WebSocket-Protocol x key {24 characters, longer, shorter, absent, empty} x request line {HTTP/1.1, HTTP/1.0} x PSK presented {equal, absent, prefix, extended, case variant, padded} \
x server configuration {PSK on/off} x {obfs on/off} x {404 body, stub backend, stub backend with forwarding headers}: all cells with at most two deviations from the valid request are enumerated, random cells beyond. \
Oracle: 101 iff the independent predicate holds, with the accepted protocol and our own SHA-1/base64 accept hash and a live WebSocket behind it (Ping answered, also when the Ping is sent in the same write as the request); otherwise status/headers/body equal the unknown-path response and the stub backend saw the same request. \
Cells the statement leaves open (duplicate header with one valid value, empty key, HTTP/1.0 request line) get no verdict on 101-or-not, but when refused they must be hidden like any other request. Non-trivial = the cell deviates from the valid request in at least one dimension or is answered 101";

const PSK: &str = "S3cr3t-Psk";
const KEY: &str = "dGhlIHNhbXBsZSBub25jZQ==";
const UNKNOWN: &str = "/verif-unknown-path";

#[derive(Clone, Copy, Debug, PartialEq, Eq, Hash)]
enum Hv {
    Valid,
    Case,
    Absent,
    Empty,
    Near1,
    Near2,
    DupInvalid,
    DupMixed,
    Padded,
    /// the valid value followed by a no-break space (U+00A0, octets C2 A0): not optional whitespace, the value is another one
    Nbsp,
    /// a look-alike: one letter replaced by a non-ASCII character that Unicode case folding or trimming maps back (Kelvin sign for k,
    /// long s for s, a leading em space where the value has neither letter)
    LookAlike,
}

const HV_ALTS: [Hv; 10] = [Hv::Case, Hv::Absent, Hv::Empty, Hv::Near1, Hv::Near2, Hv::DupInvalid, Hv::DupMixed, Hv::Padded, Hv::Nbsp, Hv::LookAlike];

#[derive(Clone, Copy, Debug, PartialEq, Eq, Hash)]
enum Psk {
    Equal,
    Absent,
    Prefix,
    Extended,
    CaseVar,
    Padded,
}

#[derive(Clone, Copy, Debug, PartialEq, Eq, Hash)]
struct Cell {
    method: &'static str,
    path: &'static str,
    h: [Hv; 4],
    key: Hv,
    psk: Psk,
    /// the request line says HTTP/1.0 (the connection cannot be upgraded)
    http10: bool,
}

const NAMES: [&str; 4] = ["Connection", "Upgrade", "Sec-WebSocket-Version", "Sec-WebSocket-Protocol"];
// [valid, case-changed, near1, near2]
const VALUES: [[&str; 4]; 4] = [
    ["upgrade", "UpGrade", "upgrade2", "keep-alive, Upgrade"],
    ["websocket", "WebSocket", "websockets", "h2c"],
    ["13", "13", "12", "130"],
    ["penguin-v7", "Penguin-V7", "penguin-v6", "penguin-v70"],
];

fn header_lines(i: usize, v: Hv) -> Vec<String> {
    let n = NAMES[i];
    let val = VALUES[i];
    match v {
        Hv::Valid => vec![format!("{n}: {}", val[0])],
        Hv::Case => vec![format!("{}: {}", n.to_ascii_uppercase(), val[1])],
        Hv::Absent => vec![],
        Hv::Empty => vec![format!("{n}:")],
        Hv::Near1 => vec![format!("{n}: {}", val[2])],
        Hv::Near2 => vec![format!("{n}: {}", val[3])],
        Hv::DupInvalid => vec![format!("{n}: {}", val[2]), format!("{n}: {}", val[3])],
        Hv::DupMixed => vec![format!("{n}: {}", val[2]), format!("{n}: {}", val[0])],
        Hv::Padded => vec![format!("{n}:   {}  ", val[0])],
        Hv::Nbsp => vec![format!("{n}: {}\u{a0}", val[0])],
        Hv::LookAlike => vec![format!("{n}: {}", ["\u{2003}upgrade", "websoc\u{212a}et", "\u{2003}13", "penguin-v7\u{2003}"][i])],
    }
}

fn request_bytes(c: &Cell, path: &str) -> Vec<u8> {
    let mut s = format!("{} {} HTTP/1.{}\r\nHost: localhost\r\n", c.method, path, if c.http10 { 0 } else { 1 });
    for i in 0..4 {
        for l in header_lines(i, c.h[i]) {
            s.push_str(&l);
            s.push_str("\r\n");
        }
    }
    if let Some(k) = key_value(c.key) {
        s.push_str(&format!("Sec-WebSocket-Key: {k}\r\n"));
    }
    match c.psk {
        Psk::Equal => s.push_str(&format!("X-Penguin-PSK: {PSK}\r\n")),
        Psk::Absent => {}
        Psk::Prefix => s.push_str(&format!("X-Penguin-PSK: {}\r\n", &PSK[..PSK.len() - 1])),
        Psk::Extended => s.push_str(&format!("X-Penguin-PSK: {PSK}x\r\n")),
        Psk::CaseVar => s.push_str(&format!("X-Penguin-PSK: {}\r\n", PSK.to_ascii_lowercase())),
        Psk::Padded => s.push_str(&format!("X-Penguin-PSK: {PSK} x\r\n")),
    }
    if c.method == "POST" || c.method == "PUT" {
        s.push_str("Content-Length: 0\r\n");
    }
    s.push_str("\r\n");
    s.into_bytes()
}

/// The key sent for a cell: the usual 24-character one, a longer and a shorter one (a key is a key: the accept hash covers all of it).
fn key_value(k: Hv) -> Option<&'static str> {
    match k {
        Hv::Valid => Some(KEY),
        Hv::Near1 => Some("dGhlIHNhbXBsZSBub25jZQ==dGhlIHNhbXBsZSBub25jZQ=="),
        Hv::Near2 => Some("c2hvcnQ="),
        Hv::Empty => Some(""),
        _ => None,
    }
}

fn valid_hv(v: Hv) -> bool {
    matches!(v, Hv::Valid | Hv::Case | Hv::Padded)
}

/// Some(true/false) = the statement decides; None = left open by the statement.
fn expect_101(c: &Cell, psk_configured: bool) -> Option<bool> {
    // HTTP/1.0: the statement lists no protocol version; a 1.0 connection cannot be upgraded, so 101-or-not is left open
    if c.h.iter().any(|v| *v == Hv::DupMixed) || c.key == Hv::Empty || c.http10 {
        return None;
    }
    let ok = c.method == "GET" && c.path == "/ws" && c.h.iter().all(|v| valid_hv(*v)) && matches!(c.key, Hv::Valid | Hv::Near1 | Hv::Near2) && (!psk_configured || c.psk == Psk::Equal);
    Some(ok)
}

#[derive(Clone, Debug)]
struct SrvCfg {
    psk: bool,
    obfs: bool,
    backend: bool,
    /// --backend-add-forwarding-headers (only meaningful with a backend)
    fwd: bool,
}

type Recorded = Arc<Mutex<Vec<(String, String, Vec<(String, String)>)>>>;

async fn stub_backend() -> (SocketAddr, Recorded) {
    use hyper::service::service_fn;
    use hyper_util::rt::TokioIo;
    let listener = TcpListener::bind("127.0.0.1:0").await.expect("bind stub");
    let addr = listener.local_addr().expect("addr");
    let rec: Recorded = Arc::new(Mutex::new(Vec::new()));
    let rec2 = rec.clone();
    tokio::spawn(async move {
        loop {
            let Ok((stream, _)) = listener.accept().await else { break };
            let rec3 = rec2.clone();
            tokio::spawn(async move {
                let svc = service_fn(move |req: hyper::Request<hyper::body::Incoming>| {
                    let rec4 = rec3.clone();
                    async move {
                        let mut hs: Vec<(String, String)> = req.headers().iter().map(|(n, v)| (n.as_str().to_string(), String::from_utf8_lossy(v.as_bytes()).to_string())).collect();
                        hs.sort();
                        // the reply is a function of method and headers only (never of the path)
                        let mut id = fnv(req.method().as_str().as_bytes());
                        for (n, v) in &hs {
                            id = mix(id, mix(fnv(n.as_bytes()), fnv(v.as_bytes())));
                        }
                        rec4.lock().unwrap().push((req.method().as_str().to_string(), req.uri().path().to_string(), hs));
                        let body = format!("stub-backend-{id:016x}");
                        Ok::<_, std::convert::Infallible>(hyper::Response::builder().status(200).header("x-stub", format!("{id:x}")).body(http_body_util::Full::new(bytes::Bytes::from(body))).unwrap())
                    }
                });
                hyper::server::conn::http1::Builder::new().serve_connection(TokioIo::new(stream), svc).await.ok();
            });
        }
    });
    (addr, rec)
}

async fn start_server(cfg: &SrvCfg) -> (SocketAddr, Option<Recorded>) {
    let mut rec = None;
    let mut state = State::new().await.expect("state").with_not_found_resp("verif-404-body").obfs(cfg.obfs).with_backend_http2_support(false).backend_add_forwarding_headers(cfg.fwd);
    if cfg.psk {
        let hv: &'static http::HeaderValue = Box::leak(Box::new(http::HeaderValue::from_static(PSK)));
        state = state.with_ws_psk(Some(hv));
    }
    if cfg.backend {
        let (addr, r) = stub_backend().await;
        let url: &'static BackendUrl = Box::leak(Box::new(BackendUrl::from_str(&format!("http://{addr}/")).expect("backend url")));
        state = state.with_backend(Some(url));
        rec = Some(r);
    }
    let listener = TcpListener::bind("127.0.0.1:0").await.expect("bind");
    let addr = listener.local_addr().expect("addr");
    tokio::spawn(run_listener(listener, None, state));
    (addr, rec)
}

fn all_cells(max_dev: usize, rng: &mut Rng64, extra_random: usize) -> Vec<Cell> {
    let base = Cell { method: "GET", path: "/ws", h: [Hv::Valid; 4], key: Hv::Valid, psk: Psk::Equal, http10: false };
    // dimension d -> list of single-deviation mutators
    let mut muts: Vec<Vec<Box<dyn Fn(&mut Cell)>>> = Vec::new();
    muts.push(["POST", "HEAD", "PUT", "OPTIONS"].into_iter().map(|m| Box::new(move |c: &mut Cell| c.method = m) as Box<dyn Fn(&mut Cell)>).collect());
    muts.push(["/ws/", "/WS", "/w", "/health", "/version", "/x"].into_iter().map(|p| Box::new(move |c: &mut Cell| c.path = p) as Box<dyn Fn(&mut Cell)>).collect());
    for i in 0..4 {
        muts.push(HV_ALTS.into_iter().map(|v| Box::new(move |c: &mut Cell| c.h[i] = v) as Box<dyn Fn(&mut Cell)>).collect());
    }
    muts.push([Hv::Absent, Hv::Empty, Hv::Near1, Hv::Near2].into_iter().map(|v| Box::new(move |c: &mut Cell| c.key = v) as Box<dyn Fn(&mut Cell)>).collect());
    muts.push([Psk::Absent, Psk::Prefix, Psk::Extended, Psk::CaseVar, Psk::Padded].into_iter().map(|v| Box::new(move |c: &mut Cell| c.psk = v) as Box<dyn Fn(&mut Cell)>).collect());
    muts.push(vec![Box::new(|c: &mut Cell| c.http10 = true) as Box<dyn Fn(&mut Cell)>]);
    let mut out = vec![base];
    for d1 in 0..muts.len() {
        for m1 in &muts[d1] {
            let mut c = base;
            m1(&mut c);
            out.push(c);
            if max_dev >= 2 {
                for d2 in d1 + 1..muts.len() {
                    for m2 in &muts[d2] {
                        let mut c2 = c;
                        m2(&mut c2);
                        out.push(c2);
                    }
                }
            }
        }
    }
    for _ in 0..extra_random {
        let mut c = base;
        for d in 0..muts.len() {
            if rng.chance(2, 5) {
                rng.pick(&muts[d])(&mut c);
            }
        }
        out.push(c);
    }
    out
}

async fn ws_ping_probe(mut s: tokio::net::TcpStream, leftover: Vec<u8>) -> bool {
    // masked Ping with empty payload; a live WebSocket endpoint answers with Pong (0x8A)
    if s.write_all(&[0x89, 0x80, 1, 2, 3, 4]).await.is_err() {
        return false;
    }
    let mut buf = leftover;
    let mut tmp = [0u8; 64];
    for _ in 0..20 {
        if buf.iter().any(|b| *b == 0x8A) {
            return true;
        }
        match tokio::time::timeout(std::time::Duration::from_secs(5), s.read(&mut tmp)).await {
            Ok(Ok(n)) if n > 0 => buf.extend_from_slice(&tmp[..n]),
            _ => break,
        }
    }
    buf.iter().any(|b| *b == 0x8A)
}

/// The upgrade request and the first WebSocket frame (a masked Ping) in one write: what the server's HTTP layer has read past
/// the request head belongs to the tunnel. Some(true) = a Pong came back behind the 101.
async fn pipelined_ping_probe(addr: SocketAddr, req: &[u8]) -> Option<bool> {
    let mut s = tokio::net::TcpStream::connect(addr).await.ok()?;
    s.set_nodelay(true).ok();
    let mut all = req.to_vec();
    all.extend_from_slice(&[0x89, 0x80, 9, 8, 7, 6]);
    s.write_all(&all).await.ok()?;
    let mut buf = Vec::new();
    let mut tmp = [0u8; 512];
    for _ in 0..40 {
        if let Some(p) = net::find(&buf, b"\r\n\r\n") {
            if !buf.starts_with(b"HTTP/1.1 101") {
                return None;
            }
            if buf[p + 4..].iter().any(|b| *b == 0x8A) {
                return Some(true);
            }
        }
        match tokio::time::timeout(std::time::Duration::from_secs(3), s.read(&mut tmp)).await {
            Ok(Ok(n)) if n > 0 => buf.extend_from_slice(&tmp[..n]),
            _ => break,
        }
    }
    Some(false)
}

/// A pre-shared key that is configured as the empty string is still a configured key: requests without the header, or with any
/// non-empty value, are refused like any other request.
async fn empty_psk_probe(st: &mut Stats) {
    let hv: &'static http::HeaderValue = Box::leak(Box::new(http::HeaderValue::from_static("")));
    let state = State::new().await.expect("state").with_not_found_resp("verif-404-body").with_backend_http2_support(false).with_ws_psk(Some(hv));
    let listener = tokio::net::TcpListener::bind("127.0.0.1:0").await.expect("bind");
    let addr = listener.local_addr().expect("addr");
    let srv = tokio::spawn(rusty_penguin_lib::server::run_listener(listener, None, state));
    let base = Cell { method: "GET", path: "/ws", h: [Hv::Valid; 4], key: Hv::Valid, psk: Psk::Equal, http10: false };
    for (name, psk) in [("absent", Psk::Absent), ("non-empty", Psk::Equal), ("non-empty-2", Psk::Prefix)] {
        st.evaluations += 1;
        let c = Cell { psk, ..base };
        let req = request_bytes(&c, "/ws");
        let twin = request_bytes(&c, "/verif-unknown-path");
        let (Ok((r, _, _)), Ok((t, _, _))) = (net::http_once(addr, &req, false).await, net::http_once(addr, &twin, false).await) else {
            st.inconclusive.push("c14 empty-psk probe: no response".into());
            continue;
        };
        st.target("empty_psk_probes", 1);
        st.nontrivial(mix(fnv(name.as_bytes()), 0xE0));
        if r.status == 101 {
            st.violation(Violation { signature: format!("invalid-upgrade-accepted|psk-empty-string|{name}"), detail: format!("the server is configured with the pre-shared key \"\" (the empty string); an otherwise valid upgrade request with X-Penguin-PSK {name} was answered 101"), replay: json!({"kind": "c14-empty-psk", "presented": name, "request": String::from_utf8_lossy(&req)}) });
        } else if r.status != t.status || r.body != t.body {
            st.violation(Violation { signature: format!("distinguishable|psk-empty-string|{name}"), detail: format!("refused upgrade answered {} / {} bytes, the same request on an unknown path {} / {} bytes", r.status, r.body.len(), t.status, t.body.len()), replay: json!({"kind": "c14-empty-psk", "presented": name}) });
        }
    }
    srv.abort();
}

/// Wrong keys made of arbitrary octets (header values may carry any byte above 0x20 except DEL; hyper accepts them): a refused
/// request is answered exactly like the same request on an unknown path, whatever the key looks like.
async fn psk_bytes_probe(st: &mut Stats) {
    let hv: &'static http::HeaderValue = Box::leak(Box::new(http::HeaderValue::from_static(PSK)));
    let state = State::new().await.expect("state").with_not_found_resp("verif-404-body").with_backend_http2_support(false).with_ws_psk(Some(hv));
    let listener = tokio::net::TcpListener::bind("127.0.0.1:0").await.expect("bind");
    let addr = listener.local_addr().expect("addr");
    let srv = tokio::spawn(rusty_penguin_lib::server::run_listener(listener, None, state));
    let mut keys: Vec<Vec<u8>> = Vec::new();
    for ascii in 0..24usize {
        for tail in [&[0xc3u8, 0xa9][..], &[0xe2, 0x82, 0xac][..], &[0xf0, 0x9f, 0x90, 0xa7][..], &[0xff][..], &[0xc3][..], &[0x80, 0x80][..]] {
            let mut k = vec![b'k'; ascii];
            k.extend_from_slice(tail);
            k.extend_from_slice(b"zz");
            keys.push(k);
        }
    }
    let mk = |path: &str, key: &[u8]| {
        let mut r = format!("GET {path} HTTP/1.1\r\nHost: localhost\r\nConnection: upgrade\r\nUpgrade: websocket\r\nSec-WebSocket-Version: 13\r\nSec-WebSocket-Protocol: penguin-v7\r\nSec-WebSocket-Key: {KEY}\r\nX-Penguin-PSK: ").into_bytes();
        r.extend_from_slice(key);
        r.extend_from_slice(b"\r\n\r\n");
        r
    };
    for key in &keys {
        st.evaluations += 1;
        let (a, b) = (net::http_once(addr, &mk("/ws", key), false).await, net::http_once(addr, &mk("/verif-unknown-path", key), false).await);
        st.target("wrong_psk_octet_patterns", 1);
        let replay = json!({"kind": "c14-psk-bytes", "key": format!("{key:02x?}")});
        match (a, b) {
            (Ok((r, _, _)), Ok((t, _, _))) => {
                if r.status == 101 {
                    st.violation(Violation { signature: "invalid-upgrade-accepted|psk-octets".into(), detail: format!("a wrong key {key:02x?} was answered 101"), replay });
                } else if r.status != t.status || r.body != t.body {
                    st.violation(Violation { signature: "distinguishable|psk-octets".into(), detail: format!("refused upgrade with key {key:02x?}: {} / {} bytes, unknown path: {} / {} bytes", r.status, r.body.len(), t.status, t.body.len()), replay });
                }
            }
            (Err(e), Ok((t, _, _))) => st.violation(Violation { signature: "distinguishable|psk-octets|no-response".into(), detail: format!("the refused upgrade request with key {key:02x?} got no response ({e}); the same request on an unknown path was answered {}", t.status), replay }),
            (_, Err(e)) => st.inconclusive.push(format!("c14 psk-bytes probe: unknown-path twin got no response ({e})")),
        }
    }
    st.nontrivial(mix(0x95C, keys.len() as u64));
    srv.abort();
}

async fn run_cfg(st: &mut Stats, cfg: &SrvCfg, cells: &[Cell]) {
    let (addr, rec) = start_server(cfg).await;
    let cfg_s = format!("psk={} obfs={} backend={} forwarding_headers={}", cfg.psk, cfg.obfs, cfg.backend, cfg.fwd);
    for c in cells {
        st.evaluations += 1;
        let deviates = *c != Cell { method: "GET", path: "/ws", h: [Hv::Valid; 4], key: Hv::Valid, psk: Psk::Equal, http10: false };
        let req = request_bytes(c, c.path);
        let head_only = c.method == "HEAD";
        if let Some(r) = &rec {
            r.lock().unwrap().clear();
        }
        let resp = net::http_once(addr, &req, head_only).await;
        let want = expect_101(c, cfg.psk);
        let replay = |extra: String| json!({"kind": "c14", "config": cfg_s, "cell": format!("{c:?}"), "request": String::from_utf8_lossy(&req), "note": extra});
        let (resp, stream, leftover) = match resp {
            Ok(x) => x,
            Err(e) => {
                st.violation(Violation { signature: format!("no-response|{}", c.method), detail: format!("request got no parseable response ({e}); cell {c:?} [{cfg_s}]"), replay: replay(e.clone()) });
                continue;
            }
        };
        let seen_by_backend = rec.as_ref().map(|r| r.lock().unwrap().clone());
        st.count(&format!("status_{}", resp.status), 1);
        if deviates || resp.status == 101 {
            st.nontrivial(mix(fnv(format!("{c:?}").as_bytes()), fnv(cfg_s.as_bytes())));
        }
        match want {
            None if resp.status == 101 => {
                st.count("unspecified_cells_answered_101", 1);
                continue;
            }
            Some(true) => {
                st.target("expected_101", 1);
                if resp.status != 101 {
                    st.violation(Violation { signature: "valid-upgrade-refused".into(), detail: format!("a fully valid, authenticated upgrade request was answered {} instead of 101; cell {c:?} [{cfg_s}]", resp.status), replay: replay(resp.short()) });
                    continue;
                }
                if resp.header("sec-websocket-protocol") != Some("penguin-v7") {
                    st.violation(Violation { signature: "101-protocol-header".into(), detail: format!("101 response carries Sec-WebSocket-Protocol {:?}", resp.header("sec-websocket-protocol")), replay: replay(resp.short()) });
                }
                let acc = net::ws_accept(key_value(c.key).unwrap_or(KEY));
                if resp.header("sec-websocket-accept") != Some(acc.as_str()) {
                    st.violation(Violation { signature: "101-accept-hash".into(), detail: format!("101 response carries Sec-WebSocket-Accept {:?}, RFC 6455 prescribes {acc}", resp.header("sec-websocket-accept")), replay: replay(resp.short()) });
                }
                if !ws_ping_probe(stream, leftover).await {
                    st.violation(Violation { signature: "101-no-tunnel".into(), detail: "after the 101 response nothing answers a WebSocket Ping: no tunnel was started".into(), replay: replay(resp.short()) });
                } else {
                    st.target("tunnels_probed", 1);
                }
                // (a lost frame costs a 3 s wait: after three of them the point is made)
                let lost_so_far = st.counters.get("pipelined_frames_lost").copied().unwrap_or(0);
                if lost_so_far < 3 {
                match pipelined_ping_probe(addr, &req).await {
                    Some(true) => st.target("tunnels_probed_with_pipelined_frame", 1),
                    Some(false) => {
                        st.count("pipelined_frames_lost", 1);
                        st.violation(Violation { signature: "101-pipelined-frame-lost".into(), detail: "the upgrade request and a WebSocket Ping were sent in one write: the 101 came back but the Ping was never answered (what was read past the request head did not reach the tunnel)".into(), replay: replay(resp.short()) });
                    }
                    None => st.inconclusive.push("c14: pipelined probe got no 101".into()),
                }
                }
            }
            Some(false) | None => {
                // (None: the statement leaves 101-or-not open, but a refusal is "every other request" and must be hidden)
                if want.is_none() {
                    st.count("unspecified_cells_refused", 1);
                } else {
                    st.target("expected_refusal", 1);
                }
                if resp.status == 101 {
                    let why = if c.method != "GET" { "method" } else if c.path != "/ws" { "path" } else if !matches!(c.key, Hv::Valid | Hv::Near1 | Hv::Near2) { "key" } else if cfg.psk && c.psk != Psk::Equal { "psk" } else { "header" };
                    st.violation(Violation { signature: format!("invalid-upgrade-accepted|{why}"), detail: format!("the server answered 101 to a request that is not a fully valid, authenticated upgrade ({why}); cell {c:?} [{cfg_s}]"), replay: replay(resp.short()) });
                    continue;
                }
                let must_hide = c.path == "/ws" || (cfg.obfs && (c.path == "/health" || c.path == "/version"));
                if must_hide {
                    st.target("indistinguishability_comparisons", 1);
                    if let Some(r) = &rec {
                        r.lock().unwrap().clear();
                    }
                    let twin_req = request_bytes(c, UNKNOWN);
                    match net::http_once(addr, &twin_req, head_only).await {
                        Ok((twin, _, _)) => {
                            if twin != resp {
                                st.violation(Violation { signature: format!("distinguishable|{}", if c.path == "/ws" { "ws" } else { "health-version" }),
                                    detail: format!("the response to {} {} differs from the response to the same request on an unknown path: {} vs {}; cell {c:?} [{cfg_s}]", c.method, c.path, resp.short(), twin.short()), replay: replay(twin.short()) });
                            }
                            if let (Some(a), Some(r)) = (&seen_by_backend, &rec) {
                                let b = r.lock().unwrap().clone();
                                let strip = |v: &Vec<(String, String, Vec<(String, String)>)>| v.iter().map(|(m, _p, h)| (m.clone(), h.clone())).collect::<Vec<_>>();
                                if strip(a) != strip(&b) {
                                    st.violation(Violation { signature: "backend-sees-difference".into(), detail: format!("the backend was sent different requests for {} and for the unknown path: {:?} vs {:?}", c.path, strip(a), strip(&b)), replay: replay(String::new()) });
                                }
                            }
                        }
                        Err(e) => st.violation(Violation { signature: "no-response|twin".into(), detail: format!("unknown-path twin got no response: {e}"), replay: replay(e.clone()) }),
                    }
                }
            }
        }
    }
}

pub fn run(p: &Params) -> (Stats, &'static str) {
    let mut st = Stats::new();
    st.engine("E2E", 1);
    rusty_penguin_lib::tls::init_crypto_provider();
    let mut rng = Rng64::new(p.shard_seed("C14"));
    let cells = all_cells(2, &mut rng, if p.tier_thorough { 40_000 } else { 600 });
    st.count("cells_per_configuration", cells.len() as u64);
    let mut cfgs = Vec::new();
    for psk in [false, true] {
        for obfs in [false, true] {
            for backend in [false, true] {
                cfgs.push(SrvCfg { psk, obfs, backend, fwd: false });
            }
            cfgs.push(SrvCfg { psk, obfs, backend: true, fwd: true });
        }
    }
    let rt = tokio::runtime::Builder::new_multi_thread().worker_threads(2).enable_all().build().expect("rt");
    for (i, cfg) in cfgs.iter().enumerate() {
        // each shard takes a slice of the cells of every configuration
        let mine: Vec<Cell> = cells.iter().enumerate().filter(|(j, _)| (*j as u64 + i as u64) % p.nshards == p.shard).map(|(_, c)| *c).collect();
        st.cell("server_configuration", format!("{cfg:?}"));
        rt.block_on(run_cfg(&mut st, cfg, &mine));
        if st.too_many_violations() {
            break;
        }
    }
    if p.shard == 0 {
        rt.block_on(empty_psk_probe(&mut st));
        rt.block_on(psk_bytes_probe(&mut st));
    }
    st.exhaustive.push("all request cells with at most two deviations from the valid upgrade request, x 12 server configurations".into());
    st.sample(json!({"request": String::from_utf8_lossy(&request_bytes(&cells[cells.len().min(100) - 1], "/ws")), "checked": "status 101 iff predicate; else response == response of the same request on /verif-unknown-path"}));
    rt.shutdown_background();
    (st, RULE)
}
