//! C01 — end-to-end transparency of the tunnel. E2E engine: one real server
//! (`run_listener`) and one real client (`client_main_inner`) with remotes of
//! every entry kind on loopback; harness-owned scripted targets and scripted
//! local clients run *conversations* with position-addressed payloads.

use crate::net;
use crate::util::{Params, Rng64, Stats, Violation, mix, prf_mismatch, prf_vec};
use penguin_mux::timing::OptionalDuration;
use rusty_penguin_lib::arg::{ClientArgs, Remote, ServerUrl};
use rusty_penguin_lib::client::{self, HandlerResources};
use rusty_penguin_lib::server::{State, run_listener};
use serde_json::json;
use std::collections::HashMap;
use std::net::SocketAddr;
use std::str::FromStr;
use std::sync::{Arc, Mutex};
use std::time::{Duration, Instant};
use tokio::io::{AsyncRead, AsyncReadExt, AsyncWrite, AsyncWriteExt};
use tokio::net::{TcpListener, TcpStream, UdpSocket, UnixStream};

const RULE: &str = "one case = one conversation through a real client/server pair on loopback: a scripted local client enters through a fixed TCP remote, a Unix-socket remote, SOCKS4, SOCKS4a, SOCKS5 (IPv4 / IPv6 / domain) or HTTP CONNECT (the SOCKS and HTTP front-ends on a TCP port and on a Unix-domain socket) and talks to a scripted target \
(request/response, target-first half-close, simultaneous transfers of several windows, target closes at once, target refuses, target aborts mid-transfer), payloads position-addressed, write chunking and pauses seeded, 1-16 conversations concurrently; \
or LocalHalfCloseThenClose / LocalClosesWhileTargetStreams with a 48 MiB reply of which the client reads a prefix before closing; or HalfCloseThenLiveReply: the client half-closes, the target answers 1-70000 bytes and keeps its connection open until the harness confirms that the client has them) or one UDP exchange: 1-8 local sockets (plain UDP remote and SOCKS5 UDP ASSOCIATE mixed; each SOCKS5 association addresses two different targets datagram by datagram), payloads 0..60000 bytes, target answering 0-3 replies per request. \
Oracle: each side receives exactly the other side's byte stream (prefix always, complete after a half-close), half-close propagates while the other direction continues, the local connection is closed when the target closes/refuses/aborts, an answer sent after the client's half-close arrives within 10 s while the target still holds its connection open (violation only with an idle-process witness); \
every UDP reply carries the tag of the socket that receives it, comes from the address that socket sent to, is not duplicated, and (SOCKS5) parses with a reference RFC 1928 parser to the unmodified payload. \
A hang is a violation only with a process-quiescence witness. Non-trivial = the conversation reached the target or the refusal path was exercised";

#[derive(Clone, Copy, Debug, PartialEq, Eq, Hash)]
enum Entry {
    Fixed,
    Unix,
    Socks4,
    Socks4a,
    Socks5V4,
    Socks5V6,
    Socks5Domain,
    HttpConnect,
    /// the SOCKS front-end on a Unix-domain socket (`[unix:PATH]:socks`)
    UnixSocks5,
    /// the HTTP proxy front-end on a Unix-domain socket (`[unix:PATH]:http`)
    UnixHttp,
}

#[derive(Clone, Copy, Debug, PartialEq, Eq, Hash)]
enum Kind {
    RequestResponse,
    TargetFirstHalfClose,
    Simultaneous,
    TargetClosesAtOnce,
    TargetRefuses,
    TargetAborts,
    /// the local client sends its request, half-closes, reads a prefix of a long reply and closes its socket
    LocalHalfCloseThenClose,
    /// the local client reads a prefix of a long reply and closes its socket without half-closing first
    LocalClosesWhileTargetStreams,
    /// like LocalHalfCloseThenClose, but the client stops reading for a while before it closes (a paused, then cancelled download):
    /// every buffer on the way fills up and the server's writer runs out of credit before the close
    LocalHalfCloseStallThenClose,
    /// the local client sends its request and half-closes; the target answers and KEEPS its connection open until the
    /// harness tells it that the local client has the whole answer (a direct connection delivers the answer at once)
    HalfCloseThenLiveReply,
}

#[derive(Clone, Debug)]
struct Conv {
    id: u64,
    entry: Entry,
    kind: Kind,
    a: usize, // bytes local -> target
    b: usize, // bytes target -> local
    chunk: usize,
    pause_every: usize,
    /// SOCKS and HTTP CONNECT entries: the client does not wait for the proxy's replies - greeting, request and the first bytes of the
    /// conversation go out in one write (an optimistic / pipelining client)
    optimistic: bool,
}

/// What the target observed for one conversation.
#[derive(Clone, Debug, Default)]
struct TargetObs {
    got: usize,
    bad_at: Option<usize>,
    eof: bool,
    err: Option<String>,
    /// long-reply kinds: bytes the target managed to write, and how its writing ended (None = still blocked in write when the observation window closed)
    sent: usize,
    send_end: Option<String>,
    quiescent_when_stuck: bool,
    /// HalfCloseThenLiveReply: the local client confirmed the whole reply while the target still held its connection open
    ack_seen: bool,
}

struct Targets {
    plans: Mutex<HashMap<u64, Conv>>,
    obs: Mutex<HashMap<u64, TargetObs>>,
    seed: u64,
    /// HalfCloseThenLiveReply: out-of-band confirmation from the local client to the target
    acks: Mutex<HashMap<u64, Arc<tokio::sync::Notify>>>,
}

impl Targets {
    fn ack(&self, id: u64) -> Arc<tokio::sync::Notify> {
        self.acks.lock().unwrap().entry(id).or_default().clone()
    }
}

fn key_l(seed: u64, id: u64) -> u64 {
    mix(mix(seed, 0x10CA1), id)
}
fn key_t(seed: u64, id: u64) -> u64 {
    mix(mix(seed, 0x7A46E7), id)
}

async fn send_chunks<W: AsyncWrite + Unpin>(w: &mut W, key: u64, total: usize, chunk: usize, pause_every: usize) -> std::io::Result<()> {
    let mut off = 0usize;
    let mut n = 0usize;
    while off < total {
        let c = chunk.min(total - off);
        w.write_all(&prf_vec(key, off as u64, c)).await?;
        off += c;
        n += 1;
        if pause_every > 0 && n % pause_every == 0 {
            tokio::time::sleep(Duration::from_millis(1)).await;
        }
    }
    w.flush().await
}

/// Read until EOF (or error), checking the PRF stream. Returns (bytes, first bad offset, eof, error).
async fn recv_all<R: AsyncRead + Unpin>(r: &mut R, key: u64) -> (usize, Option<usize>, bool, Option<String>) {
    let mut buf = vec![0u8; 65536];
    let mut got = 0usize;
    let mut bad = None;
    loop {
        match r.read(&mut buf).await {
            Ok(0) => return (got, bad, true, None),
            Ok(n) => {
                if bad.is_none() {
                    bad = prf_mismatch(key, got as u64, &buf[..n]).map(|j| got + j);
                }
                got += n;
            }
            Err(e) => return (got, bad, false, Some(e.kind().to_string())),
        }
    }
}

async fn target_conn(mut s: TcpStream, t: Arc<Targets>) {
    // the first 8 bytes of the local->target stream are the conversation id
    let mut idb = [0u8; 8];
    if s.read_exact(&mut idb).await.is_err() {
        return;
    }
    let id = u64::from_be_bytes(idb);
    let Some(c) = t.plans.lock().unwrap().get(&id).cloned() else { return };
    let (kl, kt) = (key_l(t.seed, id), key_t(t.seed, id));
    let mut obs = TargetObs::default();
    match c.kind {
        Kind::RequestResponse => {
            let (g, bad, eof, err) = recv_all(&mut s, kl).await;
            obs = TargetObs { got: g, bad_at: bad, eof, err, ..TargetObs::default() };
            send_chunks(&mut s, kt, c.b, c.chunk, c.pause_every).await.ok();
            s.shutdown().await.ok();
        }
        Kind::TargetFirstHalfClose => {
            send_chunks(&mut s, kt, c.b, c.chunk, c.pause_every).await.ok();
            s.shutdown().await.ok();
            let (g, bad, eof, err) = recv_all(&mut s, kl).await;
            obs = TargetObs { got: g, bad_at: bad, eof, err, ..TargetObs::default() };
        }
        Kind::Simultaneous => {
            let (mut r, mut w) = s.split();
            let send = async {
                send_chunks(&mut w, kt, c.b, c.chunk, c.pause_every).await.ok();
                w.shutdown().await.ok();
            };
            let recv = recv_all(&mut r, kl);
            let ((), (g, bad, eof, err)) = tokio::join!(send, recv);
            obs = TargetObs { got: g, bad_at: bad, eof, err, ..TargetObs::default() };
        }
        Kind::TargetClosesAtOnce => {
            drop(s);
        }
        Kind::TargetAborts => {
            send_chunks(&mut s, kt, c.b, c.chunk, 0).await.ok();
            tokio::time::sleep(Duration::from_millis(20)).await;
            s.set_linger(Some(Duration::from_secs(0))).ok();
            drop(s);
        }
        Kind::TargetRefuses => {}
        Kind::HalfCloseThenLiveReply => {
            let (g, bad, eof, err) = recv_all(&mut s, kl).await;
            obs = TargetObs { got: g, bad_at: bad, eof, err, ..TargetObs::default() };
            send_chunks(&mut s, kt, c.b, c.chunk, 0).await.ok();
            // keep the connection open until the local client has the whole reply (bounded)
            obs.ack_seen = tokio::time::timeout(Duration::from_secs(20), t.ack(id).notified()).await.is_ok();
            s.shutdown().await.ok();
        }
        Kind::LocalHalfCloseThenClose | Kind::LocalClosesWhileTargetStreams | Kind::LocalHalfCloseStallThenClose => {
            let (mut r, mut w) = s.split();
            let sent = std::sync::atomic::AtomicUsize::new(0);
            let send = async {
                let mut off = 0usize;
                while off < c.b {
                    let n = 65536.min(c.b - off);
                    if let Err(e) = w.write_all(&prf_vec(kt, off as u64, n)).await {
                        return format!("error:{}", e.kind());
                    }
                    off += n;
                    sent.store(off, std::sync::atomic::Ordering::Relaxed);
                }
                w.shutdown().await.ok();
                "completed".to_string()
            };
            let recv = recv_all(&mut r, kl);
            // witness of "stuck": not one more byte was accepted from the target during the last 10 s of a 25 s window
            let both = async { tokio::join!(send, recv) };
            tokio::pin!(both);
            let mut at_15s = None;
            let t_start = Instant::now();
            let res = loop {
                tokio::select! {
                    r = &mut both => break Some(r),
                    () = tokio::time::sleep(Duration::from_millis(250)) => {
                        let el = t_start.elapsed();
                        if at_15s.is_none() && el >= Duration::from_secs(15) {
                            at_15s = Some(sent.load(std::sync::atomic::Ordering::Relaxed));
                        }
                        if el >= Duration::from_secs(25) {
                            break None;
                        }
                    }
                }
            };
            match res {
                Some((how, (g, bad, eof, err))) => obs = TargetObs { got: g, bad_at: bad, eof, err, sent: sent.load(std::sync::atomic::Ordering::Relaxed), send_end: Some(how), quiescent_when_stuck: false, ack_seen: false },
                None => {
                    let now = sent.load(std::sync::atomic::Ordering::Relaxed);
                    obs = TargetObs { sent: now, send_end: None, quiescent_when_stuck: at_15s == Some(now), ..TargetObs::default() };
                }
            }
        }
    }
    t.obs.lock().unwrap().insert(id, obs);
}

async fn target_listener(l: TcpListener, t: Arc<Targets>) {
    loop {
        let Ok((s, _)) = l.accept().await else { break };
        s.set_nodelay(true).ok();
        tokio::spawn(target_conn(s, t.clone()));
    }
}

struct Env {
    fixed_port: u16,
    fixed_refuse_port: u16,
    unix_path: String,
    unix_socks_path: String,
    unix_http_path: String,
    socks_port: u16,
    http_port: u16,
    udp_port: u16,
    target_port: u16,
    refuse_port: u16,
    udp_target_port: u16,
    /// a second UDP target (replies marked 'S'): one SOCKS5 association addresses both
    udp_target2_port: u16,
    /// a third UDP target on [::1] (replies marked 'T'); 0 when the host has no IPv6 loopback
    udp_target6_port: u16,
    /// a name with an IPv6 and an IPv4 address (in that order) while the server cannot open IPv6 sockets for outgoing
    /// traffic: a direct connection from the server falls back to the second address, so must the tunnel
    dual_host: Option<String>,
}

trait Duplex: AsyncRead + AsyncWrite + Unpin + Send {}
impl<T: AsyncRead + AsyncWrite + Unpin + Send> Duplex for T {}

/// Open the local side of a conversation, including the entry handshake.
async fn enter(env: &Env, c: &Conv) -> Result<Box<dyn Duplex>, String> {
    let tport = if c.kind == Kind::TargetRefuses { env.refuse_port } else { env.target_port };
    let e = |what: &str, e: std::io::Error| format!("{what}: {e}");
    match c.entry {
        Entry::Fixed => {
            let p = if c.kind == Kind::TargetRefuses { env.fixed_refuse_port } else { env.fixed_port };
            Ok(Box::new(TcpStream::connect(("127.0.0.1", p)).await.map_err(|x| e("connect fixed", x))?))
        }
        Entry::Unix => Ok(Box::new(UnixStream::connect(&env.unix_path).await.map_err(|x| e("connect unix", x))?)),
        Entry::Socks4 | Entry::Socks4a => {
            let mut s = TcpStream::connect(("127.0.0.1", env.socks_port)).await.map_err(|x| e("connect socks", x))?;
            let mut req = vec![4u8, 1];
            req.extend(tport.to_be_bytes());
            if c.entry == Entry::Socks4 {
                req.extend([127, 0, 0, 1]);
                req.extend(b"verif\0");
            } else {
                req.extend([0, 0, 0, 9]);
                req.extend(b"verif\0");
                req.extend(env.dual_host.as_deref().unwrap_or("localhost").as_bytes());
                req.push(0);
            }
            s.write_all(&req).await.map_err(|x| e("socks4 request", x))?;
            let mut rep = [0u8; 8];
            s.read_exact(&mut rep).await.map_err(|x| e("socks4 reply", x))?;
            if rep[0] != 0 || rep[1] != 90 {
                return Err(format!("socks4 reply {rep:?}"));
            }
            Ok(Box::new(s))
        }
        Entry::Socks5V4 | Entry::Socks5V6 | Entry::Socks5Domain | Entry::UnixSocks5 => {
            let mut s: Box<dyn Duplex> = if c.entry == Entry::UnixSocks5 {
                Box::new(UnixStream::connect(&env.unix_socks_path).await.map_err(|x| e("connect unix socks", x))?)
            } else {
                Box::new(TcpStream::connect(("127.0.0.1", env.socks_port)).await.map_err(|x| e("connect socks", x))?)
            };
            if !c.optimistic {
                s.write_all(&[5, 1, 0]).await.map_err(|x| e("socks5 greeting", x))?;
                let mut m = [0u8; 2];
                s.read_exact(&mut m).await.map_err(|x| e("socks5 method", x))?;
                if m != [5, 0] {
                    return Err(format!("socks5 method reply {m:?}"));
                }
            }
            let mut req = vec![5u8, 1, 0];
            match c.entry {
                Entry::Socks5V4 | Entry::UnixSocks5 => req.extend([1, 127, 0, 0, 1]),
                // (in a multi-address run the server has no usable IPv6 source address: literal IPv6 targets become the name)
                Entry::Socks5V6 if env.dual_host.is_none() => {
                    req.push(4);
                    req.extend(std::net::Ipv6Addr::LOCALHOST.octets());
                }
                _ => {
                    let name = env.dual_host.as_deref().unwrap_or("localhost");
                    req.extend([3, name.len() as u8]);
                    req.extend(name.as_bytes());
                }
            }
            req.extend(tport.to_be_bytes());
            if c.optimistic {
                // greeting + request + the conversation's first 8 bytes (its id) in one write, replies read afterwards
                let mut all = vec![5u8, 1, 0];
                all.extend_from_slice(&req);
                all.extend_from_slice(&c.id.to_be_bytes());
                s.write_all(&all).await.map_err(|x| e("socks5 pipelined handshake", x))?;
                let mut m = [0u8; 2];
                s.read_exact(&mut m).await.map_err(|x| e("socks5 method", x))?;
                if m != [5, 0] {
                    return Err(format!("socks5 method reply {m:?}"));
                }
            } else {
                s.write_all(&req).await.map_err(|x| e("socks5 request", x))?;
            }
            let mut rep = [0u8; 10];
            s.read_exact(&mut rep).await.map_err(|x| e("socks5 reply", x))?;
            if rep[0] != 5 || rep[1] != 0 || rep[2] != 0 || rep[3] != 1 {
                return Err(format!("socks5 reply {rep:?}"));
            }
            Ok(s)
        }
        Entry::HttpConnect | Entry::UnixHttp => {
            let mut s: Box<dyn Duplex> = if c.entry == Entry::UnixHttp {
                Box::new(UnixStream::connect(&env.unix_http_path).await.map_err(|x| e("connect unix http", x))?)
            } else {
                Box::new(TcpStream::connect(("127.0.0.1", env.http_port)).await.map_err(|x| e("connect http", x))?)
            };
            let thost = env.dual_host.as_deref().unwrap_or("127.0.0.1");
            let req = format!("CONNECT {thost}:{tport} HTTP/1.1\r\nHost: {thost}:{tport}\r\n\r\n");
            if c.optimistic {
                // the request head and the first bytes for the tunnel (the conversation's id) in one write: a client that does
                // not wait for the 200 (RFC 9110 9.3.6 allows it; the proxy must still answer, and hand the bytes on)
                let mut all = req.into_bytes();
                all.extend_from_slice(&c.id.to_be_bytes());
                s.write_all(&all).await.map_err(|x| e("http connect with early data", x))?;
            } else {
                s.write_all(req.as_bytes()).await.map_err(|x| e("http connect", x))?;
            }
            let mut head = Vec::new();
            let mut b = [0u8; 1];
            while !head.ends_with(b"\r\n\r\n") {
                let n = s.read(&mut b).await.map_err(|x| e("http reply", x))?;
                if n == 0 {
                    return Err("http proxy closed before replying".into());
                }
                head.push(b[0]);
                if head.len() > 4096 {
                    return Err("http reply too long".into());
                }
            }
            if !head.starts_with(b"HTTP/1.1 200") {
                return Err(format!("http reply {:?}", String::from_utf8_lossy(&head[..head.len().min(40)])));
            }
            Ok(s)
        }
    }
}

#[derive(Debug, Default)]
struct LocalObs {
    entered: bool,
    enter_err: Option<String>,
    got: usize,
    bad_at: Option<usize>,
    eof: bool,
    err: Option<String>,
    write_err: Option<String>,
    /// HalfCloseThenLiveReply: the whole reply had not arrived 10 s after the half-close; Some(process quiescent at that moment)
    live_reply_withheld: Option<bool>,
    live_reply_ms: u64,
}

async fn local_side(env: Arc<Env>, seed: u64, c: Conv, targets: Option<Arc<Targets>>) -> LocalObs {
    let mut o = LocalObs::default();
    let mut s = match enter(&env, &c).await {
        Ok(s) => s,
        Err(e) => {
            o.enter_err = Some(e);
            return o;
        }
    };
    o.entered = true;
    let (kl, kt) = (key_l(seed, c.id), key_t(seed, c.id));
    // (an optimistic SOCKS client has sent the id already, together with its handshake)
    let idb_full = c.id.to_be_bytes();
    let idb: &[u8] = if c.optimistic { &[] } else { &idb_full };
    let finish = |o: &mut LocalObs, r: (usize, Option<usize>, bool, Option<String>)| {
        o.got = r.0;
        o.bad_at = r.1;
        o.eof = r.2;
        o.err = r.3;
    };
    match c.kind {
        Kind::RequestResponse | Kind::TargetClosesAtOnce | Kind::TargetRefuses | Kind::TargetAborts => {
            if let Err(e) = s.write_all(idb).await {
                o.write_err = Some(e.kind().to_string());
            }
            if o.write_err.is_none() {
                if let Err(e) = send_chunks(&mut s, kl, c.a, c.chunk, c.pause_every).await {
                    o.write_err = Some(e.kind().to_string());
                }
            }
            if c.kind == Kind::RequestResponse {
                s.shutdown().await.ok();
            }
            let r = recv_all(&mut s, kt).await;
            finish(&mut o, r);
        }
        Kind::TargetFirstHalfClose => {
            // the id must reach the target first so that it knows its script
            s.write_all(idb).await.ok();
            let r = recv_all(&mut s, kt).await;
            finish(&mut o, r);
            // the opposite direction still works after the target's half-close
            if let Err(e) = send_chunks(&mut s, kl, c.a, c.chunk, c.pause_every).await {
                o.write_err = Some(e.kind().to_string());
            }
            s.shutdown().await.ok();
            // wait until the target has seen our EOF
            tokio::time::sleep(Duration::from_millis(30)).await;
        }
        Kind::LocalHalfCloseThenClose | Kind::LocalClosesWhileTargetStreams | Kind::LocalHalfCloseStallThenClose => {
            s.write_all(idb).await.ok();
            if let Err(e) = send_chunks(&mut s, kl, c.a, c.chunk, c.pause_every).await {
                o.write_err = Some(e.kind().to_string());
            }
            if c.kind != Kind::LocalClosesWhileTargetStreams {
                s.shutdown().await.ok();
            }
            // read a prefix of the (long) reply, then close the socket with the rest unread
            let stop_after = c.chunk.max(1) * 37 % 300_000 + 1;
            let mut buf = vec![0u8; 16384];
            while o.got < stop_after {
                match s.read(&mut buf).await {
                    Ok(0) => {
                        o.eof = true;
                        break;
                    }
                    Ok(n) => {
                        if o.bad_at.is_none() {
                            o.bad_at = prf_mismatch(kt, o.got as u64, &buf[..n]).map(|j| o.got + j);
                        }
                        o.got += n;
                    }
                    Err(e) => {
                        o.err = Some(e.kind().to_string());
                        break;
                    }
                }
            }
            if c.kind == Kind::LocalHalfCloseStallThenClose {
                tokio::time::sleep(Duration::from_millis(600)).await;
            }
            drop(s);
        }
        Kind::HalfCloseThenLiveReply => {
            s.write_all(idb).await.ok();
            if let Err(e) = send_chunks(&mut s, kl, c.a, c.chunk, c.pause_every).await {
                o.write_err = Some(e.kind().to_string());
            }
            s.shutdown().await.ok();
            let t0 = Instant::now();
            // the whole reply must arrive while the target still holds its connection open
            let mut buf = vec![0u8; 16384];
            let deadline = tokio::time::Instant::now() + Duration::from_secs(10);
            while o.got < c.b {
                match tokio::time::timeout_at(deadline, s.read(&mut buf)).await {
                    Err(_) => {
                        let q = tokio::task::spawn_blocking(|| net::process_quiescent(8, Duration::from_millis(60))).await.unwrap_or(false);
                        o.live_reply_withheld = Some(q);
                        break;
                    }
                    Ok(Ok(0)) => {
                        o.eof = true;
                        break;
                    }
                    Ok(Ok(n)) => {
                        if o.bad_at.is_none() {
                            o.bad_at = prf_mismatch(kt, o.got as u64, &buf[..n]).map(|j| o.got + j);
                        }
                        o.got += n;
                    }
                    Ok(Err(e)) => {
                        o.err = Some(e.kind().to_string());
                        break;
                    }
                }
            }
            o.live_reply_ms = t0.elapsed().as_millis() as u64;
            if let Some(t) = &targets {
                t.ack(c.id).notify_one();
            }
            if !o.eof && o.err.is_none() {
                // the rest (nothing, if the reply was complete) up to the target's close
                let before = o.got;
                let r = recv_all(&mut s, mix(kt, 0xDEAD)).await;
                o.got = before + r.0;
                o.eof = r.2;
                o.err = r.3;
            }
        }
        Kind::Simultaneous => {
            s.write_all(idb).await.ok();
            let (mut r, mut w) = tokio::io::split(s);
            let send = async {
                let res = send_chunks(&mut w, kl, c.a, c.chunk, c.pause_every).await;
                w.shutdown().await.ok();
                res
            };
            let (sr, rr) = tokio::join!(send, recv_all(&mut r, kt));
            if let Err(e) = sr {
                o.write_err = Some(e.kind().to_string());
            }
            finish(&mut o, rr);
        }
    }
    o
}

// ------------------------------------------------------------------ UDP

/// Reference parser of the RFC 1928 UDP header (reply direction).
fn parse_socks5_udp(b: &[u8]) -> Result<&[u8], &'static str> {
    if b.len() < 4 {
        return Err("short");
    }
    if b[0] != 0 || b[1] != 0 {
        return Err("rsv");
    }
    if b[2] != 0 {
        return Err("frag");
    }
    let hl = match b[3] {
        1 => 4 + 4 + 2,
        4 => 4 + 16 + 2,
        3 => {
            if b.len() < 5 {
                return Err("short");
            }
            5 + b[4] as usize + 2
        }
        _ => return Err("atyp"),
    };
    if b.len() < hl {
        return Err("short");
    }
    Ok(&b[hl..])
}

#[derive(Debug, Default)]
struct UdpObs {
    sent: usize,
    replies: usize,
    foreign: usize,
    wrong_source: usize,
    duplicates: usize,
    corrupted: usize,
    /// replies produced by the other UDP target than the one the datagram was addressed to
    wrong_target: usize,
    two_targets_used: bool,
    /// datagrams sent / replies received after the socket had been idle for 11 s
    after_idle_sent: usize,
    after_idle_replies: usize,
    /// after 21 s of one-way traffic: datagrams asking for a reply at the first-seen address / replies received
    oneway_then_sent: usize,
    oneway_then_replies: usize,
    bad_header: Vec<String>,
    assoc_err: Option<String>,
    /// SOCKS5: datagrams with FRAG != 0 sent (a relay without reassembly must drop them, RFC 1928 section 7), how many of them
    /// were nevertheless answered by the target, and ordinary datagrams sent / replies received AFTER the fragments
    /// main phase of a SOCKS5 association: datagrams addressed to the second target / distinct requests of those that were answered
    second_target_sent: usize,
    second_target_answered: usize,
    first_target_answered: usize,
    /// churn group (clients coming and going over more than two prune periods): datagrams sent / replies received during the
    /// last phase, after older clients have been forgotten and newcomers have appeared
    churn_late_sent: usize,
    churn_late_replies: usize,
    /// a second UDP socket of the same host using the same association (the ASSOCIATE request named 0.0.0.0:0, RFC 1928 restricts the
    /// source IP address only): datagrams sent from it / replies it received
    second_port_sent: usize,
    second_port_replies: usize,
    /// one association alternating between an IPv4 and an IPv6 target: datagrams sent to / replies received from each
    fam_v4_sent: usize,
    fam_v4_replies: usize,
    fam_v6_sent: usize,
    fam_v6_replies: usize,
    /// requests that ask the target for one EMPTY datagram in reply / empty replies that arrived
    empty_asked: usize,
    empty_got: usize,
    fragments_sent: usize,
    fragments_answered: usize,
    after_frag_sent: usize,
    after_frag_replies: usize,
}

async fn udp_target(sock: UdpSocket, marker: u8) {
    let mut b = vec![0u8; 70000];
    // the address each local client (tag = first 8 bytes) was first seen from: a target that answers late answers there
    let mut first_seen: HashMap<u64, SocketAddr> = HashMap::new();
    loop {
        let Ok((n, mut from)) = sock.recv_from(&mut b).await else { break };
        if n < 10 {
            // untagged probe (e.g. empty datagram): answer once with a marker
            sock.send_to(b"short", from).await.ok();
            continue;
        }
        let tag = u64::from_be_bytes(b[..8].try_into().unwrap());
        let first = *first_seen.entry(tag).or_insert(from);
        if b[9] & 0x80 != 0 {
            // "reply to where you first heard from me"
            from = first;
        }
        if b[9] & 0x40 != 0 {
            // "answer with one empty datagram" (a keep-alive style reply): legal UDP, nothing to tag
            sock.send_to(&[], from).await.ok();
            continue;
        }
        // byte 9 of the request says how many replies (0..=3)
        let k = b[9] % 4;
        for r in 0..k {
            let mut out = vec![marker, r];
            out.extend_from_slice(&b[..n]);
            sock.send_to(&out, from).await.ok();
        }
    }
}

async fn udp_client(env: Arc<Env>, seed: u64, cid: u64, socks5: bool, n: usize, max_payload: usize) -> UdpObs {
    let mut o = UdpObs::default();
    let mut rng = Rng64::new(mix(seed, 0xD6 + cid));
    let sock = UdpSocket::bind("127.0.0.1:0").await.expect("bind udp");
    let mut _ctl = None;
    let dest: SocketAddr = if socks5 {
        // UDP ASSOCIATE
        let r: Result<SocketAddr, String> = async {
            let mut s = TcpStream::connect(("127.0.0.1", env.socks_port)).await.map_err(|e| e.to_string())?;
            s.write_all(&[5, 1, 0]).await.map_err(|e| e.to_string())?;
            let mut m = [0u8; 2];
            s.read_exact(&mut m).await.map_err(|e| e.to_string())?;
            s.write_all(&[5, 3, 0, 1, 0, 0, 0, 0, 0, 0]).await.map_err(|e| e.to_string())?;
            let mut rep = [0u8; 10];
            s.read_exact(&mut rep).await.map_err(|e| e.to_string())?;
            if rep[..4] != [5, 0, 0, 1] {
                return Err(format!("associate reply {rep:?}"));
            }
            let addr = SocketAddr::from(([rep[4], rep[5], rep[6], rep[7]], u16::from_be_bytes([rep[8], rep[9]])));
            _ctl = Some(s);
            Ok(addr)
        }.await;
        match r {
            Ok(a) => a,
            Err(e) => {
                o.assoc_err = Some(e);
                return o;
            }
        }
    } else {
        SocketAddr::from(([127, 0, 0, 1], env.udp_port))
    };
    let mut expected: HashMap<(u32, u8), Vec<u8>> = HashMap::new();
    let mut seen: std::collections::HashSet<(u32, u8)> = std::collections::HashSet::new();
    for seq in 0..n as u32 {
        // request = cid(8) | nreplies-selector(1)... layout: [cid:8][seq low byte? no: keep 4 bytes]
        let plen = match rng.below(6) {
            0 => 0,
            1 => rng.range(1, 3) as usize,
            2 => max_payload,
            _ => rng.below(1200) as usize,
        };
        let mut req = cid.to_be_bytes().to_vec(); // 0..8
        req.push((seq & 0xff) as u8); // 8
        req.push(rng.range(1, 3) as u8); // 9: number of replies
        req.extend((seq).to_be_bytes()); // 10..14
        req.extend(prf_vec(mix(seed, cid * 1000 + u64::from(seq)), 0, plen));
        let k = req[9] % 4;
        // through a SOCKS5 association every datagram names its own target
        let second = socks5 && rng.chance(1, 2);
        if second {
            o.two_targets_used = true;
            o.second_target_sent += usize::from(k > 0);
        }
        for r in 0..k {
            let mut out = vec![if second { b'S' } else { b'R' }, r];
            out.extend_from_slice(&req);
            expected.insert((seq, r), out);
        }
        let wire = if socks5 {
            let mut w = match (&env.dual_host, second) {
                // multi-address run: the first target is addressed by a name whose first address the server cannot use
                (Some(h), false) => {
                    let mut w = vec![0u8, 0, 0, 3, h.len() as u8];
                    w.extend(h.as_bytes());
                    w
                }
                _ => vec![0u8, 0, 0, 1, 127, 0, 0, 1],
            };
            w.extend(if second { env.udp_target2_port } else { env.udp_target_port }.to_be_bytes());
            w.extend(&req);
            w
        } else {
            req.clone()
        };
        if sock.send_to(&wire, dest).await.is_ok() {
            o.sent += 1;
        }
        // collect replies for a short while
        let deadline = Instant::now() + Duration::from_millis(if seq % 4 == 3 { 40 } else { 4 });
        collect(&sock, dest, socks5, cid, &expected, &mut seen, &mut o, deadline).await;
    }
    collect(&sock, dest, socks5, cid, &expected, &mut seen, &mut o, Instant::now() + Duration::from_millis(400)).await;
    {
        // which of the main phase's requests were answered, per target (the marker of the answering target is the first byte)
        let answered_by = |m: u8| {
            let mut seqs: Vec<u32> = seen.iter().filter(|(q, r)| expected.get(&(*q, *r)).is_some_and(|e| e[0] == m)).map(|(q, _)| *q).collect();
            seqs.sort_unstable();
            seqs.dedup();
            seqs.len()
        };
        o.first_target_answered = answered_by(b'R');
        o.second_target_answered = answered_by(b'S');
    }
    // (only clients without the later one-way / idle phases: a datagram for the other address family makes the server set the
    // flow up again on a new socket, which would void the premise of those phases - "the flow is one flow all along")
    if socks5 && env.dual_host.is_none() && env.udp_target6_port != 0 && cid % 4 == 3 {
        // one association, two targets of different address families, alternately (every datagram of an association names its
        // own target): each datagram is to reach its target
        for k in 0..8u32 {
            let v6 = k % 2 == 1;
            let seq = n as u32 + 500 + k;
            let mut req = cid.to_be_bytes().to_vec();
            req.push((seq & 0xff) as u8);
            req.push(1);
            req.extend(seq.to_be_bytes());
            req.extend(prf_vec(mix(seed, cid * 1000 + u64::from(seq)), 0, 20));
            let mut out = vec![if v6 { b'T' } else { b'R' }, 0];
            out.extend_from_slice(&req);
            expected.insert((seq, 0), out);
            let mut w = if v6 {
                let mut w = vec![0u8, 0, 0, 4];
                w.extend(std::net::Ipv6Addr::LOCALHOST.octets());
                w.extend(env.udp_target6_port.to_be_bytes());
                w
            } else {
                let mut w = vec![0u8, 0, 0, 1, 127, 0, 0, 1];
                w.extend(env.udp_target_port.to_be_bytes());
                w
            };
            w.extend(&req);
            if sock.send_to(&w, dest).await.is_ok() {
                if v6 { o.fam_v6_sent += 1 } else { o.fam_v4_sent += 1 }
            }
            collect(&sock, dest, socks5, cid, &expected, &mut seen, &mut o, Instant::now() + Duration::from_millis(120)).await;
        }
        collect(&sock, dest, socks5, cid, &expected, &mut seen, &mut o, Instant::now() + Duration::from_millis(300)).await;
        let base = n as u32 + 500;
        o.fam_v4_replies = (0..8u32).filter(|k| k % 2 == 0 && seen.contains(&(base + k, 0))).count();
        o.fam_v6_replies = (0..8u32).filter(|k| k % 2 == 1 && seen.contains(&(base + k, 0))).count();
    }
    if socks5 && cid % 4 == 3 {
        // the same association used from a second local socket (another source port of the same host)
        if let Ok(sock2) = UdpSocket::bind("127.0.0.1:0").await {
            let mut expected2: HashMap<(u32, u8), Vec<u8>> = HashMap::new();
            let mut seen2: std::collections::HashSet<(u32, u8)> = std::collections::HashSet::new();
            let mut o2 = UdpObs::default();
            for k in 0..5u32 {
                let seq = n as u32 + 600 + k;
                let mut req = cid.to_be_bytes().to_vec();
                req.push((seq & 0xff) as u8);
                req.push(1);
                req.extend(seq.to_be_bytes());
                req.extend(prf_vec(mix(seed, cid * 1000 + u64::from(seq)), 0, 18));
                let mut out = vec![b'R', 0];
                out.extend_from_slice(&req);
                expected2.insert((seq, 0), out);
                let mut w = vec![0u8, 0, 0, 1, 127, 0, 0, 1];
                w.extend(env.udp_target_port.to_be_bytes());
                w.extend(&req);
                if sock2.send_to(&w, dest).await.is_ok() {
                    o.second_port_sent += 1;
                }
                collect(&sock2, dest, socks5, cid, &expected2, &mut seen2, &mut o2, Instant::now() + Duration::from_millis(100)).await;
            }
            collect(&sock2, dest, socks5, cid, &expected2, &mut seen2, &mut o2, Instant::now() + Duration::from_millis(300)).await;
            o.second_port_replies = seen2.len();
            o.foreign += o2.foreign;
            o.corrupted += o2.corrupted;
            o.wrong_source += o2.wrong_source;
            o.duplicates += o2.duplicates;
            for b in o2.bad_header {
                o.bad_header.push(b);
            }
        }
    }
    {
        // replies of length zero (legal UDP; a keep-alive or an empty answer): each must come through like any other
        for k in 0..4u32 {
            let seq = n as u32 + 400 + k;
            let mut req = cid.to_be_bytes().to_vec();
            req.push((seq & 0xff) as u8);
            req.push(0x40);
            req.extend(seq.to_be_bytes());
            req.extend(prf_vec(mix(seed, cid * 1000 + u64::from(seq)), 0, 12));
            let wire = if socks5 {
                let mut w = vec![0u8, 0, 0, 1, 127, 0, 0, 1];
                w.extend(env.udp_target_port.to_be_bytes());
                w.extend(&req);
                w
            } else {
                req.clone()
            };
            if sock.send_to(&wire, dest).await.is_ok() {
                o.empty_asked += 1;
            }
            collect(&sock, dest, socks5, cid, &expected, &mut seen, &mut o, Instant::now() + Duration::from_millis(80)).await;
        }
        collect(&sock, dest, socks5, cid, &expected, &mut seen, &mut o, Instant::now() + Duration::from_millis(250)).await;
    }
    if socks5 {
        // a datagram with FRAG != 0 (legal; an implementation that does not reassemble MUST drop it and nothing else): the
        // association must go on serving ordinary datagrams afterwards
        let base = n as u32 + 300;
        let mk = |seq: u32| {
            let mut req = cid.to_be_bytes().to_vec();
            req.push((seq & 0xff) as u8);
            req.push(1);
            req.extend(seq.to_be_bytes());
            req.extend(prf_vec(mix(seed, cid * 1000 + u64::from(seq)), 0, 40));
            req
        };
        let nfrag = rng.range(1, 3) as u32;
        for k in 0..nfrag {
            let seq = base + k;
            let req = mk(seq);
            let mut out = vec![b'R', 0];
            out.extend_from_slice(&req);
            expected.insert((seq, 0), out);
            let frag = *rng.pick(&[1u8, 2, 0x7f, 0x80, 0x81, 0xff]);
            let mut w = vec![0u8, 0, frag, 1, 127, 0, 0, 1];
            w.extend(env.udp_target_port.to_be_bytes());
            w.extend(&req);
            if sock.send_to(&w, dest).await.is_ok() {
                o.fragments_sent += 1;
            }
            collect(&sock, dest, socks5, cid, &expected, &mut seen, &mut o, Instant::now() + Duration::from_millis(30)).await;
        }
        let before = o.replies;
        for k in 0..6u32 {
            let seq = base + 10 + k;
            let req = mk(seq);
            let mut out = vec![b'R', 0];
            out.extend_from_slice(&req);
            expected.insert((seq, 0), out);
            let mut w = vec![0u8, 0, 0, 1, 127, 0, 0, 1];
            w.extend(env.udp_target_port.to_be_bytes());
            w.extend(&req);
            if sock.send_to(&w, dest).await.is_ok() {
                o.after_frag_sent += 1;
            }
            collect(&sock, dest, socks5, cid, &expected, &mut seen, &mut o, Instant::now() + Duration::from_millis(100)).await;
        }
        collect(&sock, dest, socks5, cid, &expected, &mut seen, &mut o, Instant::now() + Duration::from_millis(300)).await;
        o.fragments_answered = (0..nfrag).filter(|k| seen.contains(&(base + k, 0))).count();
        let _ = before;
        o.after_frag_replies = (0..6u32).filter(|k| seen.contains(&(base + 10 + k, 0))).count();
    }
    if cid % 4 == 1 {
        // one-way traffic for longer than the relay's idle time-out (a datagram every second, no reply asked for), then the
        // target answers to the address it first heard from: the flow is one flow all along, the reply must arrive
        let mk = |seq: u32, flags: u8| {
            let mut req = cid.to_be_bytes().to_vec();
            req.push((seq & 0xff) as u8);
            req.push(flags);
            req.extend(seq.to_be_bytes());
            req.extend(prf_vec(mix(seed, cid * 1000 + u64::from(seq)), 0, 24));
            req
        };
        let wrap = |req: &Vec<u8>| {
            if socks5 {
                let mut w = vec![0u8, 0, 0, 1, 127, 0, 0, 1];
                w.extend(env.udp_target_port.to_be_bytes());
                w.extend(req);
                w
            } else {
                req.clone()
            }
        };
        // (21 s: the relay looks for idle entries every 10 s, so one of its checks falls more than 10 s after the last reply)
        for k in 0..21u32 {
            let req = mk(n as u32 + 100 + k, 0);
            sock.send_to(&wrap(&req), dest).await.ok();
            tokio::time::sleep(Duration::from_millis(1000)).await;
        }
        let before = o.replies;
        for k in 0..4u32 {
            let seq = n as u32 + 200 + k;
            let req = mk(seq, 0x81);
            let mut out = vec![b'R', 0];
            out.extend_from_slice(&req);
            expected.insert((seq, 0), out);
            if sock.send_to(&wrap(&req), dest).await.is_ok() {
                o.oneway_then_sent += 1;
            }
            collect(&sock, dest, socks5, cid, &expected, &mut seen, &mut o, Instant::now() + Duration::from_millis(200)).await;
        }
        collect(&sock, dest, socks5, cid, &expected, &mut seen, &mut o, Instant::now() + Duration::from_millis(400)).await;
        o.oneway_then_replies = o.replies - before;
    }
    if cid % 4 == 0 {
        // the same local socket falls silent for longer than the relay's idle time-out (10 s), then resumes:
        // the first datagram may be lost while the relay is set up again, the flow must not stay dead
        tokio::time::sleep(Duration::from_millis(11_000)).await;
        let before = o.replies;
        for k in 0..6u32 {
            let seq = n as u32 + k;
            let mut req = cid.to_be_bytes().to_vec();
            req.push((seq & 0xff) as u8);
            req.push(1);
            req.extend(seq.to_be_bytes());
            req.extend(prf_vec(mix(seed, cid * 1000 + u64::from(seq)), 0, 32));
            let mut out = vec![b'R', 0];
            out.extend_from_slice(&req);
            expected.insert((seq, 0), out);
            let wire = if socks5 {
                let mut w = vec![0u8, 0, 0, 1, 127, 0, 0, 1];
                w.extend(env.udp_target_port.to_be_bytes());
                w.extend(&req);
                w
            } else {
                req.clone()
            };
            if sock.send_to(&wire, dest).await.is_ok() {
                o.after_idle_sent += 1;
            }
            collect(&sock, dest, socks5, cid, &expected, &mut seen, &mut o, Instant::now() + Duration::from_millis(200)).await;
        }
        collect(&sock, dest, socks5, cid, &expected, &mut seen, &mut o, Instant::now() + Duration::from_millis(400)).await;
        o.after_idle_replies = o.replies - before;
    }
    o
}

/// One member of the churn group on the UDP remote. role 0: three datagrams at the start, then silence (it is forgotten after the
/// prune period); role 1: a datagram every 400 ms for 27 s; role 2: appears after 21.5 s (when the early clients have been
/// forgotten) and sends every 300 ms for 5 s. Every client must go on receiving the replies to its own datagrams, whoever
/// else comes and goes.
async fn udp_churn_client(env: Arc<Env>, seed: u64, cid: u64, role: u8) -> UdpObs {
    let mut o = UdpObs::default();
    let sock = UdpSocket::bind("127.0.0.1:0").await.expect("bind udp");
    let dest = SocketAddr::from(([127, 0, 0, 1], env.udp_port));
    let t0 = Instant::now();
    let mut expected: HashMap<(u32, u8), Vec<u8>> = HashMap::new();
    let mut seen: std::collections::HashSet<(u32, u8)> = std::collections::HashSet::new();
    let (start_ms, every_ms, until_ms): (u64, u64, u64) = match role {
        0 => (0, 100, 300),
        1 => (0, 400, 27_000),
        _ => (21_500, 300, 26_500),
    };
    tokio::time::sleep(Duration::from_millis(start_ms)).await;
    let mut seq = 0u32;
    let mut late_seqs = Vec::new();
    while (t0.elapsed().as_millis() as u64) < until_ms {
        let mut req = cid.to_be_bytes().to_vec();
        req.push((seq & 0xff) as u8);
        req.push(1);
        req.extend(seq.to_be_bytes());
        req.extend(prf_vec(mix(seed, cid * 1000 + u64::from(seq)), 0, 16));
        let mut out = vec![b'R', 0];
        out.extend_from_slice(&req);
        expected.insert((seq, 0), out);
        let late = t0.elapsed().as_millis() as u64 >= 22_000;
        if sock.send_to(&req, dest).await.is_ok() {
            o.sent += 1;
            if late {
                o.churn_late_sent += 1;
                late_seqs.push(seq);
            }
        }
        seq += 1;
        collect(&sock, dest, false, cid, &expected, &mut seen, &mut o, Instant::now() + Duration::from_millis(every_ms)).await;
    }
    collect(&sock, dest, false, cid, &expected, &mut seen, &mut o, Instant::now() + Duration::from_millis(400)).await;
    o.churn_late_replies = late_seqs.iter().filter(|q| seen.contains(&(**q, 0))).count();
    o
}

#[allow(clippy::too_many_arguments)]
async fn collect(sock: &UdpSocket, dest: SocketAddr, socks5: bool, cid: u64, expected: &HashMap<(u32, u8), Vec<u8>>, seen: &mut std::collections::HashSet<(u32, u8)>, o: &mut UdpObs, deadline: Instant) {
    let mut b = vec![0u8; 70000];
    loop {
        let left = deadline.saturating_duration_since(Instant::now());
        if left.is_zero() {
            break;
        }
        let Ok(Ok((n, from))) = tokio::time::timeout(left, sock.recv_from(&mut b)).await else { break };
        if from != dest {
            o.wrong_source += 1;
        }
        let payload: &[u8] = if socks5 {
            match parse_socks5_udp(&b[..n]) {
                Ok(p) => p,
                Err(e) => {
                    if o.bad_header.len() < 3 {
                        o.bad_header.push(format!("{e}: {:02x?}", &b[..n.min(24)]));
                    }
                    continue;
                }
            }
        } else {
            &b[..n]
        };
        if payload.is_empty() {
            o.empty_got += 1;
            continue;
        }
        o.replies += 1;
        if payload.len() < 16 || (payload[0] != b'R' && payload[0] != b'S' && payload[0] != b'T') {
            o.corrupted += 1;
            continue;
        }
        let rcid = u64::from_be_bytes(payload[2..10].try_into().unwrap());
        if rcid != cid {
            o.foreign += 1;
            continue;
        }
        let seq = u32::from_be_bytes(payload[12..16].try_into().unwrap());
        let r = payload[1];
        match expected.get(&(seq, r)) {
            Some(want) if want.as_slice() == payload => {
                if !seen.insert((seq, r)) {
                    o.duplicates += 1;
                }
            }
            Some(want) if want[1..] == payload[1..] => o.wrong_target += 1,
            _ => o.corrupted += 1,
        }
    }
}

// ------------------------------------------------------------------ one run

struct RunOut {
    convs: Vec<(Conv, Option<LocalObs>, Option<TargetObs>, bool)>,
    udp: Vec<(u64, bool, UdpObs)>,
    client_exit: Option<String>,
    ready: bool,
}

async fn run_once(seed: u64, convs: Vec<Conv>, udp_clients: Vec<(u64, bool, usize, usize)>, concurrency: usize, dir: &std::path::Path, dual_host: Option<String>) -> RunOut {
    let mut state = State::new().await.expect("state").with_not_found_resp("404").with_backend_http2_support(false);
    if dual_host.is_some() {
        // RFC 3849 documentation address: not configured on any interface, so binding an outgoing IPv6 socket fails
        state = state.with_outgoing_from(std::net::Ipv4Addr::UNSPECIFIED, "2001:db8::1".parse().expect("addr"));
    }
    let srv_l = TcpListener::bind("127.0.0.1:0").await.expect("bind");
    let srv_addr = srv_l.local_addr().expect("addr");
    let srv = tokio::spawn(run_listener(srv_l, None, state));
    // targets on 127.0.0.1 and [::1] with the same port
    let (tl4, tl6) = loop {
        let l4 = TcpListener::bind("127.0.0.1:0").await.expect("bind");
        let p = l4.local_addr().expect("addr").port();
        if let Ok(l6) = TcpListener::bind(("::1", p)).await {
            break (l4, l6);
        }
    };
    let target_port = tl4.local_addr().expect("addr").port();
    let targets = Arc::new(Targets { plans: Mutex::new(convs.iter().map(|c| (c.id, c.clone())).collect()), obs: Mutex::new(HashMap::new()), seed, acks: Mutex::new(HashMap::new()) });
    let t4 = tokio::spawn(target_listener(tl4, targets.clone()));
    let t6 = tokio::spawn(target_listener(tl6, targets.clone()));
    let ut = UdpSocket::bind("127.0.0.1:0").await.expect("bind");
    let udp_target_port = ut.local_addr().expect("addr").port();
    let ue = tokio::spawn(udp_target(ut, b'R'));
    let ut2 = UdpSocket::bind("127.0.0.1:0").await.expect("bind");
    let udp_target2_port = ut2.local_addr().expect("addr").port();
    let ue2 = tokio::spawn(udp_target(ut2, b'S'));
    let (udp_target6_port, ue6) = match UdpSocket::bind("[::1]:0").await {
        Ok(u6) => (u6.local_addr().expect("addr").port(), Some(tokio::spawn(udp_target(u6, b'T')))),
        Err(_) => (0, None),
    };
    // must be called inside the runtime (tokio sockets); the guards live until the end of the run
    let (refuse_port, _refuse_guard) = net::reserve_refusing_port();
    let env = Arc::new(Env {
        fixed_port: net::free_tcp_port(false),
        fixed_refuse_port: net::free_tcp_port(false),
        unix_path: dir.join(format!("c01-{seed:x}.sock")).to_string_lossy().to_string(),
        unix_socks_path: dir.join(format!("c01-{seed:x}-socks.sock")).to_string_lossy().to_string(),
        unix_http_path: dir.join(format!("c01-{seed:x}-http.sock")).to_string_lossy().to_string(),
        socks_port: net::free_tcp_port(false),
        http_port: net::free_tcp_port(false),
        udp_port: net::free_udp_port(),
        target_port,
        refuse_port,
        udp_target_port,
        udp_target2_port,
        udp_target6_port,
        dual_host,
    });
    let args: &'static ClientArgs = Box::leak(Box::new(ClientArgs {
        server: ServerUrl::from_str(&format!("ws://{srv_addr}/ws")).expect("url"),
        remote: vec![
            Remote::from_str(&format!("127.0.0.1:{}:127.0.0.1:{}", env.fixed_port, env.target_port)).expect("remote"),
            Remote::from_str(&format!("127.0.0.1:{}:127.0.0.1:{}", env.fixed_refuse_port, env.refuse_port)).expect("remote"),
            Remote::from_str(&format!("[unix:{}]:127.0.0.1:{}", env.unix_path, env.target_port)).expect("remote"),
            Remote::from_str(&format!("127.0.0.1:{}:socks", env.socks_port)).expect("remote"),
            Remote::from_str(&format!("127.0.0.1:{}:http", env.http_port)).expect("remote"),
            Remote::from_str(&format!("[unix:{}]:socks", env.unix_socks_path)).expect("remote"),
            Remote::from_str(&format!("[unix:{}]:http", env.unix_http_path)).expect("remote"),
            Remote::from_str(&format!("127.0.0.1:{}:127.0.0.1:{}/udp", env.udp_port, env.udp_target_port)).expect("remote"),
        ],
        keepalive: OptionalDuration::NONE,
        keepalive_timeout: OptionalDuration::NONE,
        max_retry_count: 0,
        max_retry_interval: 400,
        handshake_timeout: OptionalDuration::from_secs(5),
        channel_timeout: OptionalDuration::from_secs(10),
        ..Default::default()
    }));
    let (hr, scrx, dgrx) = HandlerResources::create();
    let hr: &'static HandlerResources = Box::leak(Box::new(hr));
    let mut cl = tokio::spawn(client::client_main_inner(args, hr, scrx, dgrx));
    // wait until the tunnel works: a tiny warm-up conversation
    let mut ready = false;
    let warm = Conv { id: 0xAAAA_0000 + seed % 1000, entry: Entry::Fixed, kind: Kind::RequestResponse, a: 10, b: 10, chunk: 10, pause_every: 0, optimistic: false };
    targets.plans.lock().unwrap().insert(warm.id, warm.clone());
    for _ in 0..50 {
        if cl.is_finished() {
            break;
        }
        if let Ok(o) = tokio::time::timeout(Duration::from_secs(2), local_side(env.clone(), seed, warm.clone(), None)).await {
            if o.entered && o.got == 10 && o.eof {
                ready = true;
                break;
            }
        }
        tokio::time::sleep(Duration::from_millis(100)).await;
    }
    let mut out = RunOut { convs: Vec::new(), udp: Vec::new(), client_exit: None, ready };
    if ready {
        let sem = Arc::new(tokio::sync::Semaphore::new(concurrency.max(1)));
        let mut hs = Vec::new();
        for c in convs {
            let (env2, sem2, tg2) = (env.clone(), sem.clone(), targets.clone());
            hs.push((c.clone(), tokio::spawn(async move {
                let _p = sem2.acquire_owned().await.ok();
                tokio::time::timeout(Duration::from_secs(40), local_side(env2, seed, c, Some(tg2))).await.ok()
            })));
        }
        let mut us = Vec::new();
        for (cid, socks5, n, maxp) in udp_clients {
            let env2 = env.clone();
            us.push((cid, socks5, tokio::spawn(udp_client(env2, seed, cid, socks5, n, maxp))));
        }
        // the churn group: one early client that falls silent, two steady ones, two newcomers after the early ones were forgotten
        for (cid, role) in [(200u64, 0u8), (201, 1), (202, 1), (203, 2), (204, 2)] {
            us.push((cid, false, tokio::spawn(udp_churn_client(env.clone(), seed, cid, role))));
        }
        for (c, h) in hs {
            let lo = h.await.ok().flatten();
            let timed_out = lo.is_none();
            let quiescent = if timed_out { tokio::task::spawn_blocking(|| net::process_quiescent(8, Duration::from_millis(60))).await.unwrap_or(false) } else { false };
            // give the target a moment to record its side
            let patience = if matches!(c.kind, Kind::LocalHalfCloseThenClose | Kind::LocalClosesWhileTargetStreams | Kind::LocalHalfCloseStallThenClose) { 2800 } else { 40 };
            for _ in 0..patience {
                if targets.obs.lock().unwrap().contains_key(&c.id) || matches!(c.kind, Kind::TargetRefuses) {
                    break;
                }
                tokio::time::sleep(Duration::from_millis(10)).await;
            }
            let to = targets.obs.lock().unwrap().get(&c.id).cloned();
            out.convs.push((c, lo, to, quiescent));
        }
        for (cid, socks5, h) in us {
            if let Ok(o) = h.await {
                out.udp.push((cid, socks5, o));
            }
        }
    }
    if cl.is_finished() {
        out.client_exit = Some(match (&mut cl).await {
            Ok(Ok(())) => "Ok".into(),
            Ok(Err(e)) => format!("{e}"),
            Err(_) => "panic".into(),
        });
    }
    cl.abort();
    srv.abort();
    t4.abort();
    t6.abort();
    ue.abort();
    ue2.abort();
    if let Some(h) = ue6 {
        h.abort();
    }
    out
}

fn gen_convs(rng: &mut Rng64, n: usize, big: usize, base_id: u64) -> Vec<Conv> {
    const ENTRIES: [Entry; 10] = [Entry::Fixed, Entry::Unix, Entry::Socks4, Entry::Socks4a, Entry::Socks5V4, Entry::Socks5V6, Entry::Socks5Domain, Entry::HttpConnect, Entry::UnixSocks5, Entry::UnixHttp];
    const KINDS: [Kind; 14] = [Kind::HalfCloseThenLiveReply, Kind::HalfCloseThenLiveReply, Kind::RequestResponse, Kind::RequestResponse, Kind::TargetFirstHalfClose, Kind::TargetFirstHalfClose, Kind::Simultaneous, Kind::Simultaneous, Kind::TargetClosesAtOnce, Kind::TargetRefuses, Kind::TargetAborts,
        Kind::LocalHalfCloseThenClose, Kind::LocalClosesWhileTargetStreams, Kind::LocalHalfCloseStallThenClose];
    (0..n).map(|i| {
        let entry = ENTRIES[(i + rng.below(10) as usize) % 10];
        let mut kind = KINDS[rng.below(14) as usize];
        let sizes = [0usize, 1, 2, 100, 8192, 8193, 70_000, 600_000];
        let (mut a, mut b) = (*rng.pick(&sizes), *rng.pick(&sizes));
        if i < big {
            // several windows (default window 512 frames of at most 8 KiB)
            kind = if i % 2 == 0 { Kind::Simultaneous } else { Kind::RequestResponse };
            a = rng.range(5, 9) as usize * 1024 * 1024;
            b = rng.range(5, 9) as usize * 1024 * 1024;
        }
        if matches!(kind, Kind::LocalHalfCloseThenClose | Kind::LocalClosesWhileTargetStreams | Kind::LocalHalfCloseStallThenClose) {
            // a reply of many windows: the target is still writing when the local client goes away
            a = a.min(70_000);
            b = 48 * 1024 * 1024;
        }
        // bounded cost: at most 4000 writes and at most 1500 one-millisecond pauses per direction (both directions count)
        let pause_every = *rng.pick(&[0usize, 0, 3, 50]);
        let most = a.max(if matches!(kind, Kind::LocalHalfCloseThenClose | Kind::LocalClosesWhileTargetStreams | Kind::LocalHalfCloseStallThenClose) { 0 } else { b });
        let mut chunk = *rng.pick(&[1usize, 7, 1000, 8192, 65536]).max(&(most / 4000 + 1));
        if pause_every > 0 {
            chunk = chunk.max(most / (pause_every * 1500) + 1);
        }
        if kind == Kind::HalfCloseThenLiveReply {
            // an answer smaller and larger than any plausible intermediate buffer
            b = *rng.pick(&[1usize, 100, 3000, 8191, 8192, 70_000]);
        }
        let optimistic = matches!(entry, Entry::Socks5V4 | Entry::Socks5V6 | Entry::Socks5Domain | Entry::UnixSocks5 | Entry::HttpConnect | Entry::UnixHttp) && rng.chance(1, 3);
        Conv { id: base_id + i as u64, entry, kind, a, b, chunk, pause_every, optimistic }
    }).collect()
}

fn judge(st: &mut Stats, seed: u64, out: &RunOut) {
    for (c, lo, to, quiescent) in &out.convs {
        st.evaluations += 1;
        st.cell("entry", format!("{:?}", c.entry));
        st.cell("conversation", format!("{:?}", c.kind));
        let replay = || json!({"kind": "c01", "run_seed": seed, "conversation": format!("{c:?}"), "local": format!("{lo:?}"), "target": format!("{to:?}")});
        let tag = format!("{:?}|{:?}", c.entry, c.kind);
        let Some(lo) = lo else {
            if *quiescent {
                st.violation(Violation { signature: format!("hang|{tag}"), detail: format!("conversation {c:?} did not finish within 40 s and the process was quiescent: the local connection was left hanging"), replay: replay() });
            } else {
                st.inconclusive.push(format!("c01: conversation {tag} timed out without quiescence witness"));
            }
            continue;
        };
        if let Some(e) = &lo.enter_err {
            st.violation(Violation { signature: format!("entry-failed|{:?}", c.entry), detail: format!("entering through {:?} failed: {e}", c.entry), replay: replay() });
            continue;
        }
        st.nontrivial(mix(seed, c.id));
        st.target("conversations_completed", 1);
        // bytes received by the local side: always a prefix of the target's stream
        if let Some(off) = lo.bad_at {
            st.violation(Violation { signature: format!("local-received-wrong-bytes|{tag}"), detail: format!("the local client received a wrong byte at offset {off} (target -> local direction)"), replay: replay() });
        }
        match c.kind {
            Kind::RequestResponse | Kind::TargetFirstHalfClose | Kind::Simultaneous => {
                let Some(to) = to else {
                    st.violation(Violation { signature: format!("target-never-reached|{tag}"), detail: format!("the target never saw conversation {}", c.id), replay: replay() });
                    continue;
                };
                if let Some(off) = to.bad_at {
                    st.violation(Violation { signature: format!("target-received-wrong-bytes|{tag}"), detail: format!("the target received a wrong byte at offset {off} (local -> target direction)"), replay: replay() });
                }
                if to.got != c.a || !to.eof {
                    st.violation(Violation { signature: format!("local-to-target-incomplete|{tag}"), detail: format!("the target received {} of {} bytes, saw EOF: {} (error {:?}); the local half-close must reach the target after all data", to.got, c.a, to.eof, to.err), replay: replay() });
                }
                if lo.got != c.b || !lo.eof {
                    st.violation(Violation { signature: format!("target-to-local-incomplete|{tag}"), detail: format!("the local client received {} of {} bytes, saw EOF: {} (error {:?})", lo.got, c.b, lo.eof, lo.err), replay: replay() });
                }
                if let Some(e) = &lo.write_err {
                    st.violation(Violation { signature: format!("local-write-failed|{tag}"), detail: format!("writing on the local connection failed with {e} although the target keeps reading"), replay: replay() });
                }
                if c.kind == Kind::TargetFirstHalfClose {
                    st.target("half_close_then_opposite_direction", 1);
                }
                if c.a + c.b > 8 * 1024 * 1024 {
                    st.target("multi_window_transfers", 1);
                }
            }
            Kind::LocalHalfCloseThenClose | Kind::LocalClosesWhileTargetStreams | Kind::LocalHalfCloseStallThenClose => {
                st.target("local_close_with_reply_in_flight", 1);
                let Some(to) = to else {
                    st.inconclusive.push(format!("c01: target observation missing for {tag}"));
                    continue;
                };
                if lo.got > to.sent.max(c.b) {
                    st.violation(Violation { signature: format!("too-much-data|{tag}"), detail: format!("the local client received {} bytes, the target sent {}", lo.got, to.sent), replay: replay() });
                }
                match &to.send_end {
                    Some(_) => st.count("target_released_after_local_close", 1),
                    None if to.quiescent_when_stuck => st.violation(Violation {
                        signature: format!("target-left-hanging|{:?}", c.kind),
                        detail: format!("the local client closed its connection after reading {} bytes; 25 s later the target was still blocked in write() after {} of {} bytes, not one byte more than 10 s earlier: the target's connection is never closed (a direct connection would have been reset)", lo.got, to.sent, c.b),
                        replay: replay(),
                    }),
                    None => st.inconclusive.push(format!("c01: {tag}: target still writing after 25 s but making progress")),
                }
            }
            Kind::HalfCloseThenLiveReply => {
                st.target("live_replies_after_local_half_close", 1);
                let Some(to) = to else {
                    st.violation(Violation { signature: format!("target-never-reached|{tag}"), detail: format!("the target never saw conversation {}", c.id), replay: replay() });
                    continue;
                };
                if to.got != c.a || !to.eof || to.bad_at.is_some() {
                    st.violation(Violation { signature: format!("local-to-target-incomplete|{tag}"), detail: format!("the target received {} of {} bytes, saw EOF: {} (error {:?}, wrong byte at {:?})", to.got, c.a, to.eof, to.err, to.bad_at), replay: replay() });
                }
                match lo.live_reply_withheld {
                    Some(true) => st.violation(Violation {
                        signature: format!("reply-withheld-after-local-half-close|{:?}", c.entry),
                        detail: format!("the local client sent its request and half-closed; the target answered with {} bytes and kept its connection open; 10 s later the local client had {} of them and the process was idle (a direct connection delivers the answer at once, whether or not the target closes)", c.b, lo.got),
                        replay: replay(),
                    }),
                    Some(false) => st.inconclusive.push(format!("c01: {tag}: reply incomplete after 10 s but the process was busy")),
                    None => {
                        if lo.got != c.b || !lo.eof {
                            st.violation(Violation { signature: format!("target-to-local-incomplete|{tag}"), detail: format!("the local client received {} of {} bytes, saw EOF: {} (error {:?})", lo.got, c.b, lo.eof, lo.err), replay: replay() });
                        }
                        if to.ack_seen {
                            st.count("replies_delivered_while_target_held_open", 1);
                        }
                    }
                }
            }
            Kind::TargetClosesAtOnce | Kind::TargetRefuses | Kind::TargetAborts => {
                st.target("close_refuse_abort_paths", 1);
                // the local connection must be closed (EOF or error), never left hanging; whatever arrived is a prefix
                if !lo.eof && lo.err.is_none() {
                    st.violation(Violation { signature: format!("not-closed|{tag}"), detail: "the target closed / refused / aborted but the local connection saw neither EOF nor an error".into(), replay: replay() });
                }
                if c.kind != Kind::TargetAborts && lo.got != 0 {
                    st.violation(Violation { signature: format!("data-from-nowhere|{tag}"), detail: format!("the target sent nothing but the local client received {} bytes", lo.got), replay: replay() });
                }
                if lo.got > c.b {
                    st.violation(Violation { signature: format!("too-much-data|{tag}"), detail: format!("the local client received {} bytes, the target sent {}", lo.got, c.b), replay: replay() });
                }
            }
        }
    }
    for (cid, socks5, o) in &out.udp {
        st.evaluations += 1;
        let kind = if *socks5 { "socks5-udp" } else { "udp-remote" };
        let replay = || json!({"kind": "c01-udp", "run_seed": seed, "client": cid, "entry": kind, "obs": format!("{o:?}")});
        st.cell("udp_entry", kind);
        if let Some(e) = &o.assoc_err {
            st.violation(Violation { signature: "udp-associate-failed".into(), detail: format!("SOCKS5 UDP ASSOCIATE failed: {e}"), replay: replay() });
            continue;
        }
        st.target("udp_replies_checked", o.replies as u64);
        st.nontrivial(mix(seed, 0xD000 + cid));
        if !o.bad_header.is_empty() {
            st.violation(Violation { signature: "socks5-udp-header".into(), detail: format!("a reply relayed through the SOCKS5 UDP association does not start with a well-formed RFC 1928 UDP header: {:?}", o.bad_header), replay: replay() });
        }
        if o.foreign > 0 {
            st.violation(Violation { signature: format!("udp-reply-to-wrong-client|{kind}"), detail: format!("{} replies carrying another client's tag were delivered to client {cid}", o.foreign), replay: replay() });
        }
        if o.wrong_source > 0 {
            st.violation(Violation { signature: format!("udp-reply-wrong-source|{kind}"), detail: format!("{} replies came from an address other than the one the client sent to", o.wrong_source), replay: replay() });
        }
        if o.duplicates > 0 {
            st.violation(Violation { signature: format!("udp-duplicate|{kind}"), detail: format!("{} replies were delivered twice", o.duplicates), replay: replay() });
        }
        if o.two_targets_used {
            st.target("socks5_associations_with_two_targets", 1);
        }
        if o.wrong_target > 0 {
            st.violation(Violation { signature: format!("udp-reached-wrong-target|{kind}"), detail: format!("{} datagrams were answered by the other UDP target than the one they were addressed to (the datagram did not reach its target)", o.wrong_target), replay: replay() });
        }
        if o.corrupted > 0 {
            st.violation(Violation { signature: format!("udp-corrupted|{kind}"), detail: format!("{} replies do not match any reply the target sent for this client (payload modified)", o.corrupted), replay: replay() });
        }
        if o.oneway_then_sent > 0 {
            st.target("udp_flows_after_one_way_traffic", 1);
            if o.oneway_then_sent >= 3 && o.oneway_then_replies == 0 {
                st.violation(Violation { signature: format!("udp-late-reply-lost-after-one-way-traffic|{kind}"), detail: format!("the local socket sent a datagram every second for 21 s without asking for replies, then {} datagrams that the target answered at the address it had first heard from: not one reply reached the local client (the flow did not stay one flow)", o.oneway_then_sent), replay: replay() });
            }
        }
        if o.after_idle_sent > 0 {
            st.target("udp_flows_resumed_after_idle", 1);
            if o.after_idle_sent >= 5 && o.after_idle_replies == 0 {
                st.violation(Violation { signature: format!("udp-flow-dead-after-idle|{kind}"), detail: format!("the local socket was silent for 11 s and then sent {} datagrams at 200 ms intervals: not one reply came back although the exchange worked before the pause ({} replies): the flow stays black-holed", o.after_idle_sent, o.replies - o.after_idle_replies), replay: replay() });
            }
        }
        if o.second_target_sent >= 5 {
            st.count("main_phase_requests_answered_by_second_target", o.second_target_answered as u64);
            if o.second_target_answered == 0 && o.first_target_answered >= 3 {
                st.violation(Violation { signature: format!("udp-second-target-of-a-flow-never-answers|{kind}"), detail: format!("one association addressed two targets alternately: {} requests to the first target were answered, none of the {} to the second (its replies do not come back through the flow)", o.first_target_answered, o.second_target_sent), replay: replay() });
            }
        }
        if o.churn_late_sent > 0 {
            st.target("udp_clients_active_after_others_were_forgotten", 1);
            if o.churn_late_sent >= 8 && o.churn_late_replies == 0 {
                st.violation(Violation { signature: format!("udp-client-starved-after-churn|{kind}"), detail: format!("client {cid} sent {} datagrams between 22 s and 27 s of the run, after earlier clients had been forgotten and new ones had appeared: not one reply reached it ({} replies in all)", o.churn_late_sent, o.replies), replay: replay() });
            }
        }
        if o.second_port_sent > 0 {
            st.target("socks5_associations_used_from_a_second_source_port", 1);
            st.count("second_source_port_replies", o.second_port_replies as u64);
            if o.second_port_sent >= 5 && o.second_port_replies == 0 && o.replies > 0 {
                st.violation(Violation { signature: format!("udp-second-source-port-never-served|{kind}"), detail: format!("a second socket of the same host sent {} datagrams through an association that had served {} replies to the first socket: not one was answered", o.second_port_sent, o.replies), replay: replay() });
            }
        }
        if o.fam_v6_sent > 0 {
            st.target("socks5_associations_alternating_address_families", 1);
            st.count("family_switch_v4_replies", o.fam_v4_replies as u64);
            st.count("family_switch_v6_replies", o.fam_v6_replies as u64);
            if o.fam_v6_sent >= 4 && o.fam_v4_sent >= 4 && (o.fam_v6_replies == 0 || o.fam_v4_replies == 0) && o.replies > 0 {
                st.violation(Violation { signature: format!("udp-other-address-family-never-served|{kind}"), detail: format!("one SOCKS5 association sent 4 datagrams to an IPv4 target and 4 to an IPv6 target, alternately, 120 ms apart: {} / {} of them were answered (the association had served {} replies before): the datagrams for one address family never reach their target", o.fam_v4_replies, o.fam_v6_replies, o.replies), replay: replay() });
            }
        }
        if o.empty_asked > 0 {
            st.target("udp_empty_replies_asked_for", o.empty_asked as u64);
            st.count("udp_empty_replies_received", o.empty_got as u64);
            if o.empty_got > o.empty_asked {
                st.violation(Violation { signature: format!("udp-empty-reply-unaccounted|{kind}"), detail: format!("client {cid} asked for {} empty replies and received {} empty datagrams (another client's reply, or a duplicate)", o.empty_asked, o.empty_got), replay: replay() });
            }
            if o.empty_asked >= 4 && o.empty_got == 0 && o.replies > 0 {
                st.violation(Violation { signature: format!("udp-empty-reply-lost|{kind}"), detail: format!("the target answered {} requests with a zero-length datagram each (80 ms apart): not one of them reached the local client, while {} non-empty replies did", o.empty_asked, o.replies), replay: replay() });
            }
        }
        if o.fragments_sent > 0 {
            st.target("socks5_udp_fragments_sent", o.fragments_sent as u64);
            st.count("socks5_udp_fragments_answered_by_target", o.fragments_answered as u64);
            if o.after_frag_sent >= 5 && o.after_frag_replies == 0 && o.replies > 0 {
                st.violation(Violation { signature: format!("udp-association-dead-after-fragment|{kind}"), detail: format!("the association served {} replies, then the client sent {} datagram(s) with FRAG != 0 (which a relay without reassembly drops) and {} ordinary datagrams at 100 ms intervals: not one of those was answered - the association stopped relaying", o.replies, o.fragments_sent, o.after_frag_sent), replay: replay() });
            }
        }
        if o.sent >= 5 && o.replies == 0 {
            st.violation(Violation { signature: format!("udp-nothing-delivered|{kind}"), detail: format!("{} datagrams were sent at a moderate pace and not a single reply came back", o.sent), replay: replay() });
        }
    }
}

pub fn run(p: &Params) -> (Stats, &'static str) {
    let mut st = Stats::new();
    st.engine("E2E", 1);
    rusty_penguin_lib::tls::init_crypto_provider();
    let mut rng = Rng64::new(p.shard_seed("C01"));
    let dir = tempfile::tempdir().expect("tempdir");
    let rounds = if p.tier_thorough { 6 } else { 1 };
    for round in 0..rounds {
        let seed = mix(p.shard_seed("C01"), round);
        let (n, big) = if p.tier_thorough { (60, 4) } else { (24, 1) };
        let convs = gen_convs(&mut rng, n, big, 1 + round * 10_000);
        let n_udp = rng.range(1, 8);
        let udp: Vec<(u64, bool, usize, usize)> = (0..n_udp).map(|i| (100 + i, i % 2 == 1, if p.tier_thorough { 60 } else { 20 }, *rng.pick(&[1200usize, 9000, 60_000]))).collect();
        let concurrency = *rng.pick(&[1usize, 4, 16]);
        st.cell("concurrency", concurrency);
        st.cell("udp_clients", n_udp);
        // every other run: names with several addresses (needs the /etc/hosts the driver prepares in a private mount namespace)
        let dual_host = match std::env::var("VERIF_DUAL_HOST") {
            Ok(h) if (p.shard + round) % 2 == 1 => Some(h),
            Ok(_) => None,
            Err(_) => {
                st.count("multi_address_runs_not_available_here", 1);
                None
            }
        };
        if dual_host.is_some() {
            st.target("multi_address_target_runs", 1);
        }
        st.cell("target_name", if dual_host.is_some() { "two-addresses-first-unusable" } else { "single-address" });
        let rt = tokio::runtime::Builder::new_multi_thread().worker_threads(4).enable_all().build().expect("rt");
        let mut out = rt.block_on(run_once(seed, convs.clone(), udp.clone(), concurrency, dir.path(), dual_host.clone()));
        if !out.ready {
            // port races at start-up: try once more before giving up
            rt.shutdown_background();
            let rt2 = tokio::runtime::Builder::new_multi_thread().worker_threads(4).enable_all().build().expect("rt");
            out = rt2.block_on(run_once(mix(seed, 1), convs, udp, concurrency, dir.path(), dual_host.clone()));
            rt2.shutdown_background();
            if !out.ready {
                st.inconclusive.push(format!("c01: the tunnel never became ready (client exit: {:?})", out.client_exit));
                continue;
            }
            judge(&mut st, mix(seed, 1), &out);
        } else {
            judge(&mut st, seed, &out);
            rt.shutdown_background();
        }
        if let Some(e) = &out.client_exit {
            st.violation(Violation { signature: "client-exited".into(), detail: format!("the client ended by itself during the run: {e}"), replay: json!({"kind": "c01", "run_seed": seed}) });
        }
        if st.samples.len() < 2 {
            if let Some((c, lo, to, _)) = out.convs.first() {
                st.sample(json!({"conversation": format!("{c:?}"), "local_observed": format!("{lo:?}"), "target_observed": format!("{to:?}")}));
            }
        }
        if st.too_many_violations() {
            break;
        }
    }
    (st, RULE)
}
