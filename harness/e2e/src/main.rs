//! ve2e — runtime-monitoring harness for the penguin client/server (real sockets, real time).
#![allow(clippy::all)]

#[path = "../../mux/src/util.rs"]
mod util;
mod c01;
mod c10w;
mod c14;
mod c16e;
mod c17;
mod c18s;
mod c19;
mod net;

use std::collections::BTreeMap;
use util::{Params, Stats};

fn parse_args() -> (String, Params) {
    let mut args = std::env::args().skip(1);
    let cmd = args.next().unwrap_or_else(|| {
        eprintln!("usage: ve2e <property> [options]");
        std::process::exit(2);
    });
    let mut p = Params { tier_thorough: false, seed: 1, shard: 0, nshards: 1, out: None, replay: None, scale: 1.0, extra: BTreeMap::new() };
    let rest: Vec<String> = args.collect();
    let mut i = 0;
    while i < rest.len() {
        let k = rest[i].trim_start_matches("--").to_string();
        let v = rest.get(i + 1).cloned().unwrap_or_default();
        match k.as_str() {
            "tier" => p.tier_thorough = v == "thorough",
            "seed" => p.seed = v.parse().unwrap_or(1),
            "shard" => p.shard = v.parse().unwrap_or(0),
            "nshards" => p.nshards = v.parse::<u64>().unwrap_or(1).max(1),
            "out" => p.out = Some(v),
            "replay" => p.replay = Some(v),
            "scale" => p.scale = v.parse().unwrap_or(1.0),
            _ => {
                p.extra.insert(k, v);
            }
        }
        i += 2;
    }
    (cmd, p)
}

fn main() {
    let (cmd, p) = parse_args();
    let t0 = std::time::Instant::now();
    let (st, rule): (Stats, &str) = match cmd.as_str() {
        "c01" => c01::run(&p),
        "c10w" => c10w::run(&p),
        "c14" => c14::run(&p),
        "c16e" => c16e::run(&p),
        "c17" => c17::run(&p),
        "c18s" => c18s::run(&p),
        "c19" => c19::run(&p),
        "noop" => (Stats::new(), "noop"),
        other => {
            eprintln!("unknown sub-command {other}");
            std::process::exit(2);
        }
    };
    let mut v = st.to_json(&cmd.to_uppercase(), rule);
    v["wall_s"] = serde_json::json!(t0.elapsed().as_secs_f64());
    v["shard"] = serde_json::json!(p.shard);
    let text = serde_json::to_string(&v).expect("json");
    match &p.out {
        Some(path) => std::fs::write(path, text).expect("write result"),
        None => println!("{text}"),
    }
}
