//! Shared helpers of the E2E engine: a raw HTTP/1.1 exchange, SHA-1/base64
//! (independent of the repository's crates), free ports, process quiescence.

use std::collections::BTreeMap;
use std::time::Duration;
use tokio::io::{AsyncReadExt, AsyncWriteExt};
use tokio::net::TcpStream;

#[derive(Clone, Debug, PartialEq, Eq)]
pub struct HttpResp {
    pub status: u16,
    /// lower-cased names, `date` removed, sorted
    pub headers: Vec<(String, String)>,
    pub body: Vec<u8>,
}

impl HttpResp {
    pub fn header(&self, name: &str) -> Option<&str> {
        self.headers.iter().find(|(n, _)| n == name).map(|(_, v)| v.as_str())
    }
    pub fn short(&self) -> String {
        format!("{} {:?} body={:?}", self.status, self.headers, String::from_utf8_lossy(&self.body[..self.body.len().min(60)]))
    }
}

/// Send raw request bytes on a fresh connection and read exactly one response.
/// Returns the response and the still-open stream (for 101 probes).
pub async fn raw_http<S>(mut s: S, request: &[u8], head_only: bool) -> Result<(HttpResp, S, Vec<u8>), String>
where
    S: tokio::io::AsyncRead + tokio::io::AsyncWrite + Unpin,
{
    s.write_all(request).await.map_err(|e| format!("write: {e}"))?;
    s.flush().await.ok();
    let mut buf: Vec<u8> = Vec::new();
    let mut tmp = [0u8; 4096];
    let head_end;
    loop {
        if let Some(p) = find(&buf, b"\r\n\r\n") {
            head_end = p + 4;
            break;
        }
        let n = tokio::time::timeout(Duration::from_secs(10), s.read(&mut tmp)).await.map_err(|_| "timeout reading response head".to_string())?.map_err(|e| format!("read: {e}"))?;
        if n == 0 {
            return Err(format!("eof before response head ({} bytes)", buf.len()));
        }
        buf.extend_from_slice(&tmp[..n]);
    }
    let head = String::from_utf8_lossy(&buf[..head_end]).to_string();
    let mut lines = head.split("\r\n");
    let status_line = lines.next().unwrap_or("");
    let status: u16 = status_line.split(' ').nth(1).and_then(|x| x.parse().ok()).ok_or_else(|| format!("bad status line {status_line:?}"))?;
    let mut headers: Vec<(String, String)> = Vec::new();
    for l in lines {
        if l.is_empty() {
            continue;
        }
        if let Some((n, v)) = l.split_once(':') {
            let n = n.trim().to_ascii_lowercase();
            if n != "date" {
                headers.push((n, v.trim().to_string()));
            }
        }
    }
    headers.sort();
    let mut rest = buf[head_end..].to_vec();
    let mut body = Vec::new();
    let hmap: BTreeMap<&str, &str> = headers.iter().map(|(a, b)| (a.as_str(), b.as_str())).collect();
    if status == 101 || head_only || status == 204 || status == 304 {
        // no body
    } else if let Some(cl) = hmap.get("content-length").and_then(|v| v.parse::<usize>().ok()) {
        while rest.len() < cl {
            let n = tokio::time::timeout(Duration::from_secs(10), s.read(&mut tmp)).await.map_err(|_| "timeout reading body".to_string())?.map_err(|e| format!("read: {e}"))?;
            if n == 0 {
                break;
            }
            rest.extend_from_slice(&tmp[..n]);
        }
        let take = cl.min(rest.len());
        body = rest.drain(..take).collect();
    } else if hmap.get("transfer-encoding").is_some_and(|v| v.eq_ignore_ascii_case("chunked")) {
        loop {
            // read a chunk-size line
            let line_end = loop {
                if let Some(p) = find(&rest, b"\r\n") {
                    break p;
                }
                let n = tokio::time::timeout(Duration::from_secs(10), s.read(&mut tmp)).await.map_err(|_| "timeout reading chunk".to_string())?.map_err(|e| format!("read: {e}"))?;
                if n == 0 {
                    return Err("eof in chunked body".into());
                }
                rest.extend_from_slice(&tmp[..n]);
            };
            let size = usize::from_str_radix(String::from_utf8_lossy(&rest[..line_end]).trim(), 16).map_err(|_| "bad chunk size".to_string())?;
            rest.drain(..line_end + 2);
            while rest.len() < size + 2 {
                let n = tokio::time::timeout(Duration::from_secs(10), s.read(&mut tmp)).await.map_err(|_| "timeout reading chunk".to_string())?.map_err(|e| format!("read: {e}"))?;
                if n == 0 {
                    return Err("eof in chunk".into());
                }
                rest.extend_from_slice(&tmp[..n]);
            }
            body.extend_from_slice(&rest[..size]);
            rest.drain(..size + 2);
            if size == 0 {
                break;
            }
        }
    } else {
        // until EOF
        loop {
            match tokio::time::timeout(Duration::from_secs(5), s.read(&mut tmp)).await {
                Ok(Ok(0)) | Err(_) | Ok(Err(_)) => break,
                Ok(Ok(n)) => rest.extend_from_slice(&tmp[..n]),
            }
        }
        body = std::mem::take(&mut rest);
    }
    Ok((HttpResp { status, headers, body }, s, rest))
}

pub async fn http_once(addr: std::net::SocketAddr, request: &[u8], head_only: bool) -> Result<(HttpResp, TcpStream, Vec<u8>), String> {
    let s = TcpStream::connect(addr).await.map_err(|e| format!("connect: {e}"))?;
    s.set_nodelay(true).ok();
    raw_http(s, request, head_only).await
}

pub fn find(hay: &[u8], needle: &[u8]) -> Option<usize> {
    hay.windows(needle.len()).position(|w| w == needle)
}

// ------------------------------------------------------------------ SHA-1 and base64 (RFC 3174 / RFC 4648), written for the oracle

pub fn sha1(data: &[u8]) -> [u8; 20] {
    let mut h: [u32; 5] = [0x67452301, 0xEFCDAB89, 0x98BADCFE, 0x10325476, 0xC3D2E1F0];
    let mut msg = data.to_vec();
    let ml = (data.len() as u64) * 8;
    msg.push(0x80);
    while msg.len() % 64 != 56 {
        msg.push(0);
    }
    msg.extend_from_slice(&ml.to_be_bytes());
    for chunk in msg.chunks(64) {
        let mut w = [0u32; 80];
        for i in 0..16 {
            w[i] = u32::from_be_bytes([chunk[4 * i], chunk[4 * i + 1], chunk[4 * i + 2], chunk[4 * i + 3]]);
        }
        for i in 16..80 {
            w[i] = (w[i - 3] ^ w[i - 8] ^ w[i - 14] ^ w[i - 16]).rotate_left(1);
        }
        let (mut a, mut b, mut c, mut d, mut e) = (h[0], h[1], h[2], h[3], h[4]);
        for (i, wi) in w.iter().enumerate() {
            let (f, k) = match i {
                0..=19 => ((b & c) | ((!b) & d), 0x5A827999u32),
                20..=39 => (b ^ c ^ d, 0x6ED9EBA1),
                40..=59 => ((b & c) | (b & d) | (c & d), 0x8F1BBCDC),
                _ => (b ^ c ^ d, 0xCA62C1D6),
            };
            let t = a.rotate_left(5).wrapping_add(f).wrapping_add(e).wrapping_add(k).wrapping_add(*wi);
            e = d;
            d = c;
            c = b.rotate_left(30);
            b = a;
            a = t;
        }
        h[0] = h[0].wrapping_add(a);
        h[1] = h[1].wrapping_add(b);
        h[2] = h[2].wrapping_add(c);
        h[3] = h[3].wrapping_add(d);
        h[4] = h[4].wrapping_add(e);
    }
    let mut out = [0u8; 20];
    for (i, v) in h.iter().enumerate() {
        out[4 * i..4 * i + 4].copy_from_slice(&v.to_be_bytes());
    }
    out
}

pub fn base64(data: &[u8]) -> String {
    const T: &[u8; 64] = b"ABCDEFGHIJKLMNOPQRSTUVWXYZabcdefghijklmnopqrstuvwxyz0123456789+/";
    let mut s = String::new();
    for c in data.chunks(3) {
        let b = [c[0], *c.get(1).unwrap_or(&0), *c.get(2).unwrap_or(&0)];
        let n = (u32::from(b[0]) << 16) | (u32::from(b[1]) << 8) | u32::from(b[2]);
        s.push(T[(n >> 18) as usize & 63] as char);
        s.push(T[(n >> 12) as usize & 63] as char);
        s.push(if c.len() > 1 { T[(n >> 6) as usize & 63] as char } else { '=' });
        s.push(if c.len() > 2 { T[n as usize & 63] as char } else { '=' });
    }
    s
}

pub fn ws_accept(key: &str) -> String {
    let mut v = key.as_bytes().to_vec();
    v.extend_from_slice(b"258EAFA5-E914-47DA-95CA-C5AB0DC85B11");
    base64(&sha1(&v))
}

// ------------------------------------------------------------------ ports

pub fn free_tcp_port(v6: bool) -> u16 {
    let l = std::net::TcpListener::bind(if v6 { "[::1]:0" } else { "127.0.0.1:0" }).expect("bind");
    l.local_addr().expect("addr").port()
}

/// A port on which connections are refused for as long as the returned sockets live: they are bound (127.0.0.1 and [::1])
/// but never listen, so nobody else - another shard process, another harness - can be handed the same port by the kernel
/// while the run lasts (a released "free" port that a foreign listener picks up later answers instead of refusing).
pub fn reserve_refusing_port() -> (u16, Vec<tokio::net::TcpSocket>) {
    for _ in 0..50 {
        let Ok(s4) = tokio::net::TcpSocket::new_v4() else { continue };
        if s4.bind("127.0.0.1:0".parse().expect("addr")).is_err() {
            continue;
        }
        let Ok(a) = s4.local_addr() else { continue };
        let mut keep = vec![s4];
        if let Ok(s6) = tokio::net::TcpSocket::new_v6() {
            match s6.bind(std::net::SocketAddr::from((std::net::Ipv6Addr::LOCALHOST, a.port()))) {
                Ok(()) => keep.push(s6),
                // [::1]:port is taken by somebody else: try another port (no IPv6 at all: new_v6 or every bind fails, fall through below)
                Err(e) if e.kind() == std::io::ErrorKind::AddrInUse => continue,
                Err(_) => {}
            }
        }
        return (a.port(), keep);
    }
    panic!("no refusing port could be reserved");
}

pub fn free_udp_port() -> u16 {
    let l = std::net::UdpSocket::bind("127.0.0.1:0").expect("bind");
    l.local_addr().expect("addr").port()
}

// ------------------------------------------------------------------ quiescence witness for real-time engines

/// Sample /proc/self/task/*/stat: true iff every thread except the caller was sleeping at each of `n`
/// samples and the process CPU time did not move over the window.
pub fn process_quiescent(n: usize, gap: Duration) -> bool {
    fn snapshot() -> Option<(bool, u64)> {
        let me = unsafe_gettid();
        let mut all_sleeping = true;
        let mut cpu = 0u64;
        for e in std::fs::read_dir("/proc/self/task").ok()? {
            let e = e.ok()?;
            let tid: i64 = e.file_name().to_string_lossy().parse().ok()?;
            let stat = std::fs::read_to_string(e.path().join("stat")).ok()?;
            let after = stat.rsplit_once(')')?.1;
            let f: Vec<&str> = after.split_whitespace().collect();
            let state = f.first()?;
            let ut: u64 = f.get(11)?.parse().ok()?;
            let stime: u64 = f.get(12)?.parse().ok()?;
            if tid != me {
                cpu += ut + stime;
                if *state != "S" && *state != "D" {
                    all_sleeping = false;
                }
            }
        }
        Some((all_sleeping, cpu))
    }
    let Some((s0, c0)) = snapshot() else { return false };
    if !s0 {
        return false;
    }
    for _ in 1..n {
        std::thread::sleep(gap);
        match snapshot() {
            Some((true, c)) if c == c0 => {}
            _ => return false,
        }
    }
    true
}

fn unsafe_gettid() -> i64 {
    // /proc/thread-self would also do; libc is already a dependency of tokio
    std::fs::read_link("/proc/thread-self").ok().and_then(|p| p.file_name().map(|f| f.to_string_lossy().to_string())).and_then(|s| s.parse().ok()).unwrap_or(-1)
}
