//! C16 through the real client: the keepalive interval and timeout a user
//! gives the client (`ClientArgs::keepalive`, `keepalive_timeout`) must be the
//! ones the connection runs with. E2E engine: the client's server URL points
//! at a byte-forwarding gate in front of a real `run_listener`; the gate parses
//! the WebSocket frames passing in both directions and timestamps every Ping
//! (client to server) and Pong (server to client), and can stop forwarding
//! while keeping both TCP connections open (a peer that went silent).

use crate::net;
use crate::util::{Params, Stats, Violation, mix};
use penguin_mux::timing::OptionalDuration;
use rusty_penguin_lib::arg::{ClientArgs, Remote, ServerUrl};
use rusty_penguin_lib::client::{self, HandlerResources};
use rusty_penguin_lib::server::{State, run_listener};
use serde_json::json;
use std::net::SocketAddr;
use std::str::FromStr;
use std::sync::{Arc, Mutex};
use std::time::{Duration, Instant};
use tokio::io::{AsyncReadExt, AsyncWriteExt};
use tokio::net::{TcpListener, TcpStream};

const RULE: &str = "one case = one real client (client_main_inner) given a keepalive interval I and timeout T in its arguments, connected through a gate that forwards bytes to a real server, \
timestamps every WebSocket Ping (client to server) and Pong (server to client) it relays, and in some cases stops forwarding after d ms while keeping the TCP connections open. \
Oracle: against a live peer the number of Pings seen in a window W is at least W/I - 3 and no two Pings are closer than I/2, and the client never reconnects; against a peer that went silent the client \
reconnects no earlier than T - 50 ms after the last Pong relayed to it and no later than T + I + 200 ms (first back-off step) + 700 ms after it; with keepalive disabled no Ping is seen and the silent peer is never abandoned; \
with the timeout disabled Pings continue and the silent peer is never abandoned. 'Too few' and 'too late' are verdicts only while a 5 ms timer task on the same runtime stayed punctual (load witness), otherwise inconclusive";

#[derive(Clone, Debug)]
struct Case {
    name: &'static str,
    interval_ms: Option<u64>,
    timeout_ms: Option<u64>,
    /// stop forwarding (both directions) this long after the first connection was accepted
    silent_after_ms: Option<u64>,
    observe_ms: u64,
}

#[derive(Default)]
struct Sniff {
    buf: Vec<u8>,
    past_http: bool,
    /// (when, opcode)
    frames: Vec<(Instant, u8)>,
    upgraded_at: Option<Instant>,
}

impl Sniff {
    fn feed(&mut self, data: &[u8]) {
        let now = Instant::now();
        self.buf.extend_from_slice(data);
        if !self.past_http {
            let Some(at) = net::find(&self.buf, b"\r\n\r\n") else { return };
            self.buf.drain(..at + 4);
            self.past_http = true;
            self.upgraded_at = Some(now);
        }
        loop {
            if self.buf.len() < 2 {
                return;
            }
            let (b0, b1) = (self.buf[0], self.buf[1]);
            let (ext, len7) = match b1 & 0x7f {
                126 => (2usize, None),
                127 => (8usize, None),
                n => (0usize, Some(n as usize)),
            };
            let mask = if b1 & 0x80 != 0 { 4 } else { 0 };
            if self.buf.len() < 2 + ext {
                return;
            }
            let len = match len7 {
                Some(n) => n,
                None => self.buf[2..2 + ext].iter().fold(0usize, |a, b| (a << 8) | usize::from(*b)),
            };
            let total = 2 + ext + mask + len;
            if self.buf.len() < total {
                return;
            }
            self.frames.push((now, b0 & 0x0f));
            self.buf.drain(..total);
        }
    }
}

#[derive(Default)]
struct GateLog {
    /// accept instants of the attempts
    attempts: Vec<Instant>,
    /// per attempt: client-to-server and server-to-client sniffers
    c2s: Vec<Arc<Mutex<Sniff>>>,
    s2c: Vec<Arc<Mutex<Sniff>>>,
    silent_from: Option<Instant>,
}

async fn gate(listener: TcpListener, server: SocketAddr, silent_after: Option<Duration>, log: Arc<Mutex<GateLog>>) {
    let mut i = 0usize;
    loop {
        let Ok((mut c, _)) = listener.accept().await else { break };
        let up = Arc::new(Mutex::new(Sniff::default()));
        let down = Arc::new(Mutex::new(Sniff::default()));
        {
            let mut l = log.lock().unwrap();
            l.attempts.push(Instant::now());
            l.c2s.push(up.clone());
            l.s2c.push(down.clone());
        }
        let first = i == 0;
        i += 1;
        let log2 = log.clone();
        tokio::spawn(async move {
            let Ok(mut s) = TcpStream::connect(server).await else { return };
            c.set_nodelay(true).ok();
            s.set_nodelay(true).ok();
            let deadline = if first { silent_after.map(|d| tokio::time::Instant::now() + d) } else { None };
            let (mut cr, mut cw) = c.split();
            let (mut sr, mut sw) = s.split();
            let mut b1 = vec![0u8; 65536];
            let mut b2 = vec![0u8; 65536];
            loop {
                tokio::select! {
                    () = async { match deadline { Some(d) => tokio::time::sleep_until(d).await, None => std::future::pending().await } } => break,
                    r = cr.read(&mut b1) => match r { Ok(n) if n > 0 => { up.lock().unwrap().feed(&b1[..n]); if sw.write_all(&b1[..n]).await.is_err() { return; } } _ => return },
                    r = sr.read(&mut b2) => match r { Ok(n) if n > 0 => { down.lock().unwrap().feed(&b2[..n]); if cw.write_all(&b2[..n]).await.is_err() { return; } } _ => return },
                }
            }
            // the peer goes silent: both TCP connections stay open, nothing is forwarded any more; what the client
            // still sends is read (and its Pings counted)
            log2.lock().unwrap().silent_from = Some(Instant::now());
            let _ = tokio::time::timeout(Duration::from_secs(30), async {
                loop {
                    match cr.read(&mut b1).await {
                        Ok(0) | Err(_) => break,
                        Ok(n) => up.lock().unwrap().feed(&b1[..n]),
                    }
                }
            })
            .await;
        });
    }
}

struct Outcome {
    attempts: Vec<Instant>,
    pings: Vec<Vec<Instant>>,
    pongs: Vec<Vec<Instant>>,
    upgraded_at: Option<Instant>,
    silent_from: Option<Instant>,
    exit: Option<(Duration, String)>,
    t0: Instant,
    end: Instant,
    max_timer_overshoot_ms: u64,
}

async fn run_case(case: &Case) -> Outcome {
    let state = State::new().await.expect("state").with_not_found_resp("404").with_backend_http2_support(false);
    let srv_l = TcpListener::bind("127.0.0.1:0").await.expect("bind");
    let srv_addr = srv_l.local_addr().expect("addr");
    let srv = tokio::spawn(run_listener(srv_l, None, state));
    let gate_l = TcpListener::bind("127.0.0.1:0").await.expect("bind");
    let gate_addr = gate_l.local_addr().expect("addr");
    let glog = Arc::new(Mutex::new(GateLog::default()));
    let g = tokio::spawn(gate(gate_l, srv_addr, case.silent_after_ms.map(Duration::from_millis), glog.clone()));
    let (tport, _keep) = net::reserve_refusing_port();
    let lport = net::free_tcp_port(false);
    let od = |ms: Option<u64>| ms.map_or(OptionalDuration::NONE, |ms| OptionalDuration::from(Duration::from_millis(ms)));
    let args: &'static ClientArgs = Box::leak(Box::new(ClientArgs {
        server: ServerUrl::from_str(&format!("ws://{gate_addr}/ws")).expect("url"),
        remote: vec![Remote::from_str(&format!("127.0.0.1:{lport}:127.0.0.1:{tport}")).expect("remote")],
        keepalive: od(case.interval_ms),
        keepalive_timeout: od(case.timeout_ms),
        max_retry_count: 0,
        max_retry_interval: 400,
        handshake_timeout: OptionalDuration::from_secs(2),
        channel_timeout: OptionalDuration::from_secs(2),
        ..Default::default()
    }));
    let (hr, scrx, dgrx) = HandlerResources::create();
    let hr: &'static HandlerResources = Box::leak(Box::new(hr));
    let t0 = Instant::now();
    let overshoot = Arc::new(std::sync::atomic::AtomicU64::new(0));
    let ov2 = overshoot.clone();
    let ticker = tokio::spawn(async move {
        loop {
            let t = Instant::now();
            tokio::time::sleep(Duration::from_millis(5)).await;
            let over = t.elapsed().saturating_sub(Duration::from_millis(5)).as_millis() as u64;
            ov2.fetch_max(over, std::sync::atomic::Ordering::Relaxed);
        }
    });
    let mut cl = tokio::spawn(client::client_main_inner(args, hr, scrx, dgrx));
    let mut exit = None;
    let stop = t0 + Duration::from_millis(case.observe_ms);
    while Instant::now() < stop {
        if exit.is_none() && cl.is_finished() {
            let s = match (&mut cl).await {
                Ok(Ok(())) => "Ok".to_string(),
                Ok(Err(e)) => format!("{e:?}").split('(').next().unwrap_or("Err").to_string(),
                Err(_) => "panic".into(),
            };
            exit = Some((t0.elapsed(), s));
            break;
        }
        tokio::time::sleep(Duration::from_millis(10)).await;
    }
    let end = Instant::now();
    cl.abort();
    ticker.abort();
    g.abort();
    srv.abort();
    let l = glog.lock().unwrap();
    let of = |v: &Vec<Arc<Mutex<Sniff>>>, op: u8| v.iter().map(|s| s.lock().unwrap().frames.iter().filter(|f| f.1 == op).map(|f| f.0).collect::<Vec<_>>()).collect::<Vec<_>>();
    Outcome {
        attempts: l.attempts.clone(),
        pings: of(&l.c2s, 0x9),
        pongs: of(&l.s2c, 0xA),
        upgraded_at: l.s2c.first().and_then(|s| s.lock().unwrap().upgraded_at),
        silent_from: l.silent_from,
        exit,
        t0,
        end,
        max_timer_overshoot_ms: overshoot.load(std::sync::atomic::Ordering::Relaxed),
    }
}

fn cases() -> Vec<Case> {
    vec![
        Case { name: "live-I250-T1000", interval_ms: Some(250), timeout_ms: Some(1000), silent_after_ms: None, observe_ms: 2900 },
        Case { name: "live-I400-T2000", interval_ms: Some(400), timeout_ms: Some(2000), silent_after_ms: None, observe_ms: 3000 },
        Case { name: "silent-I250-T750", interval_ms: Some(250), timeout_ms: Some(750), silent_after_ms: Some(600), observe_ms: 3600 },
        Case { name: "silent-I300-T1200", interval_ms: Some(300), timeout_ms: Some(1200), silent_after_ms: Some(700), observe_ms: 4200 },
        Case { name: "disabled-T500", interval_ms: None, timeout_ms: Some(500), silent_after_ms: Some(600), observe_ms: 2600 },
        Case { name: "disabled-both", interval_ms: None, timeout_ms: None, silent_after_ms: Some(600), observe_ms: 2200 },
        Case { name: "no-timeout-I250", interval_ms: Some(250), timeout_ms: None, silent_after_ms: Some(600), observe_ms: 2900 },
        Case { name: "live-no-timeout-I300", interval_ms: Some(300), timeout_ms: None, silent_after_ms: None, observe_ms: 2500 },
    ]
}

fn judge(st: &mut Stats, case: &Case, o: &Outcome, seed: u64) {
    let ms = |t: Instant| t.duration_since(o.t0).as_millis() as u64;
    let replay = || {
        json!({"check": "C16", "engine": "E2E", "seed": seed, "case": case.name, "interval_ms": case.interval_ms, "timeout_ms": case.timeout_ms, "silent_after_ms": case.silent_after_ms,
            "attempts_ms": o.attempts.iter().map(|t| ms(*t)).collect::<Vec<_>>(),
            "pings_ms": o.pings.iter().map(|v| v.iter().map(|t| ms(*t)).collect::<Vec<_>>()).collect::<Vec<_>>(),
            "pongs_ms": o.pongs.iter().map(|v| v.iter().map(|t| ms(*t)).collect::<Vec<_>>()).collect::<Vec<_>>(),
            "silent_from_ms": o.silent_from.map(ms), "exit": format!("{:?}", o.exit), "max_timer_overshoot_ms": o.max_timer_overshoot_ms})
    };
    // the client could not even start (a local port taken between probing and binding), or never got through: no verdict
    if let Some((dt, e)) = &o.exit {
        st.inconclusive.push(format!("c16e [{}]: the client ended ({e}) after {dt:?} (at start-up: a local port taken between probing and binding); run discarded", case.name));
        return;
    }
    let Some(up) = o.upgraded_at else {
        st.inconclusive.push(format!("c16e [{}]: the WebSocket upgrade was never seen at the gate", case.name));
        return;
    };
    let punctual = o.max_timer_overshoot_ms <= 120;
    let first_pings = o.pings.first().cloned().unwrap_or_default();
    let first_pongs = o.pongs.first().cloned().unwrap_or_default();
    st.count("pings_seen", o.pings.iter().map(|v| v.len() as u64).sum());
    st.count("pongs_seen", o.pongs.iter().map(|v| v.len() as u64).sum());
    st.count("reconnects_seen", o.attempts.len().saturating_sub(1) as u64);
    // ---- cadence (first connection; until it went silent the peer answers, afterwards the client still sends)
    match case.interval_ms {
        None => {
            let n: usize = o.pings.iter().map(Vec::len).sum();
            st.target("disabled_runs", 1);
            if n > 0 {
                st.violation(Violation { signature: "ping-while-disabled|e2e".into(), detail: format!("[{}] {n} Ping(s) seen from a client whose keepalive is disabled", case.name), replay: replay() });
            }
        }
        Some(i_ms) => {
            // window: from the upgrade to the second attempt (if any) or the end of the observation
            let w_end = o.attempts.get(1).copied().unwrap_or(o.end);
            let w = w_end.saturating_duration_since(up).as_millis() as u64;
            let n = first_pings.iter().filter(|t| **t >= up && **t <= w_end).count() as u64;
            let least = (w / i_ms).saturating_sub(3);
            st.target("cadence_windows", 1);
            if n < least {
                if punctual {
                    st.violation(Violation { signature: "too-few-pings|e2e".into(), detail: format!("[{}] {n} Ping(s) in a window of {w} ms with I = {i_ms} ms (at least {least} expected): the connection does not run with the interval the client was given", case.name), replay: replay() });
                } else {
                    st.inconclusive.push(format!("c16e [{}]: {n} pings in {w} ms, but the runtime was late by {} ms", case.name, o.max_timer_overshoot_ms));
                }
            }
            for pair in first_pings.windows(2) {
                let gap = pair[1].duration_since(pair[0]).as_millis() as u64;
                if gap < i_ms / 2 {
                    // a late tick followed by a punctual one shortens a gap; half an interval is far outside that
                    if punctual {
                        st.violation(Violation { signature: "pings-too-fast|e2e".into(), detail: format!("[{}] two Pings {gap} ms apart with I = {i_ms} ms", case.name), replay: replay() });
                    }
                    break;
                }
            }
        }
    }
    // ---- reconnects
    let reconnected = o.attempts.get(1).copied();
    match (case.silent_after_ms, case.interval_ms.zip(case.timeout_ms)) {
        (None, _) => {
            st.target("live_peer_runs", 1);
            if let Some(at) = reconnected {
                st.violation(Violation { signature: "live-peer-timed-out|e2e".into(), detail: format!("[{}] the client reconnected at {} ms although every Ping was answered at once", case.name, ms(at)), replay: replay() });
            }
        }
        (Some(_), None) => {
            st.target("silent_peer_runs_without_timeout", 1);
            if let Some(at) = reconnected {
                st.violation(Violation { signature: "timeout-while-disabled|e2e".into(), detail: format!("[{}] the client gave the silent peer up at {} ms although its keepalive {} is disabled", case.name, ms(at), if case.interval_ms.is_none() { "interval" } else { "timeout" }), replay: replay() });
            }
        }
        (Some(_), Some((i_ms, t_ms))) => {
            st.target("silent_peer_runs", 1);
            let Some(silent_from) = o.silent_from else {
                st.inconclusive.push(format!("c16e [{}]: the gate never went silent", case.name));
                return;
            };
            // the last Pong relayed to the client, or the start of the connection
            let last_pong = first_pongs.iter().filter(|t| **t <= silent_from).max().copied().unwrap_or(up);
            let t_eff = t_ms.max(i_ms);
            match reconnected {
                Some(at) => {
                    let d = at.saturating_duration_since(last_pong).as_millis() as u64;
                    st.cell("abandoned_after_ms", d / 50 * 50);
                    if d + 50 < t_eff {
                        st.violation(Violation { signature: "timeout-too-early|e2e".into(), detail: format!("[{}] the silent peer was abandoned {d} ms after the last Pong, T = {t_eff} ms", case.name), replay: replay() });
                    } else if d > t_eff + i_ms + 200 + 700 {
                        if punctual {
                            st.violation(Violation { signature: "timeout-too-late|e2e".into(), detail: format!("[{}] the silent peer was abandoned {d} ms after the last Pong, T + I = {} ms", case.name, t_eff + i_ms), replay: replay() });
                        } else {
                            st.inconclusive.push(format!("c16e [{}]: abandoned after {d} ms, runtime late by {} ms", case.name, o.max_timer_overshoot_ms));
                        }
                    }
                }
                None => {
                    let waited = o.end.saturating_duration_since(last_pong).as_millis() as u64;
                    if waited > t_eff + i_ms + 200 + 700 {
                        if punctual {
                            st.violation(Violation { signature: "timeout-too-late|e2e".into(), detail: format!("[{}] the silent peer was still not abandoned {waited} ms after the last Pong, T + I = {} ms", case.name, t_eff + i_ms), replay: replay() });
                        } else {
                            st.inconclusive.push(format!("c16e [{}]: not abandoned after {waited} ms, runtime late by {} ms", case.name, o.max_timer_overshoot_ms));
                        }
                    } else {
                        st.inconclusive.push(format!("c16e [{}]: observation ended {waited} ms after the last Pong, before the bound", case.name));
                    }
                }
            }
        }
    }
}

pub fn run(p: &Params) -> (Stats, &'static str) {
    let mut st = Stats::new();
    st.engine("E2E", 1);
    rusty_penguin_lib::tls::init_crypto_provider();
    let all = cases();
    let repeats = if p.tier_thorough { 4 } else { 1 };
    for (i, case) in all.iter().enumerate() {
        if i as u64 % p.nshards != p.shard {
            continue;
        }
        for r in 0..repeats {
            let rt = tokio::runtime::Builder::new_multi_thread().worker_threads(2).enable_all().build().expect("rt");
            let o = rt.block_on(run_case(case));
            rt.shutdown_background();
            st.evaluations += 1;
            st.nontrivial(mix(crate::util::fnv(case.name.as_bytes()), mix(p.seed, r as u64)));
            st.cell("case", case.name);
            judge(&mut st, case, &o, p.seed);
            if st.samples.len() < 3 {
                let ms = |t: Instant| t.duration_since(o.t0).as_millis() as u64;
                st.sample(json!({"case": case.name, "pings_ms": o.pings.iter().map(|v| v.iter().map(|t| ms(*t)).collect::<Vec<_>>()).collect::<Vec<_>>(), "attempts_ms": o.attempts.iter().map(|t| ms(*t)).collect::<Vec<_>>()}));
            }
        }
    }
    (st, RULE)
}
