//! C10 (WebSocket adapter part) — the real tokio-tungstenite adapter of
//! penguin-mux/src/ws.rs under a hostile peer. The SIM/THR engines of vmux talk to
//! the connection task through an in-memory implementation of the `WebSocket`
//! trait, so the conversion of library messages (Text, Ping/Pong with payload,
//! fragmented messages, Close with a reason) is never executed there. Here one
//! real endpoint (`Multiplexor::new_with_opt` over a `WebSocketStream` on an
//! in-memory duplex pipe) faces a raw tungstenite peer that sends arbitrary
//! WebSocket messages; the oracle is the one of the statement: the endpoint never
//! panics, never hangs, every pending operation resolves, an invalid message
//! ends the connection with an error, and messages that are no offence against
//! an established stream leave its data intact.

#[path = "../../mux/src/refcodec.rs"]
mod refcodec;

use crate::util::{Params, Rng64, Stats, Violation, mix};
use futures_util::{SinkExt, StreamExt};
use penguin_mux::Multiplexor;
use refcodec::RefFrame;
use serde_json::json;
use std::sync::{Arc, Mutex};
use std::time::Duration;
use tokio::io::AsyncReadExt;
use tokio::task::JoinSet;
use tokio_tungstenite::WebSocketStream;
use tokio_tungstenite::tungstenite::Message;
use tokio_tungstenite::tungstenite::protocol::frame::coding::{CloseCode, Data, OpCode};
use tokio_tungstenite::tungstenite::protocol::frame::{CloseFrame, Frame};
use tokio_tungstenite::tungstenite::protocol::Role;

const RULE: &str = "one case = one real endpoint (Multiplexor over tokio-tungstenite's WebSocketStream on an in-memory pipe, the adapter of penguin-mux/src/ws.rs) with an established stream, a pending read, a pending open and a pending get_datagram; a raw tungstenite peer sends 1-3 WebSocket messages \
(Text of any length and content incl. multi-byte characters, Binary, Ping/Pong with payload, fragmented Binary, Close with and without reason), then one Push on the established stream and a Close. \
Oracle (virtual time, 5 s bounds): the connection task never panics and always ends; every pending operation resolves; a Text/Binary message that the reference decoder rejects ends the connection with an error; after messages that are control messages or valid frames for unknown flows the Push is still delivered to the reader. \
Non-trivial = every case";

#[derive(Clone, Debug)]
enum Probe {
    Text(String),
    Binary(Vec<u8>),
    Ping(Vec<u8>),
    Pong(Vec<u8>),
    Fragmented(Vec<u8>, usize),
    Close(Option<(u16, String)>),
}

impl Probe {
    fn kind(&self) -> &'static str {
        match self {
            Probe::Text(_) => "Text",
            Probe::Binary(_) => "Binary",
            Probe::Ping(_) => "Ping",
            Probe::Pong(_) => "Pong",
            Probe::Fragmented(..) => "Fragmented",
            Probe::Close(_) => "Close",
        }
    }
    fn short(&self) -> String {
        match self {
            Probe::Text(t) => format!("Text({} bytes, {} chars, starts {:?})", t.len(), t.chars().count(), t.chars().take(6).collect::<String>()),
            Probe::Binary(b) => format!("Binary({} bytes, starts {:02x?})", b.len(), &b[..b.len().min(8)]),
            Probe::Ping(b) => format!("Ping({} bytes)", b.len()),
            Probe::Pong(b) => format!("Pong({} bytes)", b.len()),
            Probe::Fragmented(b, at) => format!("Fragmented({} bytes split at {at})", b.len()),
            Probe::Close(r) => format!("Close({r:?})"),
        }
    }
    /// payload the connection task will get to see as one message, if any
    fn payload(&self) -> Option<Vec<u8>> {
        match self {
            Probe::Text(t) => Some(t.as_bytes().to_vec()),
            Probe::Binary(b) | Probe::Fragmented(b, _) => Some(b.clone()),
            _ => None,
        }
    }
}

const S1: u32 = 0x51;
const MARKER: &[u8] = b"<<marker-after-probe>>";

fn gen_text(rng: &mut Rng64) -> String {
    let target = *rng.pick(&[0usize, 1, 3, 4, 5, 9, 15, 16, 17, 31, 33, 60, 63, 64, 65, 66, 67, 70, 100, 127, 128, 129, 130, 200, 255, 256, 257, 300, 1000, 5000]);
    let multibyte_permille = *rng.pick(&[0u64, 50, 300, 700, 1000]);
    let mut s = String::new();
    // first character: a byte that looks like a version-7 frame header, plain ASCII, or a multi-byte character
    match rng.below(4) {
        0 => s.push(*rng.pick(&['p', 'q', 'r', 's', 't', 'u', 'v', 'w', '\u{7f}'])),
        1 => s.push(*rng.pick(&['\u{0}', '\u{1}', '\u{4}', '\u{6}', 'a', 'H', '{'])),
        2 => s.push(*rng.pick(&['é', '€', '😀', 'ß'])),
        _ => {}
    }
    while s.len() < target {
        if rng.below(1000) < multibyte_permille {
            s.push(*rng.pick(&['é', 'ü', '€', '漢', '😀', '\u{80}', '\u{7ff}', '\u{800}', '\u{ffff}', '\u{10000}']));
        } else {
            s.push((b' ' + rng.below(95) as u8) as char);
        }
    }
    s
}

fn gen_binary(rng: &mut Rng64) -> Vec<u8> {
    match rng.below(6) {
        0 => (0..rng.below(5)).map(|_| rng.below(256) as u8).collect(),
        1 => {
            // a valid frame for an unknown flow
            let id = 0x1000 + rng.below(1000) as u32;
            match rng.below(4) {
                0 => RefFrame::Push { id, data: vec![7; rng.below(40) as usize] }.encode(),
                1 => RefFrame::Ack { id, n: rng.below(9) as u32 }.encode(),
                2 => RefFrame::Finish { id }.encode(),
                _ => RefFrame::Reset { id }.encode(),
            }
        }
        2 => {
            // bad version / bad opcode
            let mut v = RefFrame::Push { id: 0x2000, data: vec![1, 2, 3] }.encode();
            v[0] = if rng.chance(1, 2) { (rng.range(1, 15) as u8) << 4 | 4 } else { 0x70 | rng.range(7, 15) as u8 };
            v
        }
        3 => {
            // datagram whose host length exceeds the message
            let mut v = vec![0x76, 0, 0, 0, 9, 200, 0, 80];
            v.extend_from_slice(b"short");
            v
        }
        4 => (0..rng.range(5, 300)).map(|_| rng.below(256) as u8).collect(),
        _ => RefFrame::Push { id: S1, data: b"in-band".to_vec() }.encode(),
    }
}

fn gen_probe(rng: &mut Rng64) -> Probe {
    match rng.below(12) {
        0..=4 => Probe::Text(gen_text(rng)),
        5 | 6 => Probe::Binary(gen_binary(rng)),
        7 => Probe::Ping((0..rng.below(126)).map(|_| rng.below(256) as u8).collect()),
        8 => Probe::Pong((0..rng.below(126)).map(|_| rng.below(256) as u8).collect()),
        9 => {
            let b = if rng.chance(1, 2) { RefFrame::Push { id: 0x3000, data: vec![9; rng.range(1, 400) as usize] }.encode() } else { gen_binary(rng) };
            let at = rng.below(b.len() as u64 + 1) as usize;
            Probe::Fragmented(b, at)
        }
        10 => Probe::Close(if rng.chance(1, 2) { None } else { Some((*rng.pick(&[1000u16, 1001, 1002, 1008, 1011, 3000, 4999]), gen_text(rng).chars().take(30).collect())) }),
        _ => Probe::Text(gen_text(rng)),
    }
}

#[derive(Debug, Default, Clone)]
struct Outcome {
    setup_error: Option<String>,
    /// "ok", "err:<e>", "panicked", "hung"
    task: String,
    read: String,
    read_bytes: Vec<u8>,
    open: String,
    dgram: String,
    peer_saw: Vec<String>,
}

async fn scenario(probes: Vec<Probe>) -> Outcome {
    let mut out = Outcome::default();
    let (a, b) = tokio::io::duplex(1 << 20);
    let ws_s = WebSocketStream::from_raw_socket(a, Role::Server, None).await;
    let ws_c = WebSocketStream::from_raw_socket(b, Role::Client, None).await;
    let mut js: JoinSet<Result<(), penguin_mux::Error>> = JoinSet::new();
    let mux = Arc::new(Multiplexor::new_with_opt(ws_s, penguin_mux::config::Options::new(), Some(&mut js)));
    let (mut tx, mut rx) = ws_c.split();
    let seen: Arc<Mutex<Vec<String>>> = Arc::new(Mutex::new(Vec::new()));
    let seen2 = seen.clone();
    let drain = tokio::spawn(async move {
        while let Some(m) = rx.next().await {
            let d = match m {
                Ok(Message::Binary(b)) => match RefFrame::decode(&b) {
                    Ok(f) => format!("{}({:x})", f.name(), f.id()),
                    Err(e) => format!("undecodable({e:?})"),
                },
                Ok(Message::Ping(_)) => "ws-ping".into(),
                Ok(Message::Pong(_)) => "ws-pong".into(),
                Ok(Message::Close(_)) => "ws-close".into(),
                Ok(other) => format!("{other:?}").chars().take(20).collect(),
                Err(e) => {
                    seen2.lock().unwrap().push(format!("ws-error({e})").chars().take(60).collect());
                    break;
                }
            };
            let mut s = seen2.lock().unwrap();
            if s.len() < 40 {
                s.push(d);
            }
        }
    });
    let connect = RefFrame::Connect { id: S1, rwnd: 8, port: 1, host: b"a".to_vec() }.encode();
    if tx.send(Message::Binary(connect.into())).await.is_err() {
        out.setup_error = Some("cannot send Connect".into());
        return out;
    }
    let mut s1 = match tokio::time::timeout(Duration::from_secs(5), mux.accept_stream_channel()).await {
        Ok(Ok(s)) => s,
        other => {
            out.setup_error = Some(format!("accept: {:?}", other.map(|r| r.map(|_| ()))));
            return out;
        }
    };
    let reader = tokio::spawn(async move {
        let mut got = Vec::new();
        let mut buf = [0u8; 1024];
        let res = loop {
            match s1.read(&mut buf).await {
                Ok(0) => break "eof".to_string(),
                Ok(n) => got.extend_from_slice(&buf[..n]),
                Err(e) => break format!("err:{:?}", e.kind()),
            }
        };
        (res, got)
    });
    let m2 = mux.clone();
    let opener = tokio::spawn(async move {
        match m2.new_stream_channel(b"never-answered", 9).await {
            Ok(_) => "ok".to_string(),
            Err(e) => format!("err:{e}"),
        }
    });
    let m3 = mux.clone();
    let dgram = tokio::spawn(async move {
        match m3.get_datagram().await {
            Ok(_) => "ok".to_string(),
            Err(e) => format!("err:{e}"),
        }
    });
    tokio::time::sleep(Duration::from_millis(10)).await;
    for p in &probes {
        let r = match p {
            Probe::Text(t) => tx.send(Message::Text(t.as_str().into())).await,
            Probe::Binary(b) => tx.send(Message::Binary(b.clone().into())).await,
            Probe::Ping(b) => tx.send(Message::Ping(b.clone().into())).await,
            Probe::Pong(b) => tx.send(Message::Pong(b.clone().into())).await,
            Probe::Fragmented(b, at) => {
                let first = Frame::message(b[..*at].to_vec(), OpCode::Data(Data::Binary), false);
                let second = Frame::message(b[*at..].to_vec(), OpCode::Data(Data::Continue), true);
                match tx.send(Message::Frame(first)).await {
                    Ok(()) => tx.send(Message::Frame(second)).await,
                    e => e,
                }
            }
            Probe::Close(r) => tx.send(Message::Close(r.as_ref().map(|(c, t)| CloseFrame { code: CloseCode::from(*c), reason: t.as_str().into() }))).await,
        };
        if r.is_err() {
            break;
        }
        tokio::time::sleep(Duration::from_millis(5)).await;
    }
    let push = RefFrame::Push { id: S1, data: MARKER.to_vec() }.encode();
    let _ = tx.send(Message::Binary(push.into())).await;
    tokio::time::sleep(Duration::from_millis(10)).await;
    let _ = tx.send(Message::Close(None)).await;
    let _ = tx.flush().await;
    out.task = match tokio::time::timeout(Duration::from_secs(5), js.join_next()).await {
        Err(_) => "hung".into(),
        Ok(None) => "no-task".into(),
        Ok(Some(Ok(Ok(())))) => "ok".into(),
        Ok(Some(Ok(Err(e)))) => format!("err:{e}").chars().take(80).collect(),
        Ok(Some(Err(je))) => {
            if je.is_panic() {
                "panicked".into()
            } else {
                "cancelled".into()
            }
        }
    };
    match tokio::time::timeout(Duration::from_secs(5), reader).await {
        Err(_) => out.read = "hung".into(),
        Ok(Ok((r, got))) => {
            out.read = r;
            out.read_bytes = got;
        }
        Ok(Err(_)) => out.read = "reader-panicked".into(),
    }
    out.open = match tokio::time::timeout(Duration::from_secs(5), opener).await {
        Err(_) => "hung".into(),
        Ok(Ok(r)) => r,
        Ok(Err(_)) => "panicked".into(),
    };
    out.dgram = match tokio::time::timeout(Duration::from_secs(5), dgram).await {
        Err(_) => "hung".into(),
        Ok(Ok(r)) => r,
        Ok(Err(_)) => "panicked".into(),
    };
    drop(tx);
    drop(mux);
    drain.abort();
    out.peer_saw = seen.lock().unwrap().clone();
    out
}

fn one(st: &mut Stats, seed: u64) {
    st.evaluations += 1;
    st.engine("E2E", 1);
    let mut rng = Rng64::new(mix(seed, 0xC10));
    let n = *rng.pick(&[1usize, 1, 1, 2, 3]);
    let probes: Vec<Probe> = (0..n).map(|_| gen_probe(&mut rng)).collect();
    let rt = tokio::runtime::Builder::new_current_thread().enable_all().start_paused(true).build().expect("runtime");
    let p2 = probes.clone();
    let res = rt.block_on(async move { tokio::time::timeout(Duration::from_secs(600), scenario(p2)).await });
    drop(rt);
    let kinds: Vec<&str> = probes.iter().map(Probe::kind).collect();
    let kind = kinds.join("+");
    st.cell("probe_kinds", &kind);
    st.nontrivial(seed);
    let desc: Vec<String> = probes.iter().map(Probe::short).collect();
    let out = match res {
        Ok(o) => o,
        Err(_) => {
            st.violation(Violation { signature: format!("scenario-hung|{kind}"), detail: format!("the whole case did not finish within 600 s of virtual time: {desc:?}"), replay: json!({"kind": "c10w", "run_seed": seed, "probes": desc}) });
            return;
        }
    };
    if let Some(e) = &out.setup_error {
        st.inconclusive.push(format!("c10w set-up failed: {e}"));
        return;
    }
    let replay = json!({"kind": "c10w", "run_seed": seed, "probes": desc, "task": out.task, "read": out.read, "read_bytes": out.read_bytes.len(), "open": out.open, "get_datagram": out.dgram, "peer_saw": out.peer_saw,
        "full_text": probes.iter().filter_map(|p| if let Probe::Text(t) = p { Some(t.chars().take(400).collect::<String>()) } else { None }).collect::<Vec<_>>()});
    st.target("ws_level_cases", 1);
    if out.task == "panicked" {
        st.violation(Violation { signature: format!("task-panicked|{}", kinds[0]), detail: format!("the connection task panicked on WebSocket messages {desc:?} from the peer"), replay: replay.clone() });
    }
    if out.task == "hung" {
        st.violation(Violation { signature: format!("task-hung|{}", kinds[0]), detail: format!("the connection task did not end within 5 s (virtual) after the peer's Close; messages {desc:?}"), replay: replay.clone() });
    }
    for (name, r) in [("read", &out.read), ("open", &out.open), ("get_datagram", &out.dgram)] {
        if r == "hung" || r.contains("panicked") {
            st.violation(Violation { signature: format!("pending-op-unresolved|{name}|{}", kinds[0]), detail: format!("the pending {name} never resolved ({r}) after the connection ended (task: {}); messages {desc:?}", out.task), replay: replay.clone() });
        }
    }
    if out.task == "panicked" || out.task == "hung" {
        return;
    }
    // classification by the reference decoder
    let mut expect_fatal = None;
    let mut harmless = true;
    for p in &probes {
        match p {
            Probe::Close(_) => {
                harmless = false;
                break;
            }
            Probe::Ping(_) | Probe::Pong(_) => {}
            _ => {
                let b = p.payload().unwrap_or_default();
                match RefFrame::decode(&b) {
                    Err(e) => {
                        expect_fatal = Some(format!("{} rejected by the reference decoder: {e:?}", p.short()));
                        harmless = false;
                        break;
                    }
                    Ok(f) => {
                        let unknown_flow_frame = matches!(f, RefFrame::Push { .. } | RefFrame::Ack { .. } | RefFrame::Finish { .. } | RefFrame::Reset { .. }) && f.id() != S1 && f.id() != 0;
                        let in_band = matches!(&f, RefFrame::Push { id, .. } if *id == S1);
                        if !(unknown_flow_frame || in_band) {
                            harmless = false;
                        }
                    }
                }
            }
        }
    }
    if let Some(why) = expect_fatal {
        st.target("invalid_messages", 1);
        if !out.task.starts_with("err:") {
            st.violation(Violation { signature: format!("invalid-message-not-an-error|{}", kinds[0]), detail: format!("{why}, but the connection task ended with {:?}", out.task), replay: replay.clone() });
        }
        if out.read_bytes.ends_with(MARKER) {
            st.violation(Violation { signature: format!("served-after-invalid-message|{}", kinds[0]), detail: format!("{why}, but the Push sent after it was still delivered"), replay: replay.clone() });
        }
    } else if harmless {
        st.target("harmless_messages", 1);
        if !out.read_bytes.ends_with(MARKER) {
            st.violation(Violation { signature: format!("stream-disturbed-by-harmless-message|{}", kinds[0]), detail: format!("messages {desc:?} are control messages or valid frames for unknown flows, but the Push sent after them did not reach the reader of the established stream (read ended {:?} with {} bytes; task {:?})", out.read, out.read_bytes.len(), out.task), replay: replay.clone() });
        }
        if out.task != "ok" {
            st.violation(Violation { signature: format!("error-after-harmless-message|{}", kinds[0]), detail: format!("messages {desc:?} followed by an orderly Close: the connection task ended with {:?}", out.task), replay: replay.clone() });
        }
    }
    if st.samples.len() < 3 {
        st.sample(replay);
    }
}

pub fn run(p: &Params) -> (Stats, &'static str) {
    std::panic::set_hook(Box::new(|_| {}));
    let mut st = Stats::new();
    let base = p.shard_seed("C10W");
    let n = p.share(if p.tier_thorough { 200_000 } else { 3_000 });
    for i in 0..n {
        one(&mut st, mix(base, i));
        if st.too_many_violations() {
            break;
        }
    }
    (st, RULE)
}
