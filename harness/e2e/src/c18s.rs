//! C18 (front-end part) — the SOCKS conversation as the client's SOCKS front-end
//! (penguin/src/client/handle_remote/socks.rs) drives it, byte for byte on a real
//! socket. The PURE job of vmux checks the parsers and writers of penguin-socks
//! against a reference grammar; which method is selected, which reply code
//! answers which command and what follows a reply is decided by the driver, which
//! only runs behind a real listener. One real server and one real client with a
//! `socks` remote; scripted SOCKS clients with seeded method lists, commands,
//! address types and write chunkings; two echo targets with different markers.

use crate::net;
use crate::util::{Params, Rng64, Stats, Violation, mix};
use penguin_mux::timing::OptionalDuration;
use rusty_penguin_lib::arg::{ClientArgs, Remote, ServerUrl};
use rusty_penguin_lib::client::{self, HandlerResources};
use rusty_penguin_lib::server::{State, run_listener};
use serde_json::json;
use std::str::FromStr;
use std::time::Duration;
use tokio::io::{AsyncReadExt, AsyncWriteExt};
use tokio::net::{TcpListener, TcpStream};

const RULE: &str = "one case = one scripted SOCKS client on a fresh connection to the real client's SOCKS listener (real client_main_inner + real server + two marker-echo targets on loopback). \
SOCKS5: a METHODS list of 0-8 (sometimes 255) methods in seeded order, sent whole, byte by byte, or together with the request; oracle per RFC 1928: the reply is 05 00 exactly when 00 is among the offered methods, else 05 FF; \
then CONNECT (IPv4 literal / domain name, target A or B), BIND, UDP ASSOCIATE or an unassigned command: the reply is VER 05, RSV 00, a well-formed BND address, REP 00 for CONNECT / UDP ASSOCIATE and 07 for everything else, after a failure reply the connection is closed, after CONNECT the marker of the addressed target and an echo of seeded bytes come back. \
SOCKS4 / 4a: CONNECT (user id of 0-40 bytes) is answered 00 5A + 6 bytes and reaches the addressed target, BIND is answered 00 5B and closed. Non-trivial = every conversation";

struct Env {
    socks_port: u16,
    ta_port: u16,
    tb_port: u16,
}

async fn echo_target(l: TcpListener, marker: u8) {
    loop {
        let Ok((mut s, _)) = l.accept().await else { break };
        tokio::spawn(async move {
            s.set_nodelay(true).ok();
            if s.write_all(&[marker]).await.is_err() {
                return;
            }
            let mut buf = [0u8; 4096];
            loop {
                match s.read(&mut buf).await {
                    Ok(0) | Err(_) => break,
                    Ok(n) => {
                        if s.write_all(&buf[..n]).await.is_err() {
                            break;
                        }
                    }
                }
            }
        });
    }
}

#[derive(Clone, Debug)]
enum Req {
    /// (domain name instead of literal, target B instead of A)
    Connect { domain: bool, b: bool },
    Bind,
    Assoc,
    Other(u8),
}

#[derive(Clone, Debug)]
struct Case {
    v5: bool,
    methods: Vec<u8>,
    /// 0 = one write per message, 1 = byte by byte, 2 = greeting and request in one write
    chunking: u8,
    req: Req,
    userid: Vec<u8>,
    payload: Vec<u8>,
}

#[derive(Debug, Default)]
struct Obs {
    method_reply: Option<Vec<u8>>,
    reply: Option<Vec<u8>>,
    marker: Option<u8>,
    echo_ok: Option<bool>,
    closed_after_reply: Option<bool>,
    err: Option<String>,
}

async fn send(s: &mut TcpStream, data: &[u8], bytewise: bool) -> std::io::Result<()> {
    if bytewise {
        for b in data {
            s.write_all(&[*b]).await?;
            s.flush().await?;
            tokio::time::sleep(Duration::from_micros(300)).await;
        }
        Ok(())
    } else {
        s.write_all(data).await
    }
}

async fn read_n(s: &mut TcpStream, n: usize) -> Result<Vec<u8>, String> {
    let mut v = vec![0u8; n];
    match tokio::time::timeout(Duration::from_secs(10), s.read_exact(&mut v)).await {
        Err(_) => Err("timeout".into()),
        Ok(Err(e)) => Err(format!("{}", e.kind())),
        Ok(Ok(_)) => Ok(v),
    }
}

/// true = the peer closed (EOF or reset) within 10 s
async fn closed(s: &mut TcpStream) -> bool {
    let mut b = [0u8; 64];
    loop {
        match tokio::time::timeout(Duration::from_secs(10), s.read(&mut b)).await {
            Err(_) => return false,
            Ok(Ok(0)) | Ok(Err(_)) => return true,
            Ok(Ok(_)) => {}
        }
    }
}

async fn converse(env: &Env, c: &Case) -> Obs {
    let mut o = Obs::default();
    let mut s = match TcpStream::connect(("127.0.0.1", env.socks_port)).await {
        Ok(s) => s,
        Err(e) => {
            o.err = Some(format!("connect: {e}"));
            return o;
        }
    };
    s.set_nodelay(true).ok();
    let (tport, thost_v4, tname) = match &c.req {
        Req::Connect { b: true, .. } => (env.tb_port, [127, 0, 0, 1], "localhost"),
        _ => (env.ta_port, [127, 0, 0, 1], "localhost"),
    };
    let bytewise = c.chunking == 1;
    if c.v5 {
        let mut greeting = vec![5u8, c.methods.len() as u8];
        greeting.extend_from_slice(&c.methods);
        let cmd = match &c.req {
            Req::Connect { .. } => 1u8,
            Req::Bind => 2,
            Req::Assoc => 3,
            Req::Other(x) => *x,
        };
        let mut req = vec![5u8, cmd, 0];
        match &c.req {
            Req::Connect { domain: true, .. } => {
                req.push(3);
                req.push(tname.len() as u8);
                req.extend_from_slice(tname.as_bytes());
            }
            _ => {
                req.push(1);
                req.extend_from_slice(&thost_v4);
            }
        }
        req.extend_from_slice(&(if matches!(c.req, Req::Assoc) { 0 } else { tport }).to_be_bytes());
        let acceptable = c.methods.contains(&0);
        if c.chunking == 2 && acceptable {
            let mut all = greeting.clone();
            all.extend_from_slice(&req);
            if let Err(e) = send(&mut s, &all, false).await {
                o.err = Some(format!("write: {e}"));
                return o;
            }
        } else if let Err(e) = send(&mut s, &greeting, bytewise).await {
            o.err = Some(format!("write greeting: {e}"));
            return o;
        }
        match read_n(&mut s, 2).await {
            Ok(v) => o.method_reply = Some(v),
            Err(e) => {
                o.err = Some(format!("method reply: {e}"));
                return o;
            }
        }
        if !acceptable || o.method_reply.as_deref() != Some(&[5, 0]) {
            return o;
        }
        if c.chunking != 2 {
            if let Err(e) = send(&mut s, &req, bytewise).await {
                o.err = Some(format!("write request: {e}"));
                return o;
            }
        }
        // reply: VER REP RSV ATYP BND.ADDR BND.PORT
        let head = match read_n(&mut s, 4).await {
            Ok(v) => v,
            Err(e) => {
                o.err = Some(format!("reply head: {e}"));
                return o;
            }
        };
        let rest_len = match head[3] {
            1 => 6,
            4 => 18,
            3 => match read_n(&mut s, 1).await {
                Ok(l) => l[0] as usize + 2 + 1000, // marker: length byte consumed
                Err(e) => {
                    o.err = Some(format!("reply domain length: {e}"));
                    o.reply = Some(head);
                    return o;
                }
            },
            _ => {
                o.reply = Some(head);
                return o;
            }
        };
        let mut full = head.clone();
        let n = if rest_len >= 1000 {
            full.push((rest_len - 1002) as u8);
            rest_len - 1000
        } else {
            rest_len
        };
        match read_n(&mut s, n).await {
            Ok(v) => full.extend_from_slice(&v),
            Err(e) => {
                o.err = Some(format!("reply body: {e}"));
                o.reply = Some(full);
                return o;
            }
        }
        o.reply = Some(full);
    } else {
        let cmd = match &c.req {
            Req::Connect { .. } => 1u8,
            _ => 2,
        };
        let mut req = vec![4u8, cmd];
        req.extend_from_slice(&tport.to_be_bytes());
        match &c.req {
            Req::Connect { domain: true, .. } => {
                req.extend_from_slice(&[0, 0, 0, 7]);
                req.extend_from_slice(&c.userid);
                req.push(0);
                req.extend_from_slice(tname.as_bytes());
                req.push(0);
            }
            _ => {
                req.extend_from_slice(&thost_v4);
                req.extend_from_slice(&c.userid);
                req.push(0);
            }
        }
        if let Err(e) = send(&mut s, &req, bytewise).await {
            o.err = Some(format!("write request: {e}"));
            return o;
        }
        match read_n(&mut s, 8).await {
            Ok(v) => o.reply = Some(v),
            Err(e) => {
                o.err = Some(format!("reply: {e}"));
                return o;
            }
        }
    }
    let success = o.reply.as_ref().map(|r| if c.v5 { r[1] == 0 } else { r[1] == 90 }).unwrap_or(false);
    match (&c.req, success) {
        (Req::Connect { .. }, true) => {
            match read_n(&mut s, 1).await {
                Ok(m) => o.marker = Some(m[0]),
                Err(e) => {
                    o.err = Some(format!("marker: {e}"));
                    return o;
                }
            }
            if s.write_all(&c.payload).await.is_ok() {
                o.echo_ok = Some(read_n(&mut s, c.payload.len()).await.map(|v| v == c.payload).unwrap_or(false));
            } else {
                o.echo_ok = Some(false);
            }
        }
        (Req::Assoc, true) => {}
        _ => o.closed_after_reply = Some(closed(&mut s).await),
    }
    o
}

fn gen_case(rng: &mut Rng64) -> Case {
    let v5 = rng.chance(3, 4);
    let pool = [0u8, 1, 2, 3, 0x80, 0xFE, 0xFF];
    let n = match rng.below(10) {
        0 => 0,
        1 => 255,
        _ => rng.range(1, 8) as usize,
    };
    let mut methods: Vec<u8> = (0..n).map(|_| *rng.pick(&pool[1..])).collect();
    // NO AUTHENTICATION REQUIRED offered in two cases out of three, at a seeded position
    if n > 0 && rng.chance(2, 3) {
        let at = rng.below(n as u64) as usize;
        methods[at] = 0;
    }
    let req = match rng.below(8) {
        0 => Req::Bind,
        1 => Req::Assoc,
        2 => Req::Other(*rng.pick(&[0u8, 4, 9, 0x7f, 0xff])),
        _ => Req::Connect { domain: rng.chance(1, 2), b: rng.chance(1, 2) },
    };
    let req = if !v5 && matches!(req, Req::Assoc | Req::Other(_)) { Req::Bind } else { req };
    let ulen = *rng.pick(&[0usize, 1, 5, 40]);
    Case {
        v5,
        methods,
        chunking: rng.below(3) as u8,
        req,
        userid: (0..ulen).map(|_| rng.range(1, 255) as u8).collect(),
        payload: (0..rng.range(1, 3000)).map(|_| rng.below(256) as u8).collect(),
    }
}

fn judge(st: &mut Stats, seed: u64, c: &Case, o: &Obs) {
    st.evaluations += 1;
    st.nontrivial(seed);
    let replay = json!({"kind": "c18s", "run_seed": seed, "case": format!("{:?}", Case { payload: vec![], ..c.clone() }), "observed": format!("{o:?}")});
    let tag = if c.v5 { "socks5" } else { "socks4" };
    st.cell("version", tag);
    st.cell("request", format!("{:?}", c.req).split(' ').next().unwrap_or("").to_string());
    st.cell("chunking", c.chunking);
    let mut fail = |st: &mut Stats, sig: String, detail: String| st.violation(Violation { signature: sig, detail: format!("{detail} [case {:?}]", Case { payload: vec![], ..c.clone() }), replay: replay.clone() });
    if let Some(e) = &o.err {
        if e.starts_with("connect") {
            st.inconclusive.push(format!("c18s: {e}"));
        } else {
            fail(st, format!("conversation-broken|{tag}|{}", e.split(':').next().unwrap_or("")), format!("the SOCKS conversation broke off: {e}; observed {o:?}"));
        }
        return;
    }
    st.target("socks_conversations", 1);
    if c.v5 {
        let expect: [u8; 2] = if c.methods.contains(&0) { [5, 0] } else { [5, 0xFF] };
        st.target("method_selections", 1);
        if c.methods.contains(&0) && c.methods.first() != Some(&0) {
            st.target("noauth_offered_not_first", 1);
        }
        if o.method_reply.as_deref() != Some(&expect) {
            fail(st, format!("method-selection|offered-{}|got-{:02x?}", if c.methods.contains(&0) { "noauth" } else { "no-acceptable" }, o.method_reply.clone().unwrap_or_default()),
                format!("METHODS {:02x?}: RFC 1928 section 3 requires the reply {:02x?} (a method from the list, FF only when none is acceptable), got {:02x?}", c.methods, expect, o.method_reply));
            return;
        }
        if expect[1] == 0xFF {
            return;
        }
        let Some(r) = &o.reply else {
            fail(st, "no-reply|socks5".into(), "no reply to the request".into());
            return;
        };
        let want_rep = match c.req {
            Req::Connect { .. } | Req::Assoc => 0u8,
            _ => 7,
        };
        let well_formed = r.len() >= 4 && r[0] == 5 && r[2] == 0 && match r[3] {
            1 => r.len() == 10,
            4 => r.len() == 22,
            3 => r.len() == 7 + r[4] as usize,
            _ => false,
        };
        if !well_formed {
            fail(st, "reply-malformed|socks5".into(), format!("the reply {r:02x?} is not VER 05, REP, RSV 00, ATYP, BND.ADDR, BND.PORT"));
            return;
        }
        if r[1] != want_rep {
            fail(st, format!("reply-code|socks5|{:?}|got-{:02x}", std::mem::discriminant(&c.req), r[1]).replace("Discriminant", ""), format!("request {:?}: expected REP {want_rep:02x}, got {:02x}", c.req, r[1]));
            return;
        }
        if matches!(c.req, Req::Assoc) {
            let port = u16::from_be_bytes([r[r.len() - 2], r[r.len() - 1]]);
            if port == 0 {
                fail(st, "assoc-no-relay-port".into(), format!("UDP ASSOCIATE answered with BND.PORT 0: {r:02x?}"));
            }
            st.target("associate_replies", 1);
        }
    } else {
        let Some(r) = &o.reply else {
            fail(st, "no-reply|socks4".into(), "no reply to the request".into());
            return;
        };
        let want = if matches!(c.req, Req::Connect { .. }) { 90u8 } else { 91 };
        if r.len() != 8 || r[0] != 0 || r[1] != want {
            fail(st, format!("reply|socks4|got-{:02x?}", &r[..r.len().min(2)]), format!("request {:?}: expected 00 {want:02x} + 6 bytes, got {r:02x?}", c.req));
            return;
        }
    }
    match &c.req {
        Req::Connect { b, .. } => {
            let want = if *b { b'B' } else { b'A' };
            st.target("connects_served", 1);
            if o.marker != Some(want) {
                fail(st, format!("wrong-target|{tag}"), format!("the request addressed target {} but the first byte came from {:?}", want as char, o.marker.map(|m| m as char)));
            }
            if o.echo_ok != Some(true) {
                fail(st, format!("echo-broken|{tag}"), format!("{} bytes sent after the reply did not come back unchanged", c.payload.len()));
            }
        }
        Req::Assoc => {}
        _ => {
            st.target("failure_replies", 1);
            if o.closed_after_reply != Some(true) {
                fail(st, format!("open-after-failure-reply|{tag}"), "the connection stayed open for 10 s after a failure reply (RFC 1928 section 6: the server MUST terminate the connection shortly after)".into());
            }
        }
    }
}

async fn run_cases(seed: u64, cases: Vec<Case>) -> Option<Vec<(Case, Obs)>> {
    let state = State::new().await.expect("state").with_not_found_resp("404").with_backend_http2_support(false);
    let srv_l = TcpListener::bind("127.0.0.1:0").await.expect("bind");
    let srv_addr = srv_l.local_addr().expect("addr");
    let srv = tokio::spawn(run_listener(srv_l, None, state));
    let la = TcpListener::bind("127.0.0.1:0").await.expect("bind");
    let lb = TcpListener::bind("127.0.0.1:0").await.expect("bind");
    let env = Env { socks_port: net::free_tcp_port(false), ta_port: la.local_addr().expect("addr").port(), tb_port: lb.local_addr().expect("addr").port() };
    let ta = tokio::spawn(echo_target(la, b'A'));
    let tb = tokio::spawn(echo_target(lb, b'B'));
    let args: &'static ClientArgs = Box::leak(Box::new(ClientArgs {
        server: ServerUrl::from_str(&format!("ws://{srv_addr}/ws")).expect("url"),
        remote: vec![Remote::from_str(&format!("127.0.0.1:{}:socks", env.socks_port)).expect("remote")],
        keepalive: OptionalDuration::NONE,
        keepalive_timeout: OptionalDuration::NONE,
        max_retry_count: 0,
        max_retry_interval: 400,
        handshake_timeout: OptionalDuration::from_secs(5),
        channel_timeout: OptionalDuration::from_secs(10),
        ..Default::default()
    }));
    let (hr, scrx, dgrx) = HandlerResources::create();
    let hr: &'static HandlerResources = Box::leak(Box::new(hr));
    let cl = tokio::spawn(client::client_main_inner(args, hr, scrx, dgrx));
    // warm-up: a plain SOCKS5 CONNECT must work
    let warm = Case { v5: true, methods: vec![0], chunking: 0, req: Req::Connect { domain: false, b: false }, userid: vec![], payload: vec![1, 2, 3] };
    let mut ready = false;
    for _ in 0..50 {
        if cl.is_finished() {
            break;
        }
        let o = converse(&env, &warm).await;
        if o.echo_ok == Some(true) {
            ready = true;
            break;
        }
        tokio::time::sleep(Duration::from_millis(100)).await;
    }
    let mut out = Vec::new();
    if ready {
        for c in cases {
            let o = converse(&env, &c).await;
            out.push((c, o));
        }
    }
    let _ = seed;
    cl.abort();
    srv.abort();
    ta.abort();
    tb.abort();
    ready.then_some(out)
}

// ------------------------------------------------------------------ what the tunnel is asked for

/// A server of our own behind the client: it completes the penguin-v7 upgrade, runs a real `Multiplexor` on the connection and
/// records the target (host octets, port) of every stream request before dropping the stream.
async fn recording_server(l: TcpListener, rec: std::sync::Arc<std::sync::Mutex<Vec<(Vec<u8>, u16)>>>) {
    use tokio_tungstenite::tungstenite::handshake::server::{Request, Response};
    loop {
        let Ok((s, _)) = l.accept().await else { break };
        let rec = rec.clone();
        tokio::spawn(async move {
            s.set_nodelay(true).ok();
            let cb = |_req: &Request, mut resp: Response| {
                resp.headers_mut().insert("sec-websocket-protocol", "penguin-v7".parse().expect("header"));
                Ok(resp)
            };
            let Ok(ws) = tokio_tungstenite::accept_hdr_async(s, cb).await else { return };
            let mux = penguin_mux::Multiplexor::new(ws);
            while let Ok(st) = mux.accept_stream_channel().await {
                rec.lock().unwrap().push((st.dest_host.to_vec(), st.dest_port));
                drop(st);
            }
        });
    }
}

/// The address a SOCKS request names is the address the tunnel is asked for: the same octets for a domain name (SOCKS5 ATYP 3,
/// SOCKS4a), the same address for literals, the same port - whatever octets the name consists of (RFC 1928 puts no character
/// set on DST.ADDR).
async fn passed_on(st: &mut Stats, seed: u64, n: usize) {
    let rec = std::sync::Arc::new(std::sync::Mutex::new(Vec::new()));
    let srv_l = TcpListener::bind("127.0.0.1:0").await.expect("bind");
    let srv_addr = srv_l.local_addr().expect("addr");
    let srv = tokio::spawn(recording_server(srv_l, rec.clone()));
    let socks_port = net::free_tcp_port(false);
    let args: &'static ClientArgs = Box::leak(Box::new(ClientArgs {
        server: ServerUrl::from_str(&format!("ws://{srv_addr}/ws")).expect("url"),
        remote: vec![Remote::from_str(&format!("127.0.0.1:{socks_port}:socks")).expect("remote")],
        keepalive: OptionalDuration::NONE,
        keepalive_timeout: OptionalDuration::NONE,
        max_retry_count: 0,
        max_retry_interval: 400,
        handshake_timeout: OptionalDuration::from_secs(5),
        channel_timeout: OptionalDuration::from_secs(10),
        ..Default::default()
    }));
    let (hr, scrx, dgrx) = HandlerResources::create();
    let hr: &'static HandlerResources = Box::leak(Box::new(hr));
    let cl = tokio::spawn(client::client_main_inner(args, hr, scrx, dgrx));
    let mut rng = Rng64::new(mix(seed, 0x9A55));
    // names: plain, UTF-8, and octets that are no UTF-8 at all (Latin-1, a lone continuation byte, a cut multi-byte sequence)
    let corpus: Vec<Vec<u8>> = vec![
        b"example.org".to_vec(), b"a".to_vec(), "b\u{fc}cher.example".as_bytes().to_vec(), "\u{4f8b}\u{3048}.jp".as_bytes().to_vec(),
        vec![b'b', 0xfc, b'c', b'h', b'.', b'd', b'e'], vec![0x80], vec![b'x', 0xff, 0xfe, b'y'], vec![b'q', 0xe2, 0x82], vec![0xc3, 0x28, b'.', b'z'],
        vec![b'm'; 255], { let mut v = vec![b'n'; 200]; v.push(0xe9); v },
    ];
    let mut asked = 0usize;
    for i in 0..n {
        let port: u16 = *rng.pick(&[1u16, 80, 443, 65535, 1024, 256, 255]);
        let kind = rng.below(5);
        let name = rng.pick(&corpus).clone();
        // (SOCKS4a names are NUL-terminated: no NUL inside, and 255 octets are plenty)
        let (req, want_host, what): (Vec<u8>, Option<Vec<u8>>, &str) = match kind {
            0 | 1 => {
                let mut r = vec![5u8, 1, 0, 5, 1, 0, 3, name.len() as u8];
                r.extend(&name);
                r.extend(port.to_be_bytes());
                (r, Some(name.clone()), "socks5-domain")
            }
            2 => {
                let mut r = vec![4u8, 1];
                r.extend(port.to_be_bytes());
                r.extend([0, 0, 0, 7]);
                r.extend(b"u\0");
                r.extend(&name);
                r.push(0);
                (r, Some(name.clone()), "socks4a-domain")
            }
            3 => {
                let ip = [rng.next() as u8 | 1, rng.next() as u8, rng.next() as u8, rng.next() as u8];
                let mut r = vec![5u8, 1, 0, 5, 1, 0, 1];
                r.extend(ip);
                r.extend(port.to_be_bytes());
                (r, Some(std::net::Ipv4Addr::from(ip).to_string().into_bytes()), "socks5-ipv4")
            }
            _ => {
                let mut ip = [0u8; 16];
                for b in ip.iter_mut() {
                    *b = rng.next() as u8;
                }
                ip[0] = 0x20;
                let mut r = vec![5u8, 1, 0, 5, 1, 0, 4];
                r.extend(ip);
                r.extend(port.to_be_bytes());
                (r, None, "socks5-ipv6")
            }
        };
        let before = rec.lock().unwrap().len();
        let Ok(mut s) = TcpStream::connect(("127.0.0.1", socks_port)).await else {
            if cl.is_finished() {
                break;
            }
            tokio::time::sleep(Duration::from_millis(100)).await;
            continue;
        };
        if s.write_all(&req).await.is_err() {
            continue;
        }
        // wait for the request to show up at the far end (the reply to the SOCKS client is not what is judged here)
        let mut got = None;
        for _ in 0..300 {
            {
                let g = rec.lock().unwrap();
                if g.len() > before {
                    got = Some(g[before].clone());
                    break;
                }
            }
            tokio::time::sleep(Duration::from_millis(10)).await;
        }
        drop(s);
        let Some((host, p)) = got else {
            if i < 3 {
                // the tunnel may still be coming up
                tokio::time::sleep(Duration::from_millis(200)).await;
            }
            st.count("passed_on_requests_that_never_arrived", 1);
            continue;
        };
        asked += 1;
        st.evaluations += 1;
        st.target("tunnel_requests_compared_with_socks_request", 1);
        st.cell("passed_on_kind", what);
        st.nontrivial(mix(seed, 0x7000 + i as u64));
        let replay = json!({"kind": "c18s-passed-on", "run_seed": seed, "request": format!("{req:02x?}"), "tunnel_host": format!("{host:02x?}"), "tunnel_port": p});
        if p != port {
            st.violation(Violation { signature: format!("tunnel-asked-for-other-port|{what}"), detail: format!("the SOCKS request named port {port}, the tunnel was asked for port {p}"), replay: replay.clone() });
        }
        match want_host {
            Some(w) => {
                if host != w {
                    st.violation(Violation { signature: format!("tunnel-asked-for-other-host|{what}"), detail: format!("the SOCKS request named the host {w:02x?}, the tunnel was asked for {host:02x?}"), replay });
                }
            }
            None => {
                let want: std::net::Ipv6Addr = <[u8; 16]>::try_from(&req[7..23]).expect("16").into();
                let ok = std::str::from_utf8(&host).ok().and_then(|t| t.trim_matches(|c| c == '[' || c == ']').parse::<std::net::Ipv6Addr>().ok()) == Some(want);
                if !ok {
                    st.violation(Violation { signature: format!("tunnel-asked-for-other-host|{what}"), detail: format!("the SOCKS request named {want}, the tunnel was asked for {:?}", String::from_utf8_lossy(&host)), replay });
                }
            }
        }
    }
    if asked == 0 {
        st.inconclusive.push("c18s passed-on: no request reached the recording server".into());
    }
    cl.abort();
    srv.abort();
}

pub fn run(p: &Params) -> (Stats, &'static str) {
    let mut st = Stats::new();
    st.engine("E2E", 1);
    rusty_penguin_lib::tls::init_crypto_provider();
    let base = p.shard_seed("C18S");
    let mut rng = Rng64::new(base);
    let n = p.share(if p.tier_thorough { 40_000 } else { 1_200 }) as usize;
    let cases: Vec<Case> = (0..n).map(|_| gen_case(&mut rng)).collect();
    let rt = tokio::runtime::Builder::new_multi_thread().worker_threads(2).enable_all().build().expect("rt");
    let res = rt.block_on(run_cases(base, cases));
    rt.block_on(passed_on(&mut st, base, if p.tier_thorough { 400 } else { 60 }));
    rt.shutdown_background();
    match res {
        None => st.inconclusive.push("c18s: the tunnel never became ready".into()),
        Some(v) => {
            for (i, (c, o)) in v.iter().enumerate() {
                judge(&mut st, mix(base, i as u64), c, o);
                if st.samples.len() < 3 && i % 7 == 3 {
                    st.sample(json!({"case": format!("{:?}", Case { payload: vec![], ..c.clone() }), "observed": format!("{o:?}")}));
                }
            }
        }
    }
    (st, RULE)
}
