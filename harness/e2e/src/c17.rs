//! C17 — TLS peers are authenticated exactly as configured. E2E engine: the
//! full configuration matrix is executed through `run_listener` (TLS identity)
//! and `tls_connect`, followed by an HTTP request so that "reaches the server"
//! means application data flowed.

use crate::net;
use crate::util::{Params, Stats, Violation, mix};
use rcgen::{BasicConstraints, CertificateParams, DnType, ExtendedKeyUsagePurpose, IsCa, Issuer, KeyPair, KeyUsagePurpose};
use rusty_penguin_lib::server::{State, run_listener};
use rusty_penguin_lib::tls::{TlsIdentity, make_tls_identity, reload_tls_identity, tls_connect};
use serde_json::json;
use std::net::SocketAddr;
use std::sync::Arc;
use std::sync::atomic::{AtomicBool, Ordering};
use tokio::io::{AsyncReadExt, AsyncWriteExt};
use tokio::net::{TcpListener, TcpStream};

const RULE: &str = "one case = one cell of the full matrix {server certificate issued by the client's trusted CA / another CA / self-signed} x {requested name matches / differs} x {skip-verify on/off} x {client certificate: none / under the server's client CA / under another CA} x {server client-CA configured / not} (72 cells, both ECDSA P-256 and P-384 material in thorough), \
each executed as a real handshake over loopback through run_listener + tls_connect followed by GET /health; plus a CertificateRequest probe with a recording client-certificate resolver, reload probes with a client that re-uses its TLS session state (identity and client-CA replaced), a 12-cell matrix of the name a real client asks for (client_main_inner with --tls-server-name / --hostname / neither, against certificates valid for each of the three names), probes with CA bundles that contain no certificate (server client-CA, reload, client roots) while the system trust store holds a CA that would accept the peer, identity reload cycles with an established connection kept open, and the operator's path (server_main with certificate files, files replaced, SIGUSR1, three or more times in a row, with and without a client CA) after each of which the client-certificate column and the CertificateRequest probe are repeated. \
Oracle: the reference truth table of the statement. Exhaustive over the matrix. Non-trivial = every cell; distinct = distinct (cell, key type)";

struct Pki {
    dir: tempfile::TempDir,
}

impl Pki {
    fn p(&self, name: &str) -> String {
        self.dir.path().join(name).to_string_lossy().to_string()
    }
}

fn ca(name: &str, alg: &'static rcgen::SignatureAlgorithm) -> (CertificateParams, KeyPair, String) {
    let mut p = CertificateParams::new(Vec::<String>::new()).expect("params");
    p.distinguished_name.push(DnType::CommonName, name);
    p.is_ca = IsCa::Ca(BasicConstraints::Unconstrained);
    p.key_usages = vec![KeyUsagePurpose::KeyCertSign, KeyUsagePurpose::CrlSign, KeyUsagePurpose::DigitalSignature];
    let k = KeyPair::generate_for(alg).expect("key");
    let pem = p.self_signed(&k).expect("ca cert").pem();
    (p, k, pem)
}

fn leaf(cn: &str, sans: Vec<String>, issuer: Option<(&CertificateParams, &KeyPair)>, client: bool, alg: &'static rcgen::SignatureAlgorithm) -> (String, String) {
    let mut p = CertificateParams::new(sans).expect("params");
    p.distinguished_name.push(DnType::CommonName, cn);
    p.extended_key_usages = vec![if client { ExtendedKeyUsagePurpose::ClientAuth } else { ExtendedKeyUsagePurpose::ServerAuth }];
    let k = KeyPair::generate_for(alg).expect("key");
    let cert = match issuer {
        Some((ip, ik)) => p.signed_by(&k, &Issuer::from_params(ip, ik)).expect("sign"),
        None => p.self_signed(&k).expect("self-sign"),
    };
    (cert.pem(), k.serialize_pem())
}

fn make_pki(alg: &'static rcgen::SignatureAlgorithm) -> Pki {
    let dir = tempfile::tempdir().expect("tempdir");
    let pki = Pki { dir };
    let (ca1p, ca1k, ca1pem) = ca("verif CA1 (client trusts)", alg);
    let (ca2p, ca2k, ca2pem) = ca("verif CA2 (other)", alg);
    let (caxp, caxk, caxpem) = ca("verif CAX (server's client CA)", alg);
    let w = |n: &str, s: &str| std::fs::write(pki.dir.path().join(n), s).expect("write pem");
    w("ca1.pem", &ca1pem);
    w("ca2.pem", &ca2pem);
    w("cax.pem", &caxpem);
    let names = vec!["localhost".to_string()];
    for (tag, issuer) in [("trusted", Some((&ca1p, &ca1k))), ("other", Some((&ca2p, &ca2k))), ("selfsigned", None)] {
        let (c, k) = leaf("localhost", names.clone(), issuer, false, alg);
        w(&format!("srv-{tag}.pem"), &c);
        w(&format!("srv-{tag}.key"), &k);
    }
    // a "public" CA that sits in the process's system trust store (SSL_CERT_FILE) but in no bundle given to penguin
    let (capp, capk, cappem) = ca("verif public CA (system trust store only)", alg);
    w("capub.pem", &cappem);
    {
        let (c, k) = leaf("localhost", names.clone(), Some((&capp, &capk)), false, alg);
        w("srv-pub.pem", &c);
        w("srv-pub.key", &k);
        let (c, k) = leaf("verif client (public CA)", vec![], Some((&capp, &capk)), true, alg);
        w("cli-pub.pem", &c);
        w("cli-pub.key", &k);
    }
    // server certificates under the trusted CA for the real-client name matrix
    for (tag, sans) in [("n-url", vec!["127.0.0.1".to_string(), "localhost".to_string()]), ("n-sni", vec!["server.test".to_string()]), ("n-host", vec!["h.example".to_string()])] {
        let (c, k) = leaf(&sans[0], sans.clone(), Some((&ca1p, &ca1k)), false, alg);
        w(&format!("srv-{tag}.pem"), &c);
        w(&format!("srv-{tag}.key"), &k);
    }
    // chains with an intermediate CA: the certificate file holds leaf + intermediate, the verifying side trusts only the root
    {
        let mk_inter = |name: &str, rp: &CertificateParams, rk: &KeyPair| {
            let mut p = CertificateParams::new(Vec::<String>::new()).expect("params");
            p.distinguished_name.push(DnType::CommonName, name);
            p.is_ca = IsCa::Ca(BasicConstraints::Unconstrained);
            p.key_usages = vec![KeyUsagePurpose::KeyCertSign, KeyUsagePurpose::CrlSign, KeyUsagePurpose::DigitalSignature];
            let k = KeyPair::generate_for(alg).expect("key");
            let pem = p.signed_by(&k, &Issuer::from_params(rp, rk)).expect("intermediate").pem();
            (p, k, pem)
        };
        let (i1p, i1k, i1pem) = mk_inter("verif intermediate under CA1", &ca1p, &ca1k);
        let (c, k) = leaf("localhost", names.clone(), Some((&i1p, &i1k)), false, alg);
        w("srv-chain.pem", &format!("{c}{i1pem}"));
        w("srv-chain.key", &k);
        let (ixp, ixk, ixpem) = mk_inter("verif intermediate under CAX", &caxp, &caxk);
        let (c, k) = leaf("verif client (chain)", vec![], Some((&ixp, &ixk)), true, alg);
        w("cli-chain.pem", &format!("{c}{ixpem}"));
        w("cli-chain.key", &k);
    }
    w("empty.pem", "");
    w("comments.pem", "# no certificate in here\n\n");
    for (tag, issuer) in [("trusted", (&caxp, &caxk)), ("other", (&ca2p, &ca2k))] {
        let (c, k) = leaf("verif client", vec![], Some(issuer), true, alg);
        w(&format!("cli-{tag}.pem"), &c);
        w(&format!("cli-{tag}.key"), &k);
    }
    pki
}

async fn start(identity: TlsIdentity) -> SocketAddr {
    let state = State::new().await.expect("state").with_not_found_resp("404").with_backend_http2_support(false);
    let listener = TcpListener::bind("127.0.0.1:0").await.expect("bind");
    let addr = listener.local_addr().expect("addr");
    tokio::spawn(run_listener(listener, Some(identity), state));
    addr
}

const REQ: &[u8] = b"GET /health HTTP/1.1\r\nHost: localhost\r\n\r\n";

/// true = a response came back over the TLS stream
async fn reaches(addr: SocketAddr, name: &str, cert: Option<&str>, key: Option<&str>, ca: Option<&str>, skip: bool) -> Result<bool, String> {
    let tcp = TcpStream::connect(addr).await.map_err(|e| format!("tcp: {e}"))?;
    let tls = match tokio::time::timeout(std::time::Duration::from_secs(10), tls_connect(tcp, name, cert, key, ca, skip)).await {
        Err(_) => return Err("handshake timeout".into()),
        Ok(Err(_)) => return Ok(false),
        Ok(Ok(s)) => s,
    };
    match net::raw_http(tls, REQ, false).await {
        Ok((r, _, _)) => Ok(r.status == 200 && r.body == b"OK"),
        Err(_) => Ok(false),
    }
}

#[derive(Debug)]
struct Recorder(AtomicBool);
impl rustls::client::ResolvesClientCert for Recorder {
    fn resolve(&self, _hints: &[&[u8]], _schemes: &[rustls::SignatureScheme]) -> Option<Arc<rustls::sign::CertifiedKey>> {
        self.0.store(true, Ordering::SeqCst);
        None
    }
    fn has_certs(&self) -> bool {
        true
    }
}

#[derive(Debug)]
struct NoVerify(Arc<rustls::crypto::CryptoProvider>);
impl rustls::client::danger::ServerCertVerifier for NoVerify {
    fn verify_server_cert(&self, _: &rustls::pki_types::CertificateDer<'_>, _: &[rustls::pki_types::CertificateDer<'_>], _: &rustls::pki_types::ServerName<'_>, _: &[u8], _: rustls::pki_types::UnixTime) -> Result<rustls::client::danger::ServerCertVerified, rustls::Error> {
        Ok(rustls::client::danger::ServerCertVerified::assertion())
    }
    fn verify_tls12_signature(&self, m: &[u8], c: &rustls::pki_types::CertificateDer<'_>, d: &rustls::DigitallySignedStruct) -> Result<rustls::client::danger::HandshakeSignatureValid, rustls::Error> {
        rustls::crypto::verify_tls12_signature(m, c, d, &self.0.signature_verification_algorithms)
    }
    fn verify_tls13_signature(&self, m: &[u8], c: &rustls::pki_types::CertificateDer<'_>, d: &rustls::DigitallySignedStruct) -> Result<rustls::client::danger::HandshakeSignatureValid, rustls::Error> {
        rustls::crypto::verify_tls13_signature(m, c, d, &self.0.signature_verification_algorithms)
    }
    fn supported_verify_schemes(&self) -> Vec<rustls::SignatureScheme> {
        self.0.signature_verification_algorithms.supported_schemes()
    }
}

/// Does the server ask for a client certificate? Observed with a recording resolver.
async fn asks_for_client_cert(addr: SocketAddr) -> Result<bool, String> {
    let provider = rustls::crypto::CryptoProvider::get_default().expect("provider").clone();
    let rec = Arc::new(Recorder(AtomicBool::new(false)));
    let cfg = rustls::ClientConfig::builder_with_provider(provider.clone())
        .with_safe_default_protocol_versions()
        .map_err(|e| e.to_string())?
        .dangerous()
        .with_custom_certificate_verifier(Arc::new(NoVerify(provider)))
        .with_client_cert_resolver(rec.clone());
    let conn = tokio_rustls::TlsConnector::from(Arc::new(cfg));
    let tcp = TcpStream::connect(addr).await.map_err(|e| e.to_string())?;
    let name = rustls::pki_types::ServerName::try_from("localhost").map_err(|e| e.to_string())?;
    if let Ok(s) = conn.connect(name, tcp).await {
        // TLS 1.3: a rejection of the (missing) certificate only surfaces on the first read
        let _ = net::raw_http(s, REQ, false).await;
    }
    Ok(rec.0.load(Ordering::SeqCst))
}

async fn matrix(st: &mut Stats, pki: &Pki, alg_name: &str) {
    for srv in ["trusted", "other", "selfsigned"] {
        for client_ca in [false, true] {
            let cax = pki.p("cax.pem");
            let identity = match make_tls_identity(&pki.p(&format!("srv-{srv}.pem")), &pki.p(&format!("srv-{srv}.key")), if client_ca { Some(cax.as_str()) } else { None }).await {
                Ok(i) => i,
                Err(e) => {
                    st.inconclusive.push(format!("c17: cannot build server identity {srv}: {e}"));
                    continue;
                }
            };
            let addr = start(identity).await;
            // CertificateRequest probe
            st.evaluations += 1;
            match asks_for_client_cert(addr).await {
                Ok(asked) => {
                    st.target("certificate_request_probes", 1);
                    if asked != client_ca {
                        st.violation(Violation { signature: format!("certificate-request|configured={client_ca}|asked={asked}"), detail: format!("server with client CA configured = {client_ca}: a CertificateRequest was {}sent", if asked { "" } else { "not " }), replay: json!({"kind": "c17-probe", "server_cert": srv, "client_ca": client_ca, "alg": alg_name}) });
                    }
                }
                Err(e) => st.inconclusive.push(format!("c17 probe: {e}")),
            }
            for name_matches in [true, false] {
                // (skip-verify is the innermost dimension and goes off, on, off: consecutive connections then differ in
                // nothing but that flag, in both orders - a client that remembers its previous configuration shows here)
                for cli in ["none", "trusted", "other"] {
                    for skip in [false, true, false] {
                        st.evaluations += 1;
                        let name = if name_matches { "localhost" } else { "other.example" };
                        let (cert, key) = if cli == "none" { (None, None) } else { (Some(pki.p(&format!("cli-{cli}.pem"))), Some(pki.p(&format!("cli-{cli}.key")))) };
                        let ca1 = pki.p("ca1.pem");
                        let got = reaches(addr, name, cert.as_deref(), key.as_deref(), Some(ca1.as_str()), skip).await;
                        let server_ok = skip || (srv == "trusted" && name_matches);
                        let client_ok = !client_ca || cli == "trusted";
                        let want = server_ok && client_ok;
                        let cell = format!("server_cert={srv} name_matches={name_matches} skip_verify={skip} client_cert={cli} server_client_ca={client_ca}");
                        st.cell("matrix_cell", &cell);
                        st.nontrivial(mix(crate::util::fnv(cell.as_bytes()), crate::util::fnv(alg_name.as_bytes())));
                        st.target("matrix_cells_executed", 1);
                        match got {
                            Ok(g) if g == want => {
                                if g {
                                    st.count("cells_reached_server", 1);
                                } else {
                                    st.count("cells_rejected", 1);
                                }
                            }
                            Ok(g) => {
                                let why = if !server_ok { "server-cert" } else { "client-cert" };
                                st.violation(Violation { signature: format!("tls-truth-table|{}|{why}", if g { "accepted" } else { "rejected" }),
                                    detail: format!("cell [{cell}] ({alg_name}): the client {} the server, the statement prescribes {}", if g { "reached" } else { "did not reach" }, if want { "reaching it" } else { "rejection" }),
                                    replay: json!({"kind": "c17", "cell": cell, "alg": alg_name}) });
                            }
                            Err(e) => st.inconclusive.push(format!("c17 cell [{cell}]: {e}")),
                        }
                    }
                }
            }
        }
    }
}

/// A connection on which the TLS handshake failed is over: whatever the peer writes afterwards - in the clear - is not served.
/// (First bytes that are no ClientHello make the handshake fail without any certificate being involved; the second write is a
/// well-formed plaintext request on the same socket.)
async fn plaintext_after_failed_handshake(st: &mut Stats, pki: &Pki) {
    for client_ca in [true, false] {
        let cax = pki.p("cax.pem");
        let Ok(identity) = make_tls_identity(&pki.p("srv-trusted.pem"), &pki.p("srv-trusted.key"), if client_ca { Some(cax.as_str()) } else { None }).await else { continue };
        let addr = start(identity).await;
        for first in [&b"GET / HTTP/1.1\r\nHost: localhost\r\n\r\n"[..], &b"\x16\x03\x01\x00\x05hello"[..], &b"\x00"[..]] {
            st.evaluations += 1;
            let Ok(mut tcp) = TcpStream::connect(addr).await else { continue };
            if tcp.write_all(first).await.is_err() {
                continue;
            }
            tokio::time::sleep(std::time::Duration::from_millis(150)).await;
            // the second, well-formed request in the clear (may already meet a closed socket: fine)
            let _ = tcp.write_all(REQ).await;
            let mut got = Vec::new();
            let mut buf = [0u8; 1024];
            let deadline = tokio::time::Instant::now() + std::time::Duration::from_millis(1500);
            loop {
                match tokio::time::timeout_at(deadline, tcp.read(&mut buf)).await {
                    Ok(Ok(0)) | Ok(Err(_)) | Err(_) => break,
                    Ok(Ok(n)) => got.extend_from_slice(&buf[..n]),
                }
                if got.len() > 4096 {
                    break;
                }
            }
            st.target("plaintext_after_failed_handshake_probes", 1);
            if got.windows(7).any(|w| w == b"HTTP/1.") {
                st.violation(Violation {
                    signature: format!("plaintext-served-after-failed-handshake|client_ca={client_ca}"),
                    detail: format!("a connection to the TLS listener sent bytes that are no TLS handshake ({:02x?}...), then a plaintext GET /health: the server answered it in the clear ({:?}...) - the handshake (and with it the configured authentication) is no gate", &first[..first.len().min(8)], String::from_utf8_lossy(&got[..got.len().min(40)])),
                    replay: json!({"kind": "c17-plaintext", "client_ca": client_ca, "first_bytes": format!("{first:02x?}")}),
                });
            }
            st.nontrivial(mix(u64::from(client_ca), first.len() as u64 + 0x17));
        }
    }
}

/// Certificate files that hold a chain (leaf first, then the intermediate CA): what is presented is the configured chain, so a peer
/// that trusts only the root validates it - for the server's certificate and for the client's.
async fn chain_probes(st: &mut Stats, pki: &Pki) {
    // server presents leaf + intermediate, client trusts the root only
    if let Ok(identity) = make_tls_identity(&pki.p("srv-chain.pem"), &pki.p("srv-chain.key"), None).await {
        let addr = start(identity).await;
        st.evaluations += 1;
        st.target("chain_with_intermediate_probes", 1);
        match reaches(addr, "localhost", None, None, Some(&pki.p("ca1.pem")), false).await {
            Ok(true) => {}
            Ok(false) => st.violation(Violation { signature: "chain-with-intermediate|server-chain-rejected".into(), detail: "the server's certificate file holds its leaf and the intermediate CA that issued it; a client that trusts the root (and only the root) could not validate the server: the configured chain is not what is presented".into(), replay: json!({"kind": "c17-chain", "side": "server"}) }),
            Err(e) => st.inconclusive.push(format!("c17 chain probe: {e}")),
        }
        // negative control: a client trusting another root must still refuse
        if let Ok(true) = reaches(addr, "localhost", None, None, Some(&pki.p("ca2.pem")), false).await {
            st.violation(Violation { signature: "chain-with-intermediate|accepted-under-other-root".into(), detail: "a client trusting only another root reached the server".into(), replay: json!({"kind": "c17-chain", "side": "server-negative"}) });
        }
    }
    // client presents leaf + intermediate, server's client CA is the root only
    if let Ok(identity) = make_tls_identity(&pki.p("srv-trusted.pem"), &pki.p("srv-trusted.key"), Some(&pki.p("cax.pem"))).await {
        let addr = start(identity).await;
        st.evaluations += 1;
        st.target("chain_with_intermediate_probes", 1);
        match reaches(addr, "localhost", Some(&pki.p("cli-chain.pem")), Some(&pki.p("cli-chain.key")), Some(&pki.p("ca1.pem")), false).await {
            Ok(true) => {}
            Ok(false) => st.violation(Violation { signature: "chain-with-intermediate|client-chain-rejected".into(), detail: "the client's certificate file holds its leaf and the intermediate CA under the server's client CA; the server refused it although the certificate is issued under that CA".into(), replay: json!({"kind": "c17-chain", "side": "client"}) }),
            Err(e) => st.inconclusive.push(format!("c17 chain probe: {e}")),
        }
    }
    st.nontrivial(0xC4A1);
}

async fn reload(st: &mut Stats, pki: &Pki, cycles: usize) {
    let identity = make_tls_identity(&pki.p("srv-trusted.pem"), &pki.p("srv-trusted.key"), None).await.expect("identity");
    let addr = start(identity.clone()).await;
    let (ca1, ca2) = (pki.p("ca1.pem"), pki.p("ca2.pem"));
    for cycle in 0..cycles {
        st.evaluations += 1;
        let (cur, other, cur_ca, other_ca) = if cycle % 2 == 0 { ("trusted", "other", &ca1, &ca2) } else { ("other", "trusted", &ca2, &ca1) };
        // an established connection under the current identity
        let tcp = TcpStream::connect(addr).await.expect("tcp");
        let tls = tls_connect(tcp, "localhost", None, None, Some(cur_ca.as_str()), false).await;
        let Ok(tls) = tls else {
            st.violation(Violation { signature: "reload-current-identity-rejected".into(), detail: format!("cycle {cycle}: a client trusting the CA of the current identity ({cur}) cannot connect"), replay: json!({"kind": "c17-reload", "cycle": cycle}) });
            continue;
        };
        let first = net::raw_http(tls, REQ, false).await;
        let Ok((r1, tls, _)) = first else {
            st.inconclusive.push("c17 reload: first request failed".into());
            continue;
        };
        // swap the identity
        if let Err(e) = reload_tls_identity(&identity, &pki.p(&format!("srv-{other}.pem")), &pki.p(&format!("srv-{other}.key")), None).await {
            st.inconclusive.push(format!("c17 reload failed: {e}"));
            continue;
        }
        st.target("reload_cycles", 1);
        let old_trust = reaches(addr, "localhost", None, None, Some(cur_ca.as_str()), false).await.unwrap_or(true);
        let new_trust = reaches(addr, "localhost", None, None, Some(other_ca.as_str()), false).await.unwrap_or(false);
        if old_trust || !new_trust {
            st.violation(Violation { signature: "reload-not-effective".into(), detail: format!("cycle {cycle}: after replacing the identity ({cur} -> {other}) a new handshake by a client trusting only the old CA {} and by one trusting the new CA {}", if old_trust { "succeeded" } else { "failed" }, if new_trust { "succeeded" } else { "failed" }), replay: json!({"kind": "c17-reload", "cycle": cycle}) });
        }
        // the established connection is undisturbed
        match net::raw_http(tls, REQ, false).await {
            Ok((r2, _, _)) if r2.status == 200 && r1.status == 200 => {}
            other_res => st.violation(Violation { signature: "reload-disturbed-connection".into(), detail: format!("cycle {cycle}: the connection established before the reload failed afterwards: {:?}", other_res.map(|x| x.0.status)), replay: json!({"kind": "c17-reload", "cycle": cycle}) }),
        }
        st.nontrivial(mix(0x17, cycle as u64));
    }
}

/// A TLS session is not a licence: a client that keeps its session tickets (one `ClientConfig` re-used) must go through a
/// full handshake against whatever identity and client-CA policy is current after a reload.
async fn resumption_across_reload(st: &mut Stats, pki: &Pki) {
    use rustls::pki_types::pem::PemObject;
    use rustls::pki_types::{CertificateDer, PrivateKeyDer};
    let provider = rustls::crypto::CryptoProvider::get_default().expect("provider").clone();
    let base = || rustls::ClientConfig::builder_with_provider(provider.clone()).with_safe_default_protocol_versions().expect("versions").dangerous().with_custom_certificate_verifier(Arc::new(NoVerify(provider.clone())));
    // one exchange over a connection made with `cfg`; returns (HTTP answered 200, the end-entity certificate the server is taken to have)
    async fn exchange(addr: SocketAddr, cfg: &Arc<rustls::ClientConfig>) -> (bool, Option<Vec<u8>>) {
        let Ok(tcp) = TcpStream::connect(addr).await else { return (false, None) };
        let name = rustls::pki_types::ServerName::try_from("localhost").expect("name");
        let Ok(Ok(s)) = tokio::time::timeout(std::time::Duration::from_secs(10), tokio_rustls::TlsConnector::from(cfg.clone()).connect(name, tcp)).await else { return (false, None) };
        let cert = s.get_ref().1.peer_certificates().and_then(|c| c.first()).map(|c| c.as_ref().to_vec());
        // (reading the response also lets the client store the TLS 1.3 session tickets)
        let ok = matches!(net::raw_http(s, REQ, false).await, Ok((r, _, _)) if r.status == 200);
        (ok, cert)
    }
    st.evaluations += 1;
    // (a) identity replaced
    if let Ok(identity) = make_tls_identity(&pki.p("srv-trusted.pem"), &pki.p("srv-trusted.key"), None).await {
        let addr = start(identity.clone()).await;
        let cfg = Arc::new(base().with_no_client_auth());
        let (ok1, cert1) = exchange(addr, &cfg).await;
        let _ = exchange(addr, &cfg).await; // a resumed one under the same identity: legitimate
        let reloaded = reload_tls_identity(&identity, &pki.p("srv-other.pem"), &pki.p("srv-other.key"), None).await.is_ok();
        let (_ok2, cert2) = exchange(addr, &cfg).await;
        let (_ok3, cert3) = exchange(addr, &Arc::new(base().with_no_client_auth())).await;
        if ok1 && reloaded && cert1.is_some() && cert3.is_some() && cert3 != cert1 {
            st.target("resumption_probes", 1);
            if cert2 == cert1 {
                st.violation(Violation { signature: "reload|resumed-session-sees-old-identity".into(), detail: "the server identity was replaced at run time; a client that re-used its TLS session state still completed a handshake under the old certificate (a fresh client sees the new one)".into(), replay: json!({"kind": "c17-resumption", "part": "identity"}) });
            }
        } else {
            st.inconclusive.push("c17 resumption probe (identity): precondition failed".into());
        }
    }
    // (b) client-CA replaced
    let (Ok(chain), Ok(key)) = (CertificateDer::pem_file_iter(pki.p("cli-trusted.pem")).map(|it| it.filter_map(Result::ok).collect::<Vec<_>>()), PrivateKeyDer::from_pem_file(pki.p("cli-trusted.key"))) else {
        st.inconclusive.push("c17 resumption probe: cannot load the client certificate".into());
        return;
    };
    if let Ok(identity) = make_tls_identity(&pki.p("srv-trusted.pem"), &pki.p("srv-trusted.key"), Some(&pki.p("cax.pem"))).await {
        let addr = start(identity.clone()).await;
        let Ok(cfg) = base().with_client_auth_cert(chain, key) else {
            st.inconclusive.push("c17 resumption probe: client config".into());
            return;
        };
        let cfg = Arc::new(cfg);
        let (ok1, _) = exchange(addr, &cfg).await;
        let reloaded = reload_tls_identity(&identity, &pki.p("srv-trusted.pem"), &pki.p("srv-trusted.key"), Some(&pki.p("ca2.pem"))).await.is_ok();
        let (ok2, _) = exchange(addr, &cfg).await;
        if ok1 && reloaded {
            st.target("resumption_probes", 1);
            st.nontrivial(mix(0x5E55, 2));
            if ok2 {
                st.violation(Violation { signature: "reload|resumed-session-bypasses-client-ca".into(), detail: "the client-CA bundle was replaced at run time by one that does not cover the client's certificate; the client, re-using its TLS session state, was still served".into(), replay: json!({"kind": "c17-resumption", "part": "client-ca"}) });
            }
        } else {
            st.inconclusive.push(format!("c17 resumption probe (client CA): precondition failed (first exchange ok = {ok1}, reload ok = {reloaded})"));
        }
    }
}

/// The name a real client asks for: `--tls-server-name` if given, else `--hostname` if given, else the host of the URL.
/// Executed through `client_main_inner` (options -> handshake), not through `tls_connect` with a name picked by the harness.
async fn client_name_matrix(st: &mut Stats, pki: &Pki) {
    use penguin_mux::timing::OptionalDuration;
    use rusty_penguin_lib::arg::{ClientArgs, Remote, ServerUrl};
    use rusty_penguin_lib::client::{self, HandlerResources};
    use std::str::FromStr;
    use tokio::io::{AsyncReadExt, AsyncWriteExt};
    // echo target
    let tl = TcpListener::bind("127.0.0.1:0").await.expect("bind");
    let tport = tl.local_addr().expect("addr").port();
    let target = tokio::spawn(async move {
        loop {
            let Ok((mut s, _)) = tl.accept().await else { break };
            tokio::spawn(async move {
                let mut b = [0u8; 64];
                if let Ok(n) = s.read(&mut b).await {
                    s.write_all(&b[..n]).await.ok();
                }
            });
        }
    });
    for cert in ["n-url", "n-sni", "n-host"] {
        let Ok(identity) = make_tls_identity(&pki.p(&format!("srv-{cert}.pem")), &pki.p(&format!("srv-{cert}.key")), None).await else {
            st.inconclusive.push(format!("c17 name matrix: cannot build identity {cert}"));
            continue;
        };
        let addr = start(identity).await;
        for sni in [None, Some("server.test")] {
            for host in [None, Some("h.example")] {
                st.evaluations += 1;
                let requested = sni.or(host).unwrap_or("127.0.0.1");
                let valid_for: &[&str] = match cert {
                    "n-url" => &["127.0.0.1", "localhost"],
                    "n-sni" => &["server.test"],
                    _ => &["h.example"],
                };
                let want = valid_for.contains(&requested);
                let lport = net::free_tcp_port(false);
                let args: &'static ClientArgs = Box::leak(Box::new(ClientArgs {
                    server: ServerUrl::from_str(&format!("wss://127.0.0.1:{}/ws", addr.port())).expect("url"),
                    remote: vec![Remote::from_str(&format!("127.0.0.1:{lport}:127.0.0.1:{tport}")).expect("remote")],
                    tls_ca: Some(pki.p("ca1.pem")),
                    tls_server_name: sni.map(str::to_string),
                    hostname: host.map(|h| http::HeaderValue::from_static(h)),
                    keepalive: OptionalDuration::NONE,
                    keepalive_timeout: OptionalDuration::NONE,
                    max_retry_count: 1,
                    max_retry_interval: 200,
                    handshake_timeout: OptionalDuration::from_secs(3),
                    channel_timeout: OptionalDuration::from_secs(3),
                    ..Default::default()
                }));
                let (hr, scrx, dgrx) = HandlerResources::create();
                let hr: &'static HandlerResources = Box::leak(Box::new(hr));
                let mut cl = tokio::spawn(client::client_main_inner(args, hr, scrx, dgrx));
                // reached = a conversation through the tunnel works before the client gives up
                let mut reached = None;
                for _ in 0..100 {
                    if cl.is_finished() {
                        reached = Some(false);
                        break;
                    }
                    if let Ok(Ok(mut s)) = tokio::time::timeout(std::time::Duration::from_millis(300), TcpStream::connect(("127.0.0.1", lport))).await {
                        if s.write_all(b"name-matrix").await.is_ok() {
                            let mut b = [0u8; 32];
                            if let Ok(Ok(n)) = tokio::time::timeout(std::time::Duration::from_millis(400), s.read(&mut b)).await {
                                if &b[..n] == b"name-matrix" {
                                    reached = Some(true);
                                    break;
                                }
                            }
                        }
                    }
                    tokio::time::sleep(std::time::Duration::from_millis(50)).await;
                }
                if !cl.is_finished() {
                    cl.abort();
                } else {
                    let _ = (&mut cl).await;
                }
                let cell = format!("server certificate valid for {valid_for:?}, --tls-server-name {sni:?}, --hostname {host:?}, URL host 127.0.0.1 => requested name {requested}");
                st.cell("client_name_cell", &cell);
                st.target("client_name_cells", 1);
                st.nontrivial(mix(crate::util::fnv(cell.as_bytes()), 0xA17));
                match reached {
                    Some(r) if r == want => {}
                    Some(r) => st.violation(Violation {
                        signature: format!("client-server-name|{}|cert={cert}|sni={}|hostname={}", if r { "accepted" } else { "rejected" }, sni.is_some(), host.is_some()),
                        detail: format!("[{cell}]: the real client {} the server; the certificate {} valid for the requested name", if r { "reached" } else { "did not reach" }, if want { "is" } else { "is not" }),
                        replay: json!({"kind": "c17-client-name", "cell": cell}),
                    }),
                    None => st.inconclusive.push(format!("c17 name matrix [{cell}]: neither reached nor given up after 5 s")),
                }
            }
        }
    }
    target.abort();
}

/// A CA bundle that contains no certificate gives no trust anchors: it must not silently turn into "the system's roots".
/// (The process's system trust store holds `capub.pem`, see `run`.)
async fn empty_bundle_probes(st: &mut Stats, pki: &Pki) {
    for bundle in ["empty.pem", "comments.pem"] {
        st.evaluations += 1;
        let b = pki.p(bundle);
        let replay = json!({"kind": "c17-empty-bundle", "bundle": bundle});
        // server side: client CA bundle without certificates
        match make_tls_identity(&pki.p("srv-trusted.pem"), &pki.p("srv-trusted.key"), Some(b.as_str())).await {
            Err(_) => st.count("empty_client_ca_bundle_refused_at_startup", 1),
            Ok(identity) => {
                let addr = start(identity).await;
                let got = reaches(addr, "localhost", Some(&pki.p("cli-pub.pem")), Some(&pki.p("cli-pub.key")), Some(&pki.p("ca1.pem")), false).await;
                if got != Ok(false) {
                    st.violation(Violation { signature: "empty-client-ca-bundle|system-roots-accepted".into(), detail: format!("a server whose client-CA bundle ({bundle}) contains no certificate started and served a client whose certificate was issued by a CA of the system trust store ({got:?})"), replay: replay.clone() });
                }
            }
        }
        // reload with such a bundle must not widen the policy either
        if let Ok(identity) = make_tls_identity(&pki.p("srv-trusted.pem"), &pki.p("srv-trusted.key"), Some(&pki.p("cax.pem"))).await {
            let addr = start(identity.clone()).await;
            let _ = reload_tls_identity(&identity, &pki.p("srv-trusted.pem"), &pki.p("srv-trusted.key"), Some(b.as_str())).await;
            let pubc = reaches(addr, "localhost", Some(&pki.p("cli-pub.pem")), Some(&pki.p("cli-pub.key")), Some(&pki.p("ca1.pem")), false).await;
            let none = reaches(addr, "localhost", None, None, Some(&pki.p("ca1.pem")), false).await;
            if pubc != Ok(false) || none != Ok(false) {
                st.violation(Violation { signature: "empty-client-ca-bundle|reload-widened-policy".into(), detail: format!("after a reload with a client-CA bundle without certificates ({bundle}) the server served a client with a system-trusted certificate ({pubc:?}) or without certificate ({none:?})"), replay: replay.clone() });
            }
        }
        // client side: root bundle without certificates, server certificate issued by a system-trusted CA
        if let Ok(identity) = make_tls_identity(&pki.p("srv-pub.pem"), &pki.p("srv-pub.key"), None).await {
            let addr = start(identity).await;
            let got = reaches(addr, "localhost", None, None, Some(b.as_str()), false).await;
            if got != Ok(false) {
                st.violation(Violation { signature: "empty-root-bundle|system-roots-trusted".into(), detail: format!("a client given a root bundle without certificates ({bundle}) reached a server whose certificate validates only against the system trust store ({got:?})"), replay: replay.clone() });
            }
            // control: with the public CA given explicitly the same server is reachable
            let ctl = reaches(addr, "localhost", None, None, Some(&pki.p("capub.pem")), false).await;
            if ctl != Ok(true) {
                st.inconclusive.push(format!("c17 empty-bundle control failed: {ctl:?}"));
            }
        }
        st.target("empty_bundle_probes", 1);
        st.nontrivial(mix(crate::util::fnv(bundle.as_bytes()), 0xE17));
    }
}

/// The operator's path: `server_main` with --tls-cert/--tls-key(/--tls-ca), the files replaced on disk and SIGUSR1 sent to the process,
/// several times in a row. After every reload the whole client-certificate column is re-checked: the identity changes, the policy does not.
async fn reload_by_signal(st: &mut Stats, pki: &Pki, cycles: usize, client_ca: bool) {
    use rusty_penguin_lib::arg::ServerArgs;
    let tag = if client_ca { "mtls" } else { "plain" };
    let (live_pem, live_key) = (pki.p(&format!("live-{tag}.pem")), pki.p(&format!("live-{tag}.key")));
    let install = |which: &str| {
        std::fs::copy(pki.p(&format!("srv-{which}.pem")), &live_pem).expect("copy pem");
        std::fs::copy(pki.p(&format!("srv-{which}.key")), &live_key).expect("copy key");
    };
    install("trusted");
    // the client-CA bundle is a live file too (replaced in the last step)
    let live_ca = pki.p(&format!("live-ca-{tag}.pem"));
    std::fs::copy(pki.p("cax.pem"), &live_ca).expect("copy ca");
    let port = net::free_tcp_port(false);
    let args: &'static ServerArgs = Box::leak(Box::new(ServerArgs {
        host: vec!["127.0.0.1".to_string()],
        port: vec![port],
        not_found_resp: "404".to_string(),
        tls_cert: Some(live_pem.clone()),
        tls_key: Some(live_key.clone()),
        tls_ca: if client_ca { Some(live_ca.clone()) } else { None },
        ..Default::default()
    }));
    let server = tokio::spawn(rusty_penguin_lib::server::server_main(args));
    let mut trust_now = pki.p("ca1.pem");
    let addr = SocketAddr::from(([127, 0, 0, 1], port));
    let mut up = false;
    for _ in 0..200 {
        if TcpStream::connect(addr).await.is_ok() {
            up = true;
            break;
        }
        tokio::time::sleep(std::time::Duration::from_millis(25)).await;
    }
    if !up || server.is_finished() {
        st.inconclusive.push(format!("c17 signal reload: server_main did not come up ({tag})"));
        return;
    }
    let (ca1, ca2) = (pki.p("ca1.pem"), pki.p("ca2.pem"));
    let good = (pki.p("cli-trusted.pem"), pki.p("cli-trusted.key"));
    let bad = (pki.p("cli-other.pem"), pki.p("cli-other.key"));
    // the policy column, checked before the first and after every reload
    async fn column(st: &mut Stats, addr: SocketAddr, trust: &str, client_ca: bool, good: &(String, String), bad: &(String, String), when: &str) {
        let replay = json!({"kind": "c17-signal-reload", "client_ca": client_ca, "when": when});
        let with_good = reaches(addr, "localhost", Some(&good.0), Some(&good.1), Some(trust), false).await;
        let with_bad = reaches(addr, "localhost", Some(&bad.0), Some(&bad.1), Some(trust), false).await;
        let with_none = reaches(addr, "localhost", None, None, Some(trust), false).await;
        let asked = asks_for_client_cert(addr).await;
        st.target("policy_columns_after_signal_reload", 1);
        st.nontrivial(mix(crate::util::fnv(when.as_bytes()), u64::from(client_ca)));
        if with_good != Ok(true) {
            st.violation(Violation { signature: format!("signal-reload|authorised-client-refused|client_ca={client_ca}"), detail: format!("{when}: a client entitled to connect was refused ({with_good:?})"), replay: replay.clone() });
        }
        for (who, got) in [("a certificate under another CA", &with_bad), ("no certificate", &with_none)] {
            match got {
                Ok(g) if *g == !client_ca => {}
                Ok(g) => st.violation(Violation { signature: format!("signal-reload|client-ca-policy-changed|client_ca={client_ca}|accepted={g}"), detail: format!("{when}: server started {} a client CA; a client presenting {who} was {}", if client_ca { "with" } else { "without" }, if *g { "served" } else { "refused" }), replay: replay.clone() }),
                Err(e) => st.inconclusive.push(format!("c17 signal reload column: {e}")),
            }
        }
        match asked {
            Ok(a) if a == client_ca => {}
            Ok(a) => st.violation(Violation { signature: format!("signal-reload|certificate-request|configured={client_ca}|asked={a}"), detail: format!("{when}: server with client CA configured = {client_ca}: a CertificateRequest was {}sent", if a { "" } else { "not " }), replay }),
            Err(e) => st.inconclusive.push(format!("c17 signal reload probe: {e}")),
        }
    }
    column(st, addr, &ca1, client_ca, &good, &bad, &format!("{tag}: before any reload")).await;
    for cycle in 0..cycles {
        st.evaluations += 1;
        let (cur_ca, other, other_ca) = if cycle % 2 == 0 { (&ca1, "other", &ca2) } else { (&ca2, "trusted", &ca1) };
        // a connection established under the current identity stays usable
        let tcp = TcpStream::connect(addr).await.expect("tcp");
        let est = tls_connect(tcp, "localhost", Some(&good.0), Some(&good.1), Some(cur_ca.as_str()), false).await.ok();
        if cycle == 1 {
            // a reload request that cannot be served (the key file is missing, as in the middle of a renewal): the identity
            // stays as it is - and the next, servable request must still be honoured
            std::fs::remove_file(&live_key).ok();
            let sent = std::process::Command::new("kill").arg("-USR1").arg(std::process::id().to_string()).status().map(|s| s.success()).unwrap_or(false);
            tokio::time::sleep(std::time::Duration::from_millis(400)).await;
            let still = reaches(addr, "localhost", Some(&good.0), Some(&good.1), Some(cur_ca.as_str()), false).await;
            if sent {
                st.target("failed_reload_requests", 1);
                if still != Ok(true) {
                    st.violation(Violation { signature: "signal-reload|failed-reload-disturbed-identity".into(), detail: format!("{tag}: a reload request with a missing key file left the server unusable under its current identity ({still:?})"), replay: json!({"kind": "c17-signal-reload", "cycle": cycle, "client_ca": client_ca}) });
                }
            }
        }
        install(other);
        let ok = std::process::Command::new("kill").arg("-USR1").arg(std::process::id().to_string()).status().map(|s| s.success()).unwrap_or(false);
        if !ok {
            st.inconclusive.push("c17 signal reload: cannot send SIGUSR1".into());
            return;
        }
        // bounded wait for the new identity to show
        let mut effective = false;
        for _ in 0..200 {
            if reaches(addr, "localhost", Some(&good.0), Some(&good.1), Some(other_ca.as_str()), false).await == Ok(true) {
                effective = true;
                break;
            }
            tokio::time::sleep(std::time::Duration::from_millis(25)).await;
        }
        let when = format!("{tag}: after SIGUSR1 reload #{}", cycle + 1);
        if !effective {
            st.violation(Violation { signature: "signal-reload|not-effective".into(), detail: format!("{when}: 5 s after the signal, handshakes still do not see the replaced identity"), replay: json!({"kind": "c17-signal-reload", "cycle": cycle, "client_ca": client_ca}) });
            continue;
        }
        st.target("signal_reload_cycles", 1);
        trust_now = other_ca.clone();
        column(st, addr, other_ca, client_ca, &good, &bad, &when).await;
        if let Some(tls) = est {
            match net::raw_http(tls, REQ, false).await {
                Ok((r, _, _)) if r.status == 200 => {}
                other_res => st.violation(Violation { signature: "signal-reload|disturbed-connection".into(), detail: format!("{when}: the connection established before the reload failed afterwards: {:?}", other_res.map(|x| x.0.status)), replay: json!({"kind": "c17-signal-reload", "cycle": cycle}) }),
            }
        }
    }
    if client_ca {
        overtaken_reload(st, pki, addr, &live_ca, &trust_now, &good, &bad).await;
    }
    server.abort();
}

/// Two reload requests in a row, the first one slow: the operator replaces the client-CA bundle (cax -> ca2) and signals while
/// an earlier reload is still reading the old bundle (made slow with a FIFO in place of the file). What later handshakes see
/// must be the state of the files at the LAST request: clients under ca2 are admitted, clients under cax no longer are.
async fn overtaken_reload(st: &mut Stats, pki: &Pki, addr: SocketAddr, live_ca: &str, trust: &str, old_client: &(String, String), new_client: &(String, String)) {
    let usr1 = || std::process::Command::new("kill").arg("-USR1").arg(std::process::id().to_string()).status().map(|s| s.success()).unwrap_or(false);
    let fifo = format!("{live_ca}.fifo");
    let old_bundle = std::fs::read(pki.p("cax.pem")).expect("read cax");
    std::fs::remove_file(live_ca).ok();
    let made = std::process::Command::new("mkfifo").arg(live_ca).status().map(|s| s.success()).unwrap_or(false);
    if !made || !usr1() {
        std::fs::copy(pki.p("cax.pem"), live_ca).ok();
        st.inconclusive.push("c17 overtaken reload: cannot create a FIFO / send SIGUSR1".into());
        return;
    }
    // reload A is now reading the bundle (blocked on the FIFO)
    tokio::time::sleep(std::time::Duration::from_millis(400)).await;
    std::fs::rename(live_ca, &fifo).expect("move fifo aside");
    let tmp = format!("{live_ca}.new");
    std::fs::copy(pki.p("ca2.pem"), &tmp).expect("copy new bundle");
    std::fs::rename(&tmp, live_ca).expect("install new bundle");
    if !usr1() {
        st.inconclusive.push("c17 overtaken reload: cannot send the second SIGUSR1".into());
        return;
    }
    // reload B was requested after the replacement
    tokio::time::sleep(std::time::Duration::from_millis(400)).await;
    // now let reload A finish with the OLD content
    let fifo2 = fifo.clone();
    let fed = tokio::task::spawn_blocking(move || {
        use std::io::Write;
        use std::os::unix::fs::OpenOptionsExt;
        for _ in 0..100 {
            match std::fs::OpenOptions::new().write(true).custom_flags(libc::O_NONBLOCK).open(&fifo2) {
                Ok(mut f) => {
                    let _ = f.write_all(&old_bundle);
                    return true;
                }
                Err(_) => std::thread::sleep(std::time::Duration::from_millis(20)),
            }
        }
        false
    }).await.unwrap_or(false);
    if !fed {
        st.inconclusive.push("c17 overtaken reload: the first reload never opened the FIFO (it does not read the bundle the way this step assumes)".into());
        return;
    }
    st.evaluations += 1;
    // bounded wait for the final state, then a second look after both reloads had time to finish
    let mut fin = (Err("not tried".to_string()), Err("not tried".to_string()));
    for round in 0..2 {
        for _ in 0..120 {
            let new_ok = reaches(addr, "localhost", Some(&new_client.0), Some(&new_client.1), Some(trust), false).await;
            let old_ok = reaches(addr, "localhost", Some(&old_client.0), Some(&old_client.1), Some(trust), false).await;
            fin = (new_ok, old_ok);
            if fin == (Ok(true), Ok(false)) {
                break;
            }
            tokio::time::sleep(std::time::Duration::from_millis(25)).await;
        }
        if round == 0 {
            tokio::time::sleep(std::time::Duration::from_millis(500)).await;
        }
    }
    st.target("overtaken_reloads", 1);
    st.nontrivial(mix(0x0E17, 1));
    let replay = json!({"kind": "c17-overtaken-reload", "new_client_admitted": format!("{:?}", fin.0), "old_client_admitted": format!("{:?}", fin.1)});
    match fin {
        (Ok(true), Ok(false)) => {}
        (Ok(n), Ok(o)) => st.violation(Violation {
            signature: format!("signal-reload|superseded-reload-won|new-admitted={n}|old-admitted={o}"),
            detail: format!("the client-CA bundle was replaced (cax -> ca2) and SIGUSR1 sent while an earlier reload was still reading the old bundle; 3 s after both reloads could finish, a client under the new CA is {} and a client under the removed CA is {}: later handshakes see the files as they were at an earlier request, not at the last one", if n { "admitted" } else { "refused" }, if o { "still admitted" } else { "refused" }),
            replay,
        }),
        other => st.inconclusive.push(format!("c17 overtaken reload: {other:?}")),
    }
}

pub fn run(p: &Params) -> (Stats, &'static str) {
    let mut st = Stats::new();
    st.engine("E2E", 1);
    rusty_penguin_lib::tls::init_crypto_provider();
    let rt = tokio::runtime::Builder::new_multi_thread().worker_threads(2).enable_all().build().expect("rt");
    let algs: Vec<(&'static rcgen::SignatureAlgorithm, &str)> = if p.tier_thorough { vec![(&rcgen::PKCS_ECDSA_P256_SHA256, "ecdsa-p256"), (&rcgen::PKCS_ECDSA_P384_SHA384, "ecdsa-p384"), (&rcgen::PKCS_ED25519, "ed25519")] } else { vec![(&rcgen::PKCS_ECDSA_P256_SHA256, "ecdsa-p256")] };
    for (i, (alg, name)) in algs.iter().enumerate() {
        if i as u64 % p.nshards != p.shard {
            continue;
        }
        let pki = make_pki(alg);
        // the process's "system trust store": one throw-away CA that no bundle handed to penguin contains
        // (single-threaded at this point of every iteration's start: the runtime's workers are idle)
        unsafe {
            std::env::set_var("SSL_CERT_FILE", pki.p("capub.pem"));
        }
        rt.block_on(matrix(&mut st, &pki, name));
        rt.block_on(reload(&mut st, &pki, if p.tier_thorough { 6 } else { 2 }));
        rt.block_on(empty_bundle_probes(&mut st, &pki));
        rt.block_on(plaintext_after_failed_handshake(&mut st, &pki));
        rt.block_on(chain_probes(&mut st, &pki));
        rt.block_on(client_name_matrix(&mut st, &pki));
        rt.block_on(resumption_across_reload(&mut st, &pki));
        for client_ca in [true, false] {
            rt.block_on(reload_by_signal(&mut st, &pki, if p.tier_thorough { 6 } else { 3 }, client_ca));
        }
    }
    // the configuration matrix alone, once more for every other kind of server / client key the crypto provider can make
    // ("any certificate is accepted" / "validates" must not depend on the signature scheme of the certificate)
    let more: Vec<(&'static rcgen::SignatureAlgorithm, &str)> = vec![
        (&rcgen::PKCS_ECDSA_P384_SHA384, "ecdsa-p384"),
        (&rcgen::PKCS_ED25519, "ed25519"),
        (&rcgen::PKCS_ECDSA_P521_SHA512, "ecdsa-p521"),
        (&rcgen::PKCS_RSA_SHA256, "rsa-2048-sha256"),
    ];
    for (i, (alg, name)) in more.iter().enumerate() {
        if (i as u64 + 1) % p.nshards != p.shard % p.nshards {
            continue;
        }
        if algs.iter().any(|(_, n)| n == name) {
            continue; // gets the whole programme above (on one of the shards)
        }
        if KeyPair::generate_for(alg).is_err() {
            st.count("key_kinds_the_provider_cannot_generate", 1);
            continue;
        }
        let pki = make_pki(alg);
        unsafe {
            std::env::set_var("SSL_CERT_FILE", pki.p("capub.pem"));
        }
        rt.block_on(matrix(&mut st, &pki, name));
        st.target("matrix_runs_with_other_key_kinds", 1);
        st.cell("key_kind", name);
    }
    st.exhaustive.push("all 72 cells of the TLS configuration matrix".into());
    st.sample(json!({"cell": "server_cert=trusted name_matches=true skip_verify=false client_cert=other server_client_ca=true", "expect": "rejected (client certificate not issued under the server's client CA)"}));
    rt.shutdown_background();
    (st, RULE)
}
