//! C19 — client reconnection: back-off delays, retry limit, non-retryable
//! errors, listeners staying open, no lost request. E2E engine: the client's
//! server URL points at a fault-injecting *gate* (TCP proxy in front of a real
//! `run_listener`) that follows a per-attempt script and timestamps attempts.

use crate::net;
use crate::util::{Params, Rng64, Stats, Violation, mix, prf_mismatch, prf_vec};
use penguin_mux::timing::OptionalDuration;
use rusty_penguin_lib::arg::{ClientArgs, Remote, ServerUrl};
use rusty_penguin_lib::client::{self, HandlerResources};
use rusty_penguin_lib::server::{State, run_listener};
use serde_json::json;
use std::net::SocketAddr;
use std::str::FromStr;
use std::sync::{Arc, Mutex};
use std::time::{Duration, Instant};
use tokio::io::{AsyncReadExt, AsyncWriteExt};
use tokio::net::{TcpListener, TcpStream, UdpSocket};

const RULE: &str = "one case = one real client (client_main_inner) run against a gate that executes a per-attempt script: accept-and-RST, accept-and-close, accept-and-stall (handshake timeout), HTTP 404 (non-retryable), forward-then-cut after d ms, \
forward-then-orderly-WebSocket-Close, forward-then-black-hole (stream request timeout), forward healthy; parameters scaled down (max_retry_interval 400-800 ms, handshake/channel timeout 1 s, max_retry_count 0..4). \
Oracle: number of attempts, k-th consecutive delay >= min(200*2^k, max) - 5 ms always and <= expected + max(150 ms, 50%) in the best of the repeats, restart from 200 ms after a success, MaxRetryCountReached after exactly max_retry_count retries, \
one attempt for a non-retryable error, local listeners accept during outages, a local connection accepted during an outage or whose stream request timed out completes its position-addressed conversation over the next healthy connection, \
after an orderly Close the client reconnects by itself and UDP flows again. Timeouts are violations only with a process-quiescence witness, otherwise inconclusive; a delay is too late only if it was late in every one of 5 repeats while a 5 ms timer task on the same runtime stayed punctual (load witness). Non-trivial = at least one failed attempt was observed";

#[derive(Clone, Debug, PartialEq)]
enum Act {
    Rst,
    Close,
    /// read what the client sends first (its request, or its TLS ClientHello), then close in an orderly way (FIN, nothing unread)
    ReadClose,
    Stall,
    Http404,
    /// answer the upgrade request with another complete HTTP response (what a server that does not recognise the client -
    /// wrong key, wrong protocol version - hands out from its backend)
    HttpStatus(u16),
    ForwardCut(u64),
    ForwardWsClose(u64),
    ForwardBlackhole(u64),
    /// forward for d1 ms, then swallow what the client sends (its stream request stays unanswered) for d2 ms, then cut the connection
    ForwardSwallowCut(u64, u64),
    /// let the WebSocket upgrade through (until the server's response header has been relayed), then swallow everything
    /// the client sends (the stream request it re-issues right after connecting stays unanswered) and cut after d ms
    UpgradeThenSwallowCut(u64),
    Healthy,
}

#[derive(Default)]
struct GateLog {
    /// (attempt index, accepted at, action, ended at (cut / close instant))
    attempts: Vec<(usize, Instant, Act, Option<Instant>)>,
}

async fn gate(listener: TcpListener, server: SocketAddr, script: Vec<Act>, log: Arc<Mutex<GateLog>>) {
    let mut i = 0usize;
    loop {
        let Ok((mut c, _)) = listener.accept().await else { break };
        let act = script.get(i).cloned().unwrap_or(Act::Healthy);
        let now = Instant::now();
        log.lock().unwrap().attempts.push((i, now, act.clone(), None));
        let idx = i;
        i += 1;
        let log2 = log.clone();
        tokio::spawn(async move {
            let mark_end = |log: &Arc<Mutex<GateLog>>| {
                if let Some(a) = log.lock().unwrap().attempts.iter_mut().find(|a| a.0 == idx) {
                    a.3 = Some(Instant::now());
                }
            };
            match act {
                Act::Rst => {
                    c.set_linger(Some(Duration::from_secs(0))).ok();
                    drop(c);
                }
                Act::Close => {
                    c.shutdown().await.ok();
                    drop(c);
                }
                Act::ReadClose => {
                    let mut b = [0u8; 4096];
                    let _ = tokio::time::timeout(Duration::from_millis(500), c.read(&mut b)).await;
                    c.shutdown().await.ok();
                    mark_end(&log2);
                    // wait for the client's side of the close, so that no reset is generated
                    let _ = tokio::time::timeout(Duration::from_secs(2), async {
                        loop {
                            match c.read(&mut b).await {
                                Ok(0) | Err(_) => break,
                                Ok(_) => {}
                            }
                        }
                    }).await;
                }
                Act::Stall => {
                    // hold the connection without answering until the client gives up
                    let mut b = [0u8; 1024];
                    loop {
                        match c.read(&mut b).await {
                            Ok(0) | Err(_) => break,
                            Ok(_) => {}
                        }
                    }
                }
                Act::Http404 => {
                    let mut b = [0u8; 2048];
                    let _ = tokio::time::timeout(Duration::from_millis(500), c.read(&mut b)).await;
                    c.write_all(b"HTTP/1.1 404 Not Found\r\ncontent-length: 0\r\n\r\n").await.ok();
                    c.shutdown().await.ok();
                }
                Act::HttpStatus(code) => {
                    let mut b = [0u8; 2048];
                    let _ = tokio::time::timeout(Duration::from_millis(500), c.read(&mut b)).await;
                    let (reason, extra) = match code {
                        200 => ("OK", ""),
                        301 => ("Moved Permanently", "location: /elsewhere\r\n"),
                        500 => ("Internal Server Error", ""),
                        _ => ("Service Unavailable", ""),
                    };
                    c.write_all(format!("HTTP/1.1 {code} {reason}\r\n{extra}content-length: 2\r\ncontent-type: text/plain\r\n\r\nok").as_bytes()).await.ok();
                    c.shutdown().await.ok();
                }
                Act::ForwardCut(_) | Act::ForwardWsClose(_) | Act::ForwardBlackhole(_) | Act::ForwardSwallowCut(..) | Act::UpgradeThenSwallowCut(_) | Act::Healthy => {
                    let Ok(mut s) = TcpStream::connect(server).await else { return };
                    c.set_nodelay(true).ok();
                    s.set_nodelay(true).ok();
                    let limit = match act {
                        Act::ForwardCut(d) | Act::ForwardWsClose(d) | Act::ForwardBlackhole(d) | Act::ForwardSwallowCut(d, _) => Some(Duration::from_millis(d)),
                        Act::UpgradeThenSwallowCut(_) => Some(Duration::from_secs(5)),
                        _ => None,
                    };
                    let deadline = limit.map(|d| tokio::time::Instant::now() + d);
                    let (mut cr, mut cw) = c.split();
                    let (mut sr, mut sw) = s.split();
                    let mut b1 = vec![0u8; 65536];
                    let mut b2 = vec![0u8; 65536];
                    let until_upgraded = matches!(act, Act::UpgradeThenSwallowCut(_));
                    let mut from_server: Vec<u8> = Vec::new();
                    loop {
                        tokio::select! {
                            () = async { match deadline { Some(d) => tokio::time::sleep_until(d).await, None => std::future::pending().await } } => break,
                            r = cr.read(&mut b1) => match r { Ok(n) if n > 0 => { if sw.write_all(&b1[..n]).await.is_err() { break; } } _ => break },
                            r = sr.read(&mut b2) => match r {
                                Ok(n) if n > 0 => {
                                    if cw.write_all(&b2[..n]).await.is_err() { break; }
                                    if until_upgraded {
                                        from_server.extend_from_slice(&b2[..n]);
                                        if net::find(&from_server, b"\r\n\r\n").is_some() { break; }
                                    }
                                }
                                _ => break,
                            },
                        }
                    }
                    if let Act::UpgradeThenSwallowCut(d2) = act {
                        let _ = tokio::time::timeout(Duration::from_millis(d2), async {
                            loop {
                                match cr.read(&mut b1).await {
                                    Ok(0) | Err(_) => break,
                                    Ok(_) => {}
                                }
                            }
                        }).await;
                    }
                    if let Act::ForwardSwallowCut(_, d2) = act {
                        let _ = tokio::time::timeout(Duration::from_millis(d2), async {
                            loop {
                                match cr.read(&mut b1).await {
                                    Ok(0) | Err(_) => break,
                                    Ok(_) => {}
                                }
                            }
                        }).await;
                    }
                    mark_end(&log2);
                    match act {
                        Act::ForwardWsClose(_) => {
                            // an orderly WebSocket Close from the server side, then wait for the client's answer
                            cw.write_all(&[0x88, 0x00]).await.ok();
                            // a server closes the TCP connection as soon as the closing handshake is complete
                            let _ = tokio::time::timeout(Duration::from_millis(500), cr.read(&mut b1)).await;
                            mark_end(&log2);
                            drop((cr, cw, sr, sw));
                        }
                        Act::ForwardBlackhole(_) => {
                            // keep both TCP connections open, forward nothing any more
                            let _ = tokio::time::timeout(Duration::from_secs(20), async {
                                loop {
                                    match cr.read(&mut b1).await {
                                        Ok(0) | Err(_) => break,
                                        Ok(_) => {}
                                    }
                                }
                            }).await;
                        }
                        _ => {
                            drop((cr, cw, sr, sw));
                        }
                    }
                }
            }
        });
    }
}

/// TCP target: verifies the client's PRF stream and answers with its own.
async fn tcp_target(listener: TcpListener, seed: u64, results: Arc<Mutex<Vec<(u64, usize, bool)>>>) {
    loop {
        let Ok((mut s, _)) = listener.accept().await else { break };
        let results = results.clone();
        tokio::spawn(async move {
            let mut data = Vec::new();
            let mut b = [0u8; 8192];
            loop {
                match s.read(&mut b).await {
                    Ok(0) | Err(_) => break,
                    Ok(n) => data.extend_from_slice(&b[..n]),
                }
            }
            // first 8 bytes: conversation id
            if data.len() >= 8 {
                let id = u64::from_be_bytes(data[..8].try_into().unwrap());
                let ok = prf_mismatch(mix(seed, id), 0, &data[8..]).is_none();
                results.lock().unwrap().push((id, data.len() - 8, ok));
                s.write_all(&prf_vec(mix(seed, id ^ 0xFFFF), 0, 3000)).await.ok();
            }
            s.shutdown().await.ok();
        });
    }
}

/// One local conversation: returns Ok(()) if the reply came back intact.
async fn converse(lport: u16, seed: u64, id: u64, len: usize, deadline: Duration) -> Result<(), String> {
    let f = async {
        let mut s = TcpStream::connect(("127.0.0.1", lport)).await.map_err(|e| format!("connect-local: {e}"))?;
        let mut msg = id.to_be_bytes().to_vec();
        msg.extend(prf_vec(mix(seed, id), 0, len));
        s.write_all(&msg).await.map_err(|e| format!("write-local: {e}"))?;
        s.shutdown().await.ok();
        let mut reply = Vec::new();
        s.read_to_end(&mut reply).await.map_err(|e| format!("read-local: {e}"))?;
        if reply.len() != 3000 || prf_mismatch(mix(seed, id ^ 0xFFFF), 0, &reply).is_some() {
            return Err(format!("reply-mismatch: {} bytes", reply.len()));
        }
        Ok(())
    };
    match tokio::time::timeout(deadline, f).await {
        Ok(r) => r,
        Err(_) => Err("timeout".into()),
    }
}

#[derive(Clone, Debug)]
struct Scenario {
    name: &'static str,
    script: Vec<Act>,
    max_retry_count: u32,
    max_retry_interval: u64,
    /// local conversation started at this offset (ms), if any
    converse_at: Option<u64>,
    udp_after_ms: Option<u64>,
    expect_exit: Option<&'static str>,
    observe_ms: u64,
}

struct Outcome {
    attempts: Vec<(usize, Instant, Act, Option<Instant>)>,
    exit: Option<(Duration, String)>,
    conv: Option<Result<(), String>>,
    probes_ok: usize,
    probes: usize,
    udp_ok: Option<bool>,
    t0: Instant,
    quiescent_at_end: bool,
    /// load witness: largest overshoot (ms) of a 5 ms timer task running on the same runtime for the whole scenario
    max_timer_overshoot_ms: u64,
    target_seen: Vec<(u64, usize, bool)>,
}

async fn run_scenario(sc: Scenario, seed: u64) -> Outcome {
    // real server
    let state = State::new().await.expect("state").with_not_found_resp("404").with_backend_http2_support(false);
    let srv_l = TcpListener::bind("127.0.0.1:0").await.expect("bind");
    let srv_addr = srv_l.local_addr().expect("addr");
    // scenarios named tls-*: the server speaks TLS (self-signed, the client skips verification)
    let tls_dir = tempfile::tempdir().expect("tempdir");
    let identity = if sc.name.starts_with("tls-") {
        let k = rcgen::KeyPair::generate_for(&rcgen::PKCS_ECDSA_P256_SHA256).expect("key");
        let cert = rcgen::CertificateParams::new(vec!["localhost".to_string()]).expect("params").self_signed(&k).expect("self-sign");
        let (cp, kp) = (tls_dir.path().join("srv.pem"), tls_dir.path().join("srv.key"));
        std::fs::write(&cp, cert.pem()).expect("write");
        std::fs::write(&kp, k.serialize_pem()).expect("write");
        Some(rusty_penguin_lib::tls::make_tls_identity(cp.to_str().expect("path"), kp.to_str().expect("path"), None).await.expect("tls identity"))
    } else {
        None
    };
    let srv = tokio::spawn(run_listener(srv_l, identity, state));
    // gate
    let gate_l = TcpListener::bind("127.0.0.1:0").await.expect("bind");
    let gate_addr = gate_l.local_addr().expect("addr");
    let glog = Arc::new(Mutex::new(GateLog::default()));
    let g = tokio::spawn(gate(gate_l, srv_addr, sc.script.clone(), glog.clone()));
    // targets
    let tl = TcpListener::bind("127.0.0.1:0").await.expect("bind");
    let tport = tl.local_addr().expect("addr").port();
    let seen = Arc::new(Mutex::new(Vec::new()));
    let tt = tokio::spawn(tcp_target(tl, seed, seen.clone()));
    let ut = UdpSocket::bind("127.0.0.1:0").await.expect("bind");
    let uport = ut.local_addr().expect("addr").port();
    let ue = tokio::spawn(async move {
        let mut b = vec![0u8; 65536];
        loop {
            let Ok((n, from)) = ut.recv_from(&mut b).await else { break };
            let mut r = b"echo:".to_vec();
            r.extend_from_slice(&b[..n]);
            ut.send_to(&r, from).await.ok();
        }
    });
    let lport = net::free_tcp_port(false);
    let luport = net::free_udp_port();
    let sport = net::free_tcp_port(false);
    let args: &'static ClientArgs = Box::leak(Box::new(ClientArgs {
        // scenarios named tls-*: a wss:// URL, so that a stalled attempt stalls inside the TLS session setup
        server: ServerUrl::from_str(&format!("{}://{gate_addr}/ws", if sc.name.starts_with("tls-") { "wss" } else { "ws" })).expect("url"),
        tls_skip_verify: sc.name.starts_with("tls-"),
        remote: vec![
            Remote::from_str(&format!("127.0.0.1:{lport}:127.0.0.1:{tport}")).expect("remote"),
            Remote::from_str(&format!("127.0.0.1:{luport}:127.0.0.1:{uport}/udp")).expect("remote"),
            Remote::from_str(&format!("127.0.0.1:{sport}:socks")).expect("remote"),
        ],
        keepalive: OptionalDuration::NONE,
        keepalive_timeout: OptionalDuration::NONE,
        max_retry_count: sc.max_retry_count,
        max_retry_interval: sc.max_retry_interval,
        // scenarios named hs-none-*: no handshake time-out at all (legal: 0 on the command line), so that whatever the client
        // guards with the wrong one of its two time-outs is not guarded
        handshake_timeout: if sc.name.starts_with("hs-none-") { OptionalDuration::NONE } else { OptionalDuration::from_secs(1) },
        channel_timeout: OptionalDuration::from_secs(1),
        ..Default::default()
    }));
    let (hr, scrx, dgrx) = HandlerResources::create();
    let hr: &'static HandlerResources = Box::leak(Box::new(hr));
    let t0 = Instant::now();
    let overshoot = Arc::new(std::sync::atomic::AtomicU64::new(0));
    let ov2 = overshoot.clone();
    let ticker = tokio::spawn(async move {
        loop {
            let t = Instant::now();
            tokio::time::sleep(Duration::from_millis(5)).await;
            let over = t.elapsed().saturating_sub(Duration::from_millis(5)).as_millis() as u64;
            ov2.fetch_max(over, std::sync::atomic::Ordering::Relaxed);
        }
    });
    let mut cl = tokio::spawn(client::client_main_inner(args, hr, scrx, dgrx));
    // local load during the outage (scenarios selected by name)
    let mut side_load = Vec::new();
    if sc.name == "udp-burst-during-outage" {
        // more datagrams than the client queues for the tunnel (64) arrive while the tunnel is down
        side_load.push(tokio::spawn(async move {
            tokio::time::sleep(Duration::from_millis(350)).await;
            if let Ok(s) = UdpSocket::bind("127.0.0.1:0").await {
                for k in 0..200u32 {
                    s.send_to(format!("burst-{k}").as_bytes(), ("127.0.0.1", luport)).await.ok();
                    if k % 20 == 19 {
                        tokio::time::sleep(Duration::from_millis(5)).await;
                    }
                }
            }
        }));
    }
    if sc.name == "socks-pile-up-during-outage" {
        // more SOCKS requests than the channel between the handlers and the main loop holds (64) pile up while the tunnel is down
        for k in 0..110u32 {
            side_load.push(tokio::spawn(async move {
                tokio::time::sleep(Duration::from_millis(400 + u64::from(k))).await;
                let Ok(mut s) = TcpStream::connect(("127.0.0.1", sport)).await else { return };
                if s.write_all(&[5, 1, 0]).await.is_err() {
                    return;
                }
                let mut m = [0u8; 2];
                if s.read_exact(&mut m).await.is_err() {
                    return;
                }
                let mut req = vec![5u8, 1, 0, 1, 127, 0, 0, 1];
                req.extend(tport.to_be_bytes());
                s.write_all(&req).await.ok();
                // keep the connection (and its pending request) until the scenario is over
                let mut b = [0u8; 16];
                let _ = tokio::time::timeout(Duration::from_secs(20), s.read(&mut b)).await;
            }));
        }
    }
    let mut exit: Option<(Duration, String)> = None;
    let mut conv_handle = None;
    let mut udp_ok = None;
    let mut probes = 0;
    let mut probes_ok = 0;
    let end = t0 + Duration::from_millis(sc.observe_ms);
    let mut next_probe = t0 + Duration::from_millis(150);
    loop {
        let now = Instant::now();
        if now >= end {
            break;
        }
        if exit.is_none() && cl.is_finished() {
            let r = (&mut cl).await;
            let s = match r {
                Ok(Ok(())) => "Ok".to_string(),
                Ok(Err(e)) => format!("{e:?}").split('(').next().unwrap_or("Err").to_string(),
                Err(_) => "panic".into(),
            };
            exit = Some((t0.elapsed(), s));
            if sc.expect_exit.is_some() {
                break;
            }
        }
        if let (Some(at), None) = (sc.converse_at, &conv_handle) {
            if t0.elapsed() >= Duration::from_millis(at) {
                conv_handle = Some(tokio::spawn(converse(lport, seed, 7, 5000, Duration::from_millis(sc.observe_ms))));
            }
        }
        if let (Some(at), None) = (sc.udp_after_ms, udp_ok) {
            if t0.elapsed() >= Duration::from_millis(at) {
                // a datagram after the orderly close: it must reach the target through the next connection
                let s = UdpSocket::bind("127.0.0.1:0").await.expect("bind");
                let mut got = false;
                for _ in 0..10 {
                    s.send_to(b"after-close", ("127.0.0.1", luport)).await.ok();
                    let mut b = [0u8; 64];
                    if let Ok(Ok((n, _))) = tokio::time::timeout(Duration::from_millis(300), s.recv_from(&mut b)).await {
                        if &b[..n] == b"echo:after-close" {
                            got = true;
                            break;
                        }
                    }
                }
                udp_ok = Some(got);
            }
        }
        // (a probe is a TCP request and would itself trigger a reconnect: none in the orderly-close scenario)
        if exit.is_none() && now >= next_probe && sc.udp_after_ms.is_none() {
            // the local listener must accept at any time, also during outages
            next_probe = now + Duration::from_millis(250);
            probes += 1;
            if let Ok(Ok(s)) = tokio::time::timeout(Duration::from_millis(500), TcpStream::connect(("127.0.0.1", lport))).await {
                probes_ok += 1;
                drop(s);
            }
        }
        tokio::time::sleep(Duration::from_millis(10)).await;
    }
    let conv = match conv_handle {
        Some(h) => Some(match tokio::time::timeout(Duration::from_millis(200), h).await {
            Ok(Ok(r)) => r,
            _ => Err("timeout".to_string()),
        }),
        None => None,
    };
    let quiescent_at_end = tokio::task::spawn_blocking(|| net::process_quiescent(8, Duration::from_millis(60))).await.unwrap_or(false);
    cl.abort();
    for h in side_load {
        h.abort();
    }
    ticker.abort();
    let max_timer_overshoot_ms = overshoot.load(std::sync::atomic::Ordering::Relaxed);
    g.abort();
    srv.abort();
    tt.abort();
    ue.abort();
    let attempts = glog.lock().unwrap().attempts.clone();
    let target_seen = seen.lock().unwrap().clone();
    Outcome { attempts, exit, conv, probes_ok, probes, udp_ok, t0, quiescent_at_end, max_timer_overshoot_ms, target_seen }
}

fn scenarios(rng: &mut Rng64, thorough: bool) -> Vec<Scenario> {
    let mut v = vec![
        Scenario { name: "rst-then-healthy", script: vec![Act::Rst, Act::Rst, Act::Rst, Act::Healthy], max_retry_count: 0, max_retry_interval: 400, converse_at: Some(100), udp_after_ms: None, expect_exit: None, observe_ms: 3200 },
        Scenario { name: "retry-limit-3", script: vec![Act::Rst; 12], max_retry_count: 3, max_retry_interval: 800, converse_at: None, udp_after_ms: None, expect_exit: Some("MaxRetryCountReached"), observe_ms: 5000 },
        Scenario { name: "retry-limit-1-close", script: vec![Act::Close; 12], max_retry_count: 1, max_retry_interval: 800, converse_at: None, udp_after_ms: None, expect_exit: Some("MaxRetryCountReached"), observe_ms: 3000 },
        Scenario { name: "non-retryable-404", script: vec![Act::Http404; 4], max_retry_count: 0, max_retry_interval: 400, converse_at: None, udp_after_ms: None, expect_exit: Some("Tungstenite"), observe_ms: 2500 },
        Scenario { name: "non-retryable-http-200", script: vec![Act::HttpStatus(200); 4], max_retry_count: 0, max_retry_interval: 400, converse_at: None, udp_after_ms: None, expect_exit: Some("Tungstenite"), observe_ms: 2500 },
        Scenario { name: "non-retryable-http-503", script: vec![Act::HttpStatus(503); 4], max_retry_count: 2, max_retry_interval: 400, converse_at: None, udp_after_ms: None, expect_exit: Some("Tungstenite"), observe_ms: 2500 },
        Scenario { name: "non-retryable-http-301", script: vec![Act::HttpStatus(301); 4], max_retry_count: 0, max_retry_interval: 400, converse_at: None, udp_after_ms: None, expect_exit: Some("Tungstenite"), observe_ms: 2500 },
        Scenario { name: "stall-then-healthy", script: vec![Act::Stall, Act::Healthy], max_retry_count: 0, max_retry_interval: 400, converse_at: Some(300), udp_after_ms: None, expect_exit: None, observe_ms: 3500 },
        Scenario { name: "cut-resets-backoff", script: vec![Act::Rst, Act::Rst, Act::ForwardCut(300), Act::Rst, Act::Healthy], max_retry_count: 0, max_retry_interval: 800, converse_at: Some(2200), udp_after_ms: None, expect_exit: None, observe_ms: 4200 },
        Scenario { name: "orderly-close", script: vec![Act::ForwardWsClose(300), Act::Healthy], max_retry_count: 0, max_retry_interval: 400, converse_at: None, udp_after_ms: Some(900), expect_exit: None, observe_ms: 4500 },
        Scenario { name: "stream-request-timeout", script: vec![Act::ForwardBlackhole(150), Act::Healthy], max_retry_count: 0, max_retry_interval: 400, converse_at: Some(250), udp_after_ms: None, expect_exit: None, observe_ms: 4500 },
        // the tunnel is lost while a stream request is outstanding (Connect sent, never answered): the request is served by the next connection
        // the request is parked by a stream-request time-out; the next server lets the upgrade through and then stays silent with the
        // connection open: the re-issued request must time out after channel_timeout (1 s) as well - also when the handshake time-out
        // is disabled - and be served by the third connection
        Scenario { name: "hs-none-parked-request-on-silent-server", script: vec![Act::ForwardBlackhole(150), Act::UpgradeThenSwallowCut(9000), Act::Healthy], max_retry_count: 0, max_retry_interval: 400, converse_at: Some(250), udp_after_ms: None, expect_exit: None, observe_ms: 6000 },
        Scenario { name: "lost-with-request-outstanding", script: vec![Act::ForwardSwallowCut(200, 400), Act::Healthy], max_retry_count: 0, max_retry_interval: 400, converse_at: Some(350), udp_after_ms: None, expect_exit: None, observe_ms: 3500 },
        // a parked request, and connections that complete the upgrade but die while that request is retried: every one of them
        // was a successful connection, so every delay is the shortest one
        Scenario { name: "parked-request-retried-on-dying-connections", script: vec![Act::ForwardSwallowCut(100, 120), Act::UpgradeThenSwallowCut(60), Act::UpgradeThenSwallowCut(60), Act::UpgradeThenSwallowCut(60), Act::Healthy], max_retry_count: 0, max_retry_interval: 1600, converse_at: Some(150), udp_after_ms: None, expect_exit: None, observe_ms: 4500 },
        // the attempt stalls before the WebSocket upgrade can even be sent (TLS session setup against a silent peer)
        Scenario { name: "tls-stall-retry-limit-2", script: vec![Act::Stall; 8], max_retry_count: 2, max_retry_interval: 400, converse_at: None, udp_after_ms: None, expect_exit: Some("MaxRetryCountReached"), observe_ms: 6500 },
        // TLS transport: the peer closes the TCP connection in the middle of the TLS handshake (what a load balancer without a
        // healthy backend does): retryable like any other failed attempt
        Scenario { name: "tls-eof-in-handshake-then-healthy", script: vec![Act::ReadClose, Act::ReadClose, Act::Healthy], max_retry_count: 0, max_retry_interval: 400, converse_at: Some(100), udp_after_ms: None, expect_exit: None, observe_ms: 3500 },
        // TLS transport: an established tunnel is cut without a TLS close_notify (a middlebox drops the TCP connection)
        Scenario { name: "tls-session-cut-then-healthy", script: vec![Act::ForwardCut(300), Act::Healthy], max_retry_count: 0, max_retry_interval: 400, converse_at: Some(450), udp_after_ms: None, expect_exit: None, observe_ms: 3500 },
        // the same on the plain transport: the peer reads the upgrade request and closes
        Scenario { name: "eof-after-request-then-healthy", script: vec![Act::ReadClose, Act::ReadClose, Act::Healthy], max_retry_count: 0, max_retry_interval: 400, converse_at: Some(100), udp_after_ms: None, expect_exit: None, observe_ms: 3500 },
        // local UDP traffic does not stop because the tunnel is down: the client survives the burst and UDP works afterwards
        Scenario { name: "udp-burst-during-outage", script: vec![Act::Rst, Act::Rst, Act::Rst, Act::Rst, Act::Healthy], max_retry_count: 0, max_retry_interval: 400, converse_at: None, udp_after_ms: Some(2600), expect_exit: None, observe_ms: 5500 },
        // neither do local SOCKS clients: more requests than the internal channel holds pile up behind one TCP-remote connection
        Scenario { name: "socks-pile-up-during-outage", script: vec![Act::Rst, Act::Rst, Act::Rst, Act::Rst, Act::Healthy], max_retry_count: 0, max_retry_interval: 400, converse_at: Some(300), udp_after_ms: None, expect_exit: None, observe_ms: 5000 },
        // a long outage in little time: 100 consecutive failures with a tiny retry cap, then the server is back
        Scenario { name: "long-outage-100", script: { let mut v = vec![Act::Rst; 100]; v.push(Act::Healthy); v }, max_retry_count: 0, max_retry_interval: 3, converse_at: Some(50), udp_after_ms: None, expect_exit: None, observe_ms: 3500 },
    ];
    if thorough {
        for i in 0..12 {
            let n = rng.range(1, 4) as usize;
            let mut script: Vec<Act> = (0..n).map(|_| match rng.below(5) {
                0 => Act::Close,
                1 => Act::Stall,
                2 => Act::ForwardCut(rng.range(100, 400)),
                _ => Act::Rst,
            }).collect();
            script.push(Act::Healthy);
            let stalls = script.iter().filter(|a| **a == Act::Stall).count() as u64;
            v.push(Scenario { name: Box::leak(format!("random-{i}").into_boxed_str()), script, max_retry_count: 0, max_retry_interval: *rng.pick(&[400u64, 800]), converse_at: Some(rng.range(50, 600)), udp_after_ms: None, expect_exit: None, observe_ms: 4000 + 1300 * stalls });
        }
        for n in [0u32, 2, 4] {
            v.push(Scenario { name: Box::leak(format!("retry-limit-{n}").into_boxed_str()), script: vec![Act::Rst; 12], max_retry_count: n, max_retry_interval: 400, converse_at: None, udp_after_ms: None, expect_exit: if n == 0 { None } else { Some("MaxRetryCountReached") }, observe_ms: if n == 0 { 3000 } else { 4000 } });
        }
    }
    v
}

/// A delay is judged too late only if it was late in at least this many repeats (all of them), each with a punctual timer witness.
const LATE_CONFIRM_REPEATS: usize = 5;

/// Expected gaps between consecutive attempts, derived from the script by the reference back-off.
fn judge(st: &mut Stats, sc: &Scenario, outs: &[Outcome], seed: u64) {
    let replay = |o: &Outcome| json!({"kind": "c19", "scenario": format!("{sc:?}"), "run_seed": seed,
        "attempts_ms": o.attempts.iter().map(|a| format!("#{} {:?} at {} ms", a.0, a.2, a.1.duration_since(o.t0).as_millis())).collect::<Vec<_>>(),
        "exit": format!("{:?}", o.exit), "conversation": format!("{:?}", o.conv), "probes": format!("{}/{}", o.probes_ok, o.probes), "udp": format!("{:?}", o.udp_ok)});
    // per repeat: hard lower bounds and counts; upper bounds on the best repeat
    let mut best_excess: Vec<Option<i64>> = Vec::new();
    for o in outs {
        st.count("attempts_observed", o.attempts.len() as u64);
        let mut k: u32 = 0; // consecutive failures so far
        for w in o.attempts.windows(2) {
            let (a, b) = (&w[0], &w[1]);
            let succeeded = matches!(a.2, Act::ForwardCut(_) | Act::ForwardWsClose(_) | Act::ForwardBlackhole(_) | Act::ForwardSwallowCut(..) | Act::UpgradeThenSwallowCut(_) | Act::Healthy);
            if succeeded {
                k = 0;
            }
            let backoff = (200u64 << k.min(20)).min(sc.max_retry_interval);
            // the delay is counted from the moment the failure happened
            let from = match (&a.2, a.3) {
                (Act::Stall, _) => a.1 + Duration::from_secs(1),
                (Act::ForwardBlackhole(_), Some(_)) => {
                    // failure is noticed when a stream request times out: not a fixed instant; skip timing
                    k += 1;
                    best_excess.push(None);
                    continue;
                }
                (_, Some(end)) => end,
                _ => a.1,
            };
            let gap = b.1.saturating_duration_since(from).as_millis() as i64;
            let idx = best_excess.len();
            let _ = idx;
            let lower = backoff as i64 - 5;
            if gap < lower {
                st.violation(Violation { signature: format!("retry-too-early|k={k}"), detail: format!("[{}] attempt #{} came {gap} ms after the failure of attempt #{}; the {k}-th consecutive delay must be at least min(200*2^{k}, {}) = {backoff} ms", sc.name, b.0, a.0, sc.max_retry_interval), replay: replay(o) });
            }
            best_excess.push(Some(gap - backoff as i64));
            k += 1;
        }
    }
    // upper bound: minimum over repeats per position
    let per = outs.first().map_or(0, |o| o.attempts.len().saturating_sub(1));
    if per > 0 && outs.iter().all(|o| o.attempts.len().saturating_sub(1) == per) {
        for pos in 0..per {
            let vals: Vec<i64> = (0..outs.len()).filter_map(|r| best_excess.get(r * per + pos).copied().flatten()).collect();
            if vals.is_empty() {
                continue;
            }
            let min = *vals.iter().min().unwrap();
            let k = pos as u32;
            let backoff = (200u64 << k.min(20)).min(sc.max_retry_interval) as i64;
            let tol = 150.max(backoff / 2);
            if min > tol {
                // load witness: a timer task on the same runtime was punctual throughout every repeat
                let overs: Vec<u64> = outs.iter().map(|o| o.max_timer_overshoot_ms).collect();
                if vals.iter().all(|v| *v > tol) && vals.len() >= LATE_CONFIRM_REPEATS && overs.iter().all(|o| (*o as i64) < tol / 4) {
                    st.violation(Violation { signature: format!("retry-too-late|pos={pos}"), detail: format!("[{}] the delay before attempt #{} exceeded the expected back-off by {vals:?} ms in every one of {} repeats (tolerance {tol} ms; a 5 ms timer on the same runtime never overshot by more than {overs:?} ms)", sc.name, pos + 1, vals.len()), replay: replay(&outs[0]) });
                } else {
                    st.inconclusive.push(format!("c19 [{}]: delay before attempt #{} late by {vals:?} ms", sc.name, pos + 1));
                }
            }
        }
    }
    for o in outs {
        // a listener that could not be set up (its port, found free a moment earlier, was taken by another process of a parallel
        // shard before the client bound it): the client ends at once with RemoteHandlerExited, nothing of the script has happened.
        // That is a property of the harness's port allocation, not of the client under a connection loss: no verdict.
        if let Some((dt, e)) = &o.exit {
            if e == "RemoteHandlerExited" && *dt < Duration::from_millis(100) && o.attempts.len() <= 1 && matches!(&o.conv, None | Some(Err(_))) {
                st.inconclusive.push(format!("c19 [{}]: the client could not set up its listeners (port taken at start-up); run discarded", sc.name));
                continue;
            }
        }
        // counts and exit
        match sc.expect_exit {
            Some("MaxRetryCountReached") => {
                let want = sc.max_retry_count as usize + 1;
                match &o.exit {
                    Some((_, e)) if e == "MaxRetryCountReached" => {
                        if o.attempts.len() != want {
                            st.violation(Violation { signature: "retry-count".into(), detail: format!("[{}] max_retry_count = {}: the client gave up after {} attempts, expected {want} (the initial one plus {} retries)", sc.name, sc.max_retry_count, o.attempts.len(), sc.max_retry_count), replay: replay(o) });
                        }
                    }
                    Some((_, e)) => st.violation(Violation { signature: format!("wrong-exit|{e}"), detail: format!("[{}] the client ended with {e}, expected MaxRetryCountReached", sc.name), replay: replay(o) }),
                    None => {
                        if o.attempts.len() > want {
                            st.violation(Violation { signature: "retry-limit-ignored".into(), detail: format!("[{}] max_retry_count = {}: {} attempts were made and the client is still running", sc.name, sc.max_retry_count, o.attempts.len()), replay: replay(o) });
                        } else if let (Some(last), true) = (o.attempts.last().filter(|a| a.2 == Act::Stall), o.max_timer_overshoot_ms < 500) {
                            // a stalled attempt must be cut after handshake_timeout (1 s); it has been open for much longer,
                            // while a 5 ms timer task on the same runtime never overshot by 500 ms (load witness)
                            let open_ms = (o.t0 + Duration::from_millis(sc.observe_ms)).saturating_duration_since(last.1).as_millis();
                            if open_ms > 4000 {
                                st.violation(Violation { signature: "stalled-attempt-not-cut".into(), detail: format!("[{}] attempt #{} was accepted and then met silence; handshake_timeout is 1 s, but {open_ms} ms later the client is still inside that attempt (no retry, no give-up)", sc.name, last.0), replay: replay(o) });
                            } else {
                                st.inconclusive.push(format!("c19 [{}]: client still running at the end of the observation window", sc.name));
                            }
                        } else if o.quiescent_at_end {
                            st.violation(Violation { signature: "no-give-up".into(), detail: format!("[{}] all {} attempts failed but the client neither retried nor gave up (process quiescent)", sc.name, o.attempts.len()), replay: replay(o) });
                        } else {
                            st.inconclusive.push(format!("c19 [{}]: client still running at the end of the observation window", sc.name));
                        }
                    }
                }
            }
            Some(tag) => match &o.exit {
                Some((dt, e)) => {
                    if e == "MaxRetryCountReached" || o.attempts.len() != 1 {
                        st.violation(Violation { signature: "non-retryable-retried".into(), detail: format!("[{}] a non-retryable error led to {} attempts and exit {e}", sc.name, o.attempts.len()), replay: replay(o) });
                    }
                    let _ = (dt, tag);
                }
                None => {
                    if o.attempts.len() > 1 {
                        st.violation(Violation { signature: "non-retryable-retried".into(), detail: format!("[{}] a non-retryable error was retried ({} attempts)", sc.name, o.attempts.len()), replay: replay(o) });
                    } else if o.quiescent_at_end {
                        st.violation(Violation { signature: "non-retryable-no-exit".into(), detail: format!("[{}] the client did not end after a non-retryable error (process quiescent)", sc.name), replay: replay(o) });
                    } else {
                        st.inconclusive.push(format!("c19 [{}]: client still running after a non-retryable error", sc.name));
                    }
                }
            },
            None => {
                if let Some((dt, e)) = &o.exit {
                    st.violation(Violation { signature: format!("unexpected-exit|{e}"), detail: format!("[{}] the client ended with {e} after {} ms although retries are unlimited / the server became healthy", sc.name, dt.as_millis()), replay: replay(o) });
                }
                if sc.max_retry_count == 0 && sc.script.iter().all(|a| *a == Act::Rst) && o.attempts.len() < 4 && o.quiescent_at_end {
                    st.violation(Violation { signature: "stopped-retrying".into(), detail: format!("[{}] unlimited retries, but only {} attempts in {} ms", sc.name, o.attempts.len(), sc.observe_ms), replay: replay(o) });
                }
            }
        }
        // listeners stay open
        if o.probes > 0 {
            st.target("listener_probes", o.probes as u64);
            if o.probes_ok != o.probes {
                st.violation(Violation { signature: "listener-closed-during-outage".into(), detail: format!("[{}] {} of {} connection probes to the local listener failed while the client was running", sc.name, o.probes - o.probes_ok, o.probes), replay: replay(o) });
            }
        }
        // the local conversation survives the outage
        if let Some(c) = &o.conv {
            st.target("conversations_across_outage", 1);
            match c {
                Ok(()) => {}
                Err(e) if e == "timeout" => {
                    if o.quiescent_at_end {
                        st.violation(Violation { signature: format!("request-lost|{}", sc.name), detail: format!("[{}] a local connection accepted while the tunnel was down (or whose stream request timed out) never completed its conversation over the next healthy connection (process quiescent; target saw {:?})", sc.name, o.target_seen), replay: replay(o) });
                    } else {
                        st.inconclusive.push(format!("c19 [{}]: conversation timed out without quiescence witness", sc.name));
                    }
                }
                Err(e) => {
                    // a conversation that was accepted and served over a working tunnel which was then cut under it is broken by
                    // the cut (as a direct connection would be): the statement speaks of connections accepted while the tunnel is down
                    let started = sc.converse_at.map(|ms| o.t0 + Duration::from_millis(ms));
                    let margin = Duration::from_millis(30);
                    let on_doomed = started.is_some_and(|t| o.attempts.iter().any(|a| matches!(a.2, Act::ForwardCut(_) | Act::ForwardWsClose(_)) && a.1 <= t + margin && a.3.is_none_or(|end| t <= end + margin)));
                    if on_doomed {
                        st.count("conversations_started_on_a_connection_that_was_then_cut", 1);
                    } else {
                        st.violation(Violation { signature: format!("request-dropped|{}", sc.name), detail: format!("[{}] the local connection accepted during the outage failed: {e}", sc.name), replay: replay(o) });
                    }
                }
            }
        }
        // orderly close: reconnect by itself, UDP flows again
        if sc.script.first().is_some_and(|a| matches!(a, Act::ForwardWsClose(_))) {
            st.target("orderly_close_runs", 1);
            if o.attempts.len() < 2 {
                if o.quiescent_at_end {
                    st.violation(Violation { signature: "no-reconnect-after-orderly-close".into(), detail: format!("[{}] the server closed the WebSocket in an orderly way; the client made no new connection attempt within {} ms (process quiescent) and keeps running on a dead tunnel", sc.name, sc.observe_ms), replay: replay(o) });
                } else {
                    st.inconclusive.push(format!("c19 [{}]: no reconnect observed, no quiescence witness", sc.name));
                }
            }
            if o.udp_ok == Some(false) {
                st.violation(Violation { signature: "udp-lost-after-orderly-close".into(), detail: format!("[{}] datagrams sent after the orderly close never reached the target", sc.name), replay: replay(o) });
            }
        }
    }
}

fn startup_race(o: &Outcome) -> bool {
    matches!(&o.exit, Some((dt, e)) if e == "RemoteHandlerExited" && *dt < Duration::from_millis(100) && o.attempts.len() <= 1 && matches!(&o.conv, None | Some(Err(_))))
}

pub fn run(p: &Params) -> (Stats, &'static str) {
    let mut st = Stats::new();
    st.engine("E2E", 1);
    rusty_penguin_lib::tls::init_crypto_provider();
    let mut rng = Rng64::new(p.shard_seed("C19"));
    let all = scenarios(&mut rng, p.tier_thorough);
    let repeats = if p.tier_thorough { 3 } else { 2 };
    for (i, sc) in all.iter().enumerate() {
        if i as u64 % p.nshards != p.shard {
            continue;
        }
        let mut outs = Vec::new();
        for r in 0..repeats {
            let rt = tokio::runtime::Builder::new_multi_thread().worker_threads(2).enable_all().build().expect("rt");
            let seed = mix(p.seed, (i * 16 + r) as u64);
            let mut o = rt.block_on(run_scenario(sc.clone(), seed));
            rt.shutdown_background();
            // a local port taken by another process between probing and binding: nothing of the script happened, run it again
            for _ in 0..3 {
                if !startup_race(&o) {
                    break;
                }
                st.count("runs_repeated_after_a_start_up_port_race", 1);
                let rt = tokio::runtime::Builder::new_multi_thread().worker_threads(2).enable_all().build().expect("rt");
                o = rt.block_on(run_scenario(sc.clone(), seed));
                rt.shutdown_background();
            }
            st.evaluations += 1;
            if o.attempts.iter().any(|a| !matches!(a.2, Act::Healthy)) {
                st.nontrivial(mix(crate::util::fnv(sc.name.as_bytes()), r as u64));
                st.target("runs_with_failed_attempts", 1);
            }
            outs.push(o);
        }
        // a delay late in every repeat so far: repeat more before judging (lateness is a wall-clock observation)
        let mut dry = Stats::new();
        judge(&mut dry, sc, &outs, p.seed);
        if dry.inconclusive.iter().any(|m| m.contains("late by")) {
            for r in repeats..LATE_CONFIRM_REPEATS.max(repeats) {
                let rt = tokio::runtime::Builder::new_multi_thread().worker_threads(2).enable_all().build().expect("rt");
                let o = rt.block_on(run_scenario(sc.clone(), mix(p.seed, (i * 16 + r) as u64)));
                rt.shutdown_background();
                st.evaluations += 1;
                st.count("extra_repeats_for_lateness", 1);
                outs.push(o);
            }
        }
        judge(&mut st, sc, &outs, p.seed);
        st.cell("script", sc.name);
        if st.samples.len() < 3 {
            st.sample(json!({"scenario": sc.name, "script": format!("{:?}", sc.script), "attempt_times_ms": outs[0].attempts.iter().map(|a| a.1.duration_since(outs[0].t0).as_millis() as u64).collect::<Vec<_>>(), "exit": format!("{:?}", outs[0].exit)}));
        }
    }
    (st, RULE)
}
