"""Per-property job tables for ./check. A job is one harness sub-command run as
`shards` parallel processes; results of all jobs of a tier are merged."""


def job(name, harness, profile, cmd, shards, extra=None, timeout=None, miriflags=""):
    j = {"name": name, "harness": harness, "profile": profile, "cmd": cmd, "shards": shards,
         "extra": extra or [], "miriflags": miriflags}
    if timeout:
        j["timeout"] = timeout
    return j


COMMON_ASSUMPTIONS = [
    "verdicts come from the `verif` cargo profile (release semantics: debug assertions and overflow checks off)",
    "/repo is compiled from its current working tree with --cfg penguin_rs_verif (observer hooks on; hooks are add-only)",
    "held = no monitor fired on the executions listed under coverage; nothing is claimed about executions not produced",
]

PROPS = {
    "C09": {
        "level": "exploration",
        "jobs": {
            "quick": [job("pure", "mux", "verif", "c09", 8)],
            "thorough": [job("pure", "mux", "verif", "c09", 16),
                         job("miri", "mux", "miri", "c09", 8, extra=["--miri", "1"], timeout=3000)],
        },
        "required_targets": {},
        "assumptions": COMMON_ASSUMPTIONS + [
            "the reference codec (harness/mux/src/refcodec.rs) is a correct reading of PROTOCOL.md: trailing bytes after Acknowledge/Reset/Finish are ignored, version nibble 0 is accepted",
            "Frame fields are crate-private: field values are compared through ==, id, opcode() and re-encoding",
        ],
    },
    "C18": {
        "level": "exploration",
        "jobs": {
            "quick": [job("pure", "mux", "verif", "c18", 8)],
            "thorough": [job("pure", "mux", "verif", "c18", 16)],
        },
        "assumptions": COMMON_ASSUMPTIONS + [
            "the reference grammar (harness/mux/src/c18.rs) is a correct reading of RFC 1928, SOCKS4 and the SOCKS4a convention (DSTIP 0.0.0.x, x != 0)",
            "SOCKS4 requests with DSTIP 0.0.0.0 or 0.a.b.c are outside the convention and carry no verdict; the reserved bytes of a UDP request header are not required to be checked",
            "the live SOCKS path (listener, replies on a real socket, UDP association) is covered by C01, not here",
        ],
    },
    "C20": {
        "level": "exploration",
        "jobs": {
            "quick": [job("pure", "mux", "verif", "c20", 8)],
            "thorough": [job("pure", "mux", "verif", "c20", 16),
                         job("miri", "mux", "miri", "c20", 8, extra=["--miri", "1"], timeout=3000)],
        },
        "assumptions": COMMON_ASSUMPTIONS + [
            "model = Vec<u8> plus the list of chunk lengths; index/length arguments are resolved on the model",
            "after a caught panic on an out-of-range argument the chain is discarded, not inspected",
            "io::Read on CowBytes is not an accessor the property constrains: only agreement between the borrowed and owned variant is checked",
        ],
    },
}
