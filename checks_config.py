"""Per-property job tables for ./check. A job is one harness sub-command run as
`shards` parallel processes; results of all jobs of a tier are merged."""


def job(name, harness, profile, cmd, shards, extra=None, timeout=None, miriflags=""):
    j = {"name": name, "harness": harness, "profile": profile, "cmd": cmd, "shards": shards,
         "extra": extra or [], "miriflags": miriflags}
    if timeout:
        j["timeout"] = timeout
    return j


COMMON_ASSUMPTIONS = [
    "verdicts come from the `verif` cargo profile (release semantics: debug assertions and overflow checks off)",
    "/repo is compiled from its current working tree with --cfg penguin_rs_verif (observer hooks on; hooks are add-only)",
    "held = no monitor fired on the executions listed under coverage; nothing is claimed about executions not produced",
]

SIM_ASSUMPTIONS = [
    "SIM engine: tokio current-thread runtime with paused clock; both real connection tasks, all application actors and the in-memory WebSocket (harness/mux/src/memws.rs) run on it",
    "schedules are those produced by seeded jitter at poll boundaries (a task or a WebSocket poll may be postponed), link capacities 1/2/8/unbounded and flush back-pressure; real thread parallelism is not exercised here",
    "one total order of wire-tap, hook and API events per run; API events are logged at the client boundary (call before invoking, return after)",
]

PROPS = {
    "C09": {
        "level": "exploration",
        "jobs": {
            "quick": [job("pure", "mux", "verif", "c09", 8)],
            "thorough": [job("pure", "mux", "verif", "c09", 16),
                         job("miri", "mux", "miri", "c09", 8, extra=["--miri", "1"], timeout=3000)],
        },
        "required_targets": {},
        "assumptions": COMMON_ASSUMPTIONS + [
            "the reference codec (harness/mux/src/refcodec.rs) is a correct reading of PROTOCOL.md: trailing bytes after Acknowledge/Reset/Finish are ignored, version nibble 0 is accepted",
            "Frame fields are crate-private: field values are compared through ==, id, opcode() and re-encoding",
        ],
    },
    "C18": {
        "level": "exploration",
        "jobs": {
            "quick": [job("pure", "mux", "verif", "c18", 8)],
            "thorough": [job("pure", "mux", "verif", "c18", 16)],
        },
        "assumptions": COMMON_ASSUMPTIONS + [
            "the reference grammar (harness/mux/src/c18.rs) is a correct reading of RFC 1928, SOCKS4 and the SOCKS4a convention (DSTIP 0.0.0.x, x != 0)",
            "SOCKS4 requests with DSTIP 0.0.0.0 or 0.a.b.c are outside the convention and carry no verdict; the reserved bytes of a UDP request header are not required to be checked",
            "the live SOCKS path (listener, replies on a real socket, UDP association) is covered by C01, not here",
        ],
    },
    "C20": {
        "level": "exploration",
        "jobs": {
            "quick": [job("pure", "mux", "verif", "c20", 8)],
            "thorough": [job("pure", "mux", "verif", "c20", 16),
                         job("miri", "mux", "miri", "c20", 8, extra=["--miri", "1"], timeout=3000)],
        },
        "assumptions": COMMON_ASSUMPTIONS + [
            "model = Vec<u8> plus the list of chunk lengths; index/length arguments are resolved on the model",
            "after a caught panic on an out-of-range argument the chain is discarded, not inspected",
            "io::Read on CowBytes is not an accessor the property constrains: only agreement between the borrowed and owned variant is checked",
        ],
    },
    "C02": {
        "level": "exploration",
        "jobs": {
            "quick": [job("sim", "mux", "verif", "c02", 8)],
            "thorough": [job("sim", "mux", "verif", "c02", 16)],
        },
        "required_targets": {"any": ["reads", "eof_seen"]},
        "assumptions": COMMON_ASSUMPTIONS + SIM_ASSUMPTIONS,
    },
    "C03": {
        "level": "exploration",
        "jobs": {
            "quick": [job("sim", "mux", "verif", "c03", 8)],
            "thorough": [job("sim", "mux", "verif", "c03", 16)],
        },
        "required_targets": {"any": ["writer_blocked_at_zero", "ack_raced_write"]},
        "assumptions": COMMON_ASSUMPTIONS + SIM_ASSUMPTIONS + [
            "window_out is taken from the wire (peer's Connect rwnd / handshake Acknowledge), credit events from the CreditTaken/FrameConsumed/WindowOverrun hooks",
        ],
    },
    "C04": {
        "level": "exploration",
        "jobs": {
            "quick": [job("sim", "mux", "verif", "c04", 8)],
            "thorough": [job("sim", "mux", "verif", "c04", 16)],
        },
        "required_targets": {"any": ["writer_blocked_at_zero", "isolation_runs"]},
        "assumptions": COMMON_ASSUMPTIONS + SIM_ASSUMPTIONS + [
            "'blocks forever' is decided by quiescence in virtual time: the runtime has no runnable task and only the one-hour watchdog timer left while an awaited application operation is pending",
            "a writer whose peer finished its own direction and then dropped the stream without reading is an absent reader (delays only itself) and is not demanded to complete",
        ],
    },
    "C05": {
        "level": "exploration",
        "jobs": {
            "quick": [job("sim", "mux", "verif", "c05", 8)],
            "thorough": [job("sim", "mux", "verif", "c05", 16)],
        },
        "required_targets": {"any": ["eof_seen", "zero_length_writes", "broken_pipe"]},
        "assumptions": COMMON_ASSUMPTIONS + SIM_ASSUMPTIONS,
    },
}
