"""Per-property job tables for ./check. A job is one harness sub-command run as
`shards` parallel processes; results of all jobs of a tier are merged."""


def job(name, harness, profile, cmd, shards, extra=None, timeout=None, miriflags="", hosts=False):
    j = {"name": name, "harness": harness, "profile": profile, "cmd": cmd, "shards": shards,
         "extra": extra or [], "miriflags": miriflags}
    if timeout:
        j["timeout"] = timeout
    if hosts:
        # run the shard with an /etc/hosts (private mount namespace) in which dual.verif has an IPv6 and an IPv4 address
        j["hosts"] = True
    return j


COMMON_ASSUMPTIONS = [
    "verdicts come from the `verif` cargo profile (release semantics: debug assertions and overflow checks off)",
    "/repo is compiled from its current working tree with --cfg penguin_rs_verif (observer hooks on; hooks are add-only)",
    "held = no monitor fired on the executions listed under coverage; nothing is claimed about executions not produced",
    "where a `dev` job is listed (thorough tier): the same valid-input workload is also run with debug assertions on, so that the repository's own debug_assert!s act as extra monitors; a panic there is reported as a violation of the property whose workload it was",
]

SIM_ASSUMPTIONS = [
    "SIM engine: tokio current-thread runtime with paused clock; both real connection tasks, all application actors and the in-memory WebSocket (harness/mux/src/memws.rs) run on it",
    "schedules are those produced by seeded jitter at poll boundaries (a task or a WebSocket poll may be postponed), link capacities 1/2/8/unbounded and flush back-pressure; real thread parallelism is not exercised here",
    "one total order of wire-tap, hook and API events per run; API events are logged at the client boundary (call before invoking, return after)",
    "where a THR job is listed: the same scenarios also run on a 6-worker multi-thread runtime in real time with seeded sleeps at hook points; only rules that are sound without a global execution order give verdicts there, a wall-clock timeout is inconclusive",
]

E2E_ASSUMPTIONS = [
    "E2E engine: the real client_main_inner / run_listener run in-process on loopback sockets and real time; schedules are whatever the OS and tokio's multi-thread runtime produce",
    "a timeout is a violation only together with a process-quiescence witness (/proc/self/task: all threads sleeping, CPU time not moving); otherwise inconclusive",
]

PROPS = {
    "C09": {
        "level": "exploration",
        "jobs": {
            "quick": [job("pure", "mux", "verif", "c09", 8)],
            "thorough": [job("pure", "mux", "verif", "c09", 16),
                         job("miri", "mux", "miri", "c09", 8, extra=["--miri", "1"], timeout=3000)],
        },
        "required_targets": {},
        "assumptions": COMMON_ASSUMPTIONS + [
            "the reference codec (harness/mux/src/refcodec.rs) is a correct reading of PROTOCOL.md: trailing bytes after Acknowledge/Reset/Finish are ignored, version nibble 0 is accepted",
            "Frame fields are crate-private: field values are compared through ==, id, opcode() and re-encoding",
        ],
    },
    "C18": {
        "level": "exploration",
        "jobs": {
            "quick": [job("pure", "mux", "verif", "c18", 8), job("front", "e2e", "verif", "c18s", 4, timeout=600)],
            "thorough": [job("pure", "mux", "verif", "c18", 16), job("front", "e2e", "verif", "c18s", 16, timeout=1800)],
        },
        "required_targets": {"any": ["socks_conversations", "method_selections", "noauth_offered_not_first", "failure_replies", "connects_served"]},
        "assumptions": COMMON_ASSUMPTIONS + [
            "the reference grammar (harness/mux/src/c18.rs) is a correct reading of RFC 1928, SOCKS4 and the SOCKS4a convention (DSTIP 0.0.0.x, x != 0)",
            "SOCKS4 requests with DSTIP 0.0.0.0 or 0.a.b.c are outside the convention and carry no verdict; the reserved bytes of a UDP request header are not required to be checked",
            "job front (ve2e c18s): the SOCKS front-end of the real client is driven over loopback by scripted SOCKS clients; only what RFC 1928 / SOCKS4 fix is asserted (method selection, reply codes and formats, closing after a failure reply); UDP relaying through an association is covered by C01",
        ],
    },
    "C20": {
        "level": "exploration",
        "jobs": {
            "quick": [job("pure", "mux", "verif", "c20", 8)],
            "thorough": [job("pure", "mux", "verif", "c20", 16),
                         job("miri", "mux", "miri", "c20", 8, extra=["--miri", "1"], timeout=3000)],
        },
        "assumptions": COMMON_ASSUMPTIONS + [
            "model = Vec<u8> plus the list of chunk lengths; index/length arguments are resolved on the model",
            "after a caught panic on an out-of-range argument the chain is discarded, not inspected",
            "io::Read on CowBytes is not an accessor the property constrains: only agreement between the borrowed and owned variant is checked",
        ],
    },
    "C02": {
        "level": "exploration",
        "jobs": {
            "quick": [job("sim", "mux", "verif", "c02", 8), job("thr", "mux", "verif", "c02", 4, extra=["--engine", "thr"])],
            "thorough": [job("sim", "mux", "verif", "c02", 16), job("thr", "mux", "verif", "c02", 16, extra=["--engine", "thr"]),
                         job("dev", "mux", "dev", "c02", 8, extra=["--scale", "0.05"])],
        },
        "required_targets": {"any": ["reads", "eof_seen"]},
        "assumptions": COMMON_ASSUMPTIONS + SIM_ASSUMPTIONS,
    },
    "C03": {
        "level": "exploration",
        "jobs": {
            "quick": [job("sim", "mux", "verif", "c03", 8), job("thr", "mux", "verif", "c03", 4, extra=["--engine", "thr"]),
                      job("bridge", "mux", "verif", "c13", 4, extra=["--only", "credit"])],
            "thorough": [job("sim", "mux", "verif", "c03", 16), job("thr", "mux", "verif", "c03", 16, extra=["--engine", "thr"]),
                         job("dev", "mux", "dev", "c03", 8, extra=["--scale", "0.05"]),
                         job("bridge", "mux", "verif", "c13", 16, extra=["--only", "credit", "--scale", "0.2"])],
        },
        "required_targets": {"any": ["writer_blocked_at_zero", "ack_raced_write"]},
        "assumptions": COMMON_ASSUMPTIONS + SIM_ASSUMPTIONS + [
            "window_out is taken from the wire (peer's Connect rwnd / handshake Acknowledge), credit events from the CreditTaken/FrameConsumed/WindowOverrun hooks",
            "job bridge (vmux c13 --only credit): the executions of the bridge check (scripted local side, bursts of up to several hundred KiB ready at once) with only the credit rules giving verdicts: every Push frame the bridge sends has taken one unit, the window is never exceeded",
        ],
    },
    "C04": {
        "level": "exploration",
        "jobs": {
            "quick": [job("sim", "mux", "verif", "c04", 8)],
            "thorough": [job("sim", "mux", "verif", "c04", 16)],
        },
        "required_targets": {"any": ["writer_blocked_at_zero", "isolation_runs"]},
        "assumptions": COMMON_ASSUMPTIONS + SIM_ASSUMPTIONS + [
            "'blocks forever' is decided by quiescence in virtual time: the runtime has no runnable task and only the one-hour watchdog timer left while an awaited application operation is pending",
            "a writer whose peer finished its own direction and then dropped the stream without reading is an absent reader (delays only itself) and is not demanded to complete",
        ],
    },
    "C05": {
        "level": "exploration",
        "jobs": {
            "quick": [job("sim", "mux", "verif", "c05", 8)],
            "thorough": [job("sim", "mux", "verif", "c05", 16), job("dev", "mux", "dev", "c05", 8, extra=["--scale", "0.05"])],
        },
        "required_targets": {"any": ["eof_seen", "zero_length_writes", "broken_pipe"]},
        "assumptions": COMMON_ASSUMPTIONS + SIM_ASSUMPTIONS,
    },
    "C06": {
        "level": "exploration",
        "jobs": {
            "quick": [job("sim", "mux", "verif", "c06", 8), job("micro-close", "mux", "verif", "c12", 4, extra=["--only", "close"]), job("thr-abort", "mux", "verif", "c06", 4, extra=["--engine", "thr"])],
            "thorough": [job("sim", "mux", "verif", "c06", 16), job("dev", "mux", "dev", "c06", 8, extra=["--scale", "0.05"]), job("micro-close", "mux", "verif", "c12", 16, extra=["--only", "close"]), job("thr-abort", "mux", "verif", "c06", 16, extra=["--engine", "thr"])],
        },
        "required_targets": {"any": ['aborts', 'id_reuses', 'leak_probes', 'held_handle_probes']},
        "assumptions": COMMON_ASSUMPTIONS + SIM_ASSUMPTIONS + ['flow tables are read through the verif_flow_ids accessor only at quiescent points (1 ms of virtual time with nothing runnable); a table entry is a leak iff neither application holds a stream with that id', 'a handle held after a graceful end keeps its id in the flow table unless a Reset of that flow crossed the wire (the peer answers a late Acknowledge with one); only then is the id forced on the other end', 'the abort that crosses a writer parked at zero credit on another thread is decided by the MICRO engine (the hook-order enumeration of C12 restricted to the configurations in which the connection task closes the stream)', 'freed ids are re-issued only at quiescent points: in-flight frames of the previous incarnation are not demanded to be harmless (the protocol has no generation numbers)', "a stream that was finished and then dropped before reading everything sends no Reset; the peer's blocked writer is then an 'absent reader' case and is not demanded to be released", "job thr-abort: streams opened, written to and dropped unfinished by four tasks on a 6-worker runtime (1600 aborts per run); judged by final state only: one Reset of the flow on the wire per abort, flow table empty (bounded wait of 20 s for an otherwise idle endpoint)"],
    },
    "C07": {
        "level": "exploration",
        "jobs": {
            "quick": [job("sim", "mux", "verif", "c07", 8), job("thr", "mux", "verif", "c07", 4, extra=["--engine", "thr"])],
            "thorough": [job("sim", "mux", "verif", "c07", 16), job("thr", "mux", "verif", "c07", 16, extra=["--engine", "thr"])],
        },
        "required_targets": {"any": ['streams_established', 'collision_runs', 'raw_reset_runs', 'raw_bad_connect_runs', 'scripted_rng_runs', 'connect_on_pending_bind_id_runs']},
        "assumptions": COMMON_ASSUMPTIONS + SIM_ASSUMPTIONS + ['flow ids come from a scripted RNG passed to Multiplexor::new_detailed; requests are matched to Connect frames through the unique target host tag'],
    },
    "C08": {
        "level": "fault_enumeration",
        "jobs": {
            "quick": [job("sim", "mux", "verif", "c08", 8)],
            "thorough": [job("sim", "mux", "verif", "c08", 16)],
        },
        "required_targets": {"any": ['faults_with_operations_pending', 'drop_flush_runs']},
        "assumptions": COMMON_ASSUMPTIONS + SIM_ASSUMPTIONS + ['faults are injected by the in-memory WebSocket at a message index of a recorded base execution (peer Close, source EOF/error, sink error with silent or failing source, invalid frame, black-holed link + keepalive expiry with close completing or never completing)', 'a peer that is black-holed without keepalive has not ended and nothing is asserted about it; a local drop on a dead transport is not enumerated', 'the drop-flush oracle compares per flow, in order, the frames the application caused before drop(mux) with what was delivered to the peer before Close'],
    },
    "C11": {
        "level": "exploration",
        "jobs": {
            "quick": [job("sim", "mux", "verif", "c11", 8), job("thr", "mux", "verif", "c11", 4, extra=["--engine", "thr"])],
            "thorough": [job("sim", "mux", "verif", "c11", 16), job("thr", "mux", "verif", "c11", 16, extra=["--engine", "thr"]),
                         job("dev", "mux", "dev", "c11", 8, extra=["--scale", "0.05"])],
        },
        "required_targets": {"any": ['dgram_received', 'dgram_arrived_at_full_buffer']},
        "assumptions": COMMON_ASSUMPTIONS + SIM_ASSUMPTIONS + ['at the final quiescent point (SIM) the harness drains both datagram queues, so the model occupancy must be zero: reached = received + licensed', 'loss licence is computed from the event order: every delivery that finds the (modelled) buffer full licenses one loss; the modelled occupancy is never below the real one, so the bound is never stricter than the statement', 'identity of a datagram = (flow id, port), unique per datagram by construction; payloads >= 8 bytes also carry it'],
    },
    "C15": {
        "level": "exploration",
        "jobs": {
            "quick": [job("sim", "mux", "verif", "c15", 8)],
            "thorough": [job("sim", "mux", "verif", "c15", 16)],
        },
        "required_targets": {"any": ['bind_seen', 'id_reuse_runs', 'bind_accepted']},
        "assumptions": COMMON_ASSUMPTIONS + SIM_ASSUMPTIONS + ["a request is matched to the peer application's decision through its unique port; the decision is logged by the responder before it calls reply()/drops the request"],
    },
    "C16": {
        "level": "exploration",
        "jobs": {
            "quick": [job("sim", "mux", "verif", "c16", 8), job("client", "e2e", "verif", "c16e", 8, timeout=600)],
            "thorough": [job("sim", "mux", "verif", "c16", 16), job("client", "e2e", "verif", "c16e", 8, timeout=1200)],
        },
        "required_targets": {"any": ['timeouts_observed', 'live_runs_to_horizon', 'pending_ops_checked', 'sub_second_runs']},
        "assumptions": COMMON_ASSUMPTIONS + SIM_ASSUMPTIONS + ["all time is virtual (tokio paused clock; the TimestampProvider reads tokio's clock); timestamps are exact", "builder order is the client's (interval, then timeout); the reverse order is a recorded probe without verdict", "'never times out' is checked up to a horizon of 2000 intervals", "a Ping sent by the peer is not an answer to ours: a peer that only pings is a peer that stopped answering",
            "job client (ve2e c16e): the real client is given I and T in its arguments and observed from a byte-forwarding gate that timestamps the WebSocket Pings and Pongs it relays; real time with generous margins (at least W/I - 3 Pings in a window W, abandonment between T - 50 ms and T + I + 900 ms after the last relayed Pong) and a punctuality witness; T = I is left to the virtual-time job because wall-clock jitter decides it"],
    },
    "C10": {
        "level": "fault_enumeration",
        "jobs": {
            "quick": [job("sim", "mux", "verif", "c10", 8), job("ws", "e2e", "verif", "c10w", 2)],
            "thorough": [job("sim", "mux", "verif", "c10", 16), job("ws", "e2e", "verif", "c10w", 16)],
        },
        "required_targets": {"any": ["enumerated_sequences", "random_sequences", "garbage_runs", "overrun_runs", "ws_level_cases", "invalid_messages", "harmless_messages"]},
        "assumptions": COMMON_ASSUMPTIONS + SIM_ASSUMPTIONS + [
            "the peer is a scripted raw peer speaking frames built by the reference codec; only what the statement and PROTOCOL.md fix is asserted (appendix A.4), every other reply of the endpoint is recorded and unconstrained",
            "exact per-step reply counts are asserted in stepwise mode (a quiescent point after every offending frame) against a small model of which named ids are in use; in burst mode only state-independent rules apply",
            "job ws (ve2e c10w): the tokio-tungstenite adapter of ws.rs is driven by a raw tungstenite peer over an in-memory pipe under tokio's paused clock; bounds of 5 s are virtual time; the yawc adapter is not built",
        ],
    },
    "C12": {
        "level": "exploration",
        "jobs": {
            "quick": [job("micro", "mux", "verif", "c12", 8)],
            "thorough": [job("micro", "mux", "verif", "c12", 16),
                         job("miri", "mux", "miri", "c12", 16, extra=["--miri", "1"], timeout=3000, miriflags="-Zmiri-seed={shard}")],
        },
        "required_targets": {"any": ["ack_inside_check_then_register_window", "close_inside_check_then_register_window", "stress_takes_while_granting"]},
        "assumptions": COMMON_ASSUMPTIONS + [
            "MICRO engine: real OS threads; the observer hook blocks each thread at each hook event until a turn-taking scheduler releases it; an execution is a total order of hook events (granularity = hook points, not individual atomic operations)",
            "'two writer polls' = two polls of the same writer (one waker slot, AsyncWrite needs &mut self); two independent waiters on one stream are outside the API contract",
            "C11 memory-model behaviours beyond what x86 and Miri's store-buffer emulation produce are not covered",
            "standalone_stream builds the MuxStream/EstablishedStreamData pair exactly as the connection task does; acknowledge/disallow_write are the task's own methods",
            "interleavings between individual atomic operations are reached by the free-running stress (one writer thread against one granting thread, as the one connection task is the only granter) and by Miri's random preemption, not by enumeration; the stress is judged by exact conservation only",
        ],
    },
    "C13": {
        "level": "exploration",
        "jobs": {
            "quick": [job("sim", "mux", "verif", "c13", 8)],
            "thorough": [job("sim", "mux", "verif", "c13", 16)],
        },
        "required_targets": {"any": ["bytes_bridged_runs", "errors_injected", "bridges_completed_ok", "local_eof_served_runs", "local_eof_with_credit_exhausted"]},
        "assumptions": COMMON_ASSUMPTIONS + SIM_ASSUMPTIONS + [
            "the local side is a scripted AsyncBufRead + AsyncWrite; an injected read error is one-shot and followed by EOF, as sockets behave",
            "'promptly' = the bridge future has resolved by the second quiescent point after the error was returned to it",
            "a bridge whose local reader is idle forever, or whose far application never reads, legitimately stays pending; only the half-close and data oracles apply then",
            "'one unit of credit per frame sent' is checked both ways at the end of runs without an injected error: units taken by the bridged stream == Push frames of its flow on the wire",
            "a half-close needs no credit: after the local side served EOF (no error, no Reset on the flow) the Finish frame must be on the wire within 3 ms of virtual time (link jitter is below 1 ms)",
        ],
    },
    "C14": {
        "level": "exploration",
        "jobs": {
            "quick": [job("e2e", "e2e", "verif", "c14", 8)],
            "thorough": [job("e2e", "e2e", "verif", "c14", 16)],
        },
        "required_targets": {"any": ["expected_101", "expected_refusal", "indistinguishability_comparisons", "tunnels_probed"]},
        "assumptions": COMMON_ASSUMPTIONS + E2E_ASSUMPTIONS + [
            "the decision predicate is written from the statement: header values compared case-insensitively as whole values after HTTP's own optional-whitespace trimming; PSK compared byte for byte",
            "cells the statement leaves open (duplicate header with one valid value, empty Sec-WebSocket-Key, HTTP/1.0 request line) get no verdict on 101-or-not; when they are refused they are 'every other request' and must be indistinguishable from the unknown-path twin",
            "the stub backend's reply is a function of method and headers only, and it records what it was sent",
        ],
    },
    "C17": {
        "level": "exploration",
        "jobs": {
            "quick": [job("e2e", "e2e", "verif", "c17", 1)],
            "thorough": [job("e2e", "e2e", "verif", "c17", 3)],
        },
        "exhaustive_claim": True,
        "required_targets": {"any": ["matrix_cells_executed", "reload_cycles", "certificate_request_probes", "signal_reload_cycles", "policy_columns_after_signal_reload", "overtaken_reloads"]},
        "assumptions": COMMON_ASSUMPTIONS + E2E_ASSUMPTIONS + [
            "certificates are generated with rcgen at run time; 'reaches the server' = GET /health is answered 200 over the TLS stream (with TLS 1.3 a rejected client certificate only surfaces at the first read)",
            "whether a CertificateRequest was sent is observed with a recording rustls ResolvesClientCert",
            "the operator's reload path is exercised in-process: server_main with certificate files, files replaced, SIGUSR1 sent to the own process with kill(1); 'effective' = a handshake sees the new identity within 5 s (bounded wait, expiry is a violation only of 'reload-not-effective')",
        ],
    },
    "C19": {
        "level": "fault_enumeration",
        "jobs": {
            "quick": [job("backoff", "mux", "verif", "c19b", 1), job("e2e", "e2e", "verif", "c19", 8, timeout=600)],
            "thorough": [job("backoff", "mux", "verif", "c19b", 4), job("e2e", "e2e", "verif", "c19", 16, timeout=1800)],
        },
        "required_targets": {"any": ["backoff_tuples_x_reset_patterns", "runs_with_failed_attempts", "orderly_close_runs", "conversations_across_outage"]},
        "assumptions": COMMON_ASSUMPTIONS + E2E_ASSUMPTIONS + [
            "the gate timestamps accepted attempts; a delay is measured from the instant the previous attempt failed (RST/close at accept, handshake timeout after 1 s, cut instant)",
            "lower bounds on delays are hard (a sleep cannot be short, 5 ms slack); upper bounds use the minimum over repeats with tolerance max(150 ms, 50%); a delay is judged too late only if it was late in every one of 5 repeats while a 5 ms timer task on the same runtime never overshot by more than a quarter of the tolerance (load witness), otherwise inconclusive",
            "true ECONNREFUSED attempts cannot be timestamped by the gate and are not part of the timing oracle",
            "which errors are final is not spelled out by the statement; the reference is the classification of the tree the checks were written against: a complete HTTP answer to the upgrade request other than 101 (404, but also 200 / 301 / 503 as a server hands them out from its backend to a client it does not recognise) ends the client at once, whatever max_retry_count is",
        ],
    },
    "C01": {
        "level": "exploration",
        "jobs": {
            "quick": [job("letgo", "mux", "verif", "c01b", 4), job("e2e", "e2e", "verif", "c01", 8, timeout=600, hosts=True)],
            "thorough": [job("letgo", "mux", "verif", "c01b", 16), job("e2e", "e2e", "verif", "c01", 16, timeout=3000, hosts=True)],
        },
        "required_targets": {"any": ["conversations_completed", "udp_replies_checked", "half_close_then_opposite_direction", "close_refuse_abort_paths", "socks5_associations_with_two_targets", "local_close_with_reply_in_flight", "let_go_cases", "live_replies_after_local_half_close"]},
        "assumptions": COMMON_ASSUMPTIONS + E2E_ASSUMPTIONS + [
            "absolute oracle with position-addressed payloads instead of a second run over a direct connection: each side must receive exactly the other side's stream, a direction's end is compared as ended / not ended",
            "for refusing / aborting targets only 'the local connection is closed and nothing the target did send is lost' is demanded (a tunnel turns a refused connect into an accepted-then-closed local connection)",
            "conversations in which the local client closes first demand only that the target's writing ends (error or completion) - 'stuck' = 25 s after the start the target is still inside write() and has not handed over one more byte for 10 s",
            "c01b (simulator): the far application keeps at least two units of send credit when the near application lets go; with no credit left the protocol has no way to tell it (known finding)",
            "UDP loss is not a violation by itself; only cross-delivery, wrong source address, duplication, modification, a reply produced by another target than the one addressed, a malformed SOCKS5 header, or nothing at all arriving",
        ],
    },
}
