# sourced by ad-hoc shell use; `check` sets the same variables itself
export CARGO_NET_OFFLINE=true
export RUSTFLAGS="--cfg penguin_rs_verif --check-cfg cfg(penguin_rs_verif)"
